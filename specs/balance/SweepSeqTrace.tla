--------------------------- MODULE SweepSeqTrace ---------------------------
(***************************************************************************)
(* Judge for the sweep-sequence part of C06: validates ndjson traces        *)
(* recorded from several consecutive real Balancer.Run calls                *)
(* (harness/C06_keepbalance/sweepseq_driver_test.go) against                *)
(* SweepSeqContract.  Events:                                               *)
(*   {"ev":"reset","scn":id,"part":"sweepseq","stale":[k..]}                *)
(*   {"ev":"runstart","run":i,"servers":[k..],"commit":b}                   *)
(*   {"ev":"req","kind":k,"tgt":t,"failed":b}   (index: tgt = server)       *)
(*   {"ev":"put","what":"trash"|"pull","tgt":server,"n":len,"failed":b}     *)
(*   {"ev":"done","ok":b}                                                   *)
(***************************************************************************)
EXTENDS SweepSeqContract, TraceIO

Range(s) == {s[i] : i \in DOMAIN s}

TraceInit == l = 1 /\ QInit({})

TraceReset == /\ IsEvent("reset")
              /\ held' = [k \in 1 .. MaxSrvs |-> IF k \in Range(Ev.stale) THEN <<1, Unknown>> ELSE <<0, {}>>]
              /\ cur' = {} /\ commit' = FALSE /\ earlyfail' = FALSE /\ indexed' = FALSE

TraceRun  == IsEvent("runstart") /\ RunStart(Range(Ev.servers), Ev.commit)
TraceReq  == IsEvent("req")  /\ Req(Ev.kind, Ev.tgt)
TracePut  == IsEvent("put")  /\ Put(Ev.what, Ev.tgt, Ev.n, Ev.failed)
TraceDone == IsEvent("done") /\ Done(Ev.ok)

TraceNext == TraceReset \/ TraceRun \/ TraceReq \/ TracePut \/ TraceDone

TraceSpec == TraceInit /\ [][TraceNext]_<<qvars, l>>
=============================================================================
