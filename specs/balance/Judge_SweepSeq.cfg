SPECIFICATION TraceSpec
CONSTANT MaxSrvs = 8
CONSTRAINT Mark
POSTCONDITION Accepted
INVARIANT QTypeOK
CHECK_DEADLOCK FALSE
