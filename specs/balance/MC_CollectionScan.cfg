SPECIFICATION Spec
CONSTANTS
  MaxC = 4
  MaxInit = 3
  MaxT0 = 2
  MaxT = 3
  MaxPage = 2
  MaxEnv = 2
  MaxHist = 0
  CanFail = TRUE
  GeOp = ">="
VIEW view
INVARIANTS TypeOK Complete NoBugBranch SeenBelowCursor
PROPERTIES Refines Terminates
CHECK_DEADLOCK FALSE
