------------------------- MODULE IndexFramingTrace -------------------------
(***************************************************************************)
(* Judge for C06 (b): validates ndjson traces recorded by                  *)
(* harness/C06_arvados, harness/C06_keepclient and harness/C06_keepstore   *)
(* against IndexFramingContract.  Events:                                  *)
(*   {"ev":"reset","scn":id,"part":"framing","shape":[[sd,md]..],"cut":k,..} *)
(*   {"ev":"read","reader":"index"|"getindex","err":b}                     *)
(*   {"ev":"write","failed":b,"status":n,"term":b,"e1":b,"e2":b}           *)
(***************************************************************************)
EXTENDS IndexFramingContract, TraceIO

TraceInit == /\ l = 1
             /\ CInit(<<>>, 0)

TraceReset == /\ IsEvent("reset")
              /\ shape' = Ev.shape
              /\ cut' = Ev.cut
              /\ nread' = 0

TraceRead  == IsEvent("read")  /\ Read(Ev.reader, Ev.err)
TraceWrite == IsEvent("write") /\ Write(Ev.failed, Ev.status, Ev.term, Ev.e1, Ev.e2)

TraceNext == TraceReset \/ TraceRead \/ TraceWrite

TraceSpec == TraceInit /\ [][TraceNext]_<<cvars, l>>
=============================================================================
