SPECIFICATION Spec
CONSTANTS
  TtlK = 2
  TtlB = 2
  SkewBack = 1
  SkewFwd = 0
  MaxNow = 8
  MaxSweeps = 2
  CompleteScan = TRUE
  BoundedLatency = FALSE
  CheckEquality = TRUE
INVARIANTS TypeOK Safe LateTouchSafe OldWhenRemoved
CHECK_DEADLOCK FALSE
