------------------------------ MODULE SweepSeq ------------------------------
(***************************************************************************)
(* Implementation-shaped model of a SEQUENCE of keep-balance sweeps: the    *)
(* protocol in Balancer.Run around rendezvousState, SafeRendezvousState and *)
(* ClearTrashLists (services/keep-balance/balance.go, server.go), with the  *)
(* set of keep services changing between runs and keepstore servers that    *)
(* keep the last trash list they accepted.                                  *)
(*                                                                          *)
(*   srv.RunOptions, err = bal.Run(client, cluster, srv.RunOptions)  (server.go) *)
(*   Run:  nextRunOptions = runOptions                                      *)
(*         rs := rendezvousState()          -- fingerprint of the service set *)
(*         if CommitTrash && rs != SafeRendezvousState {          StartRun  *)
(*             ClearTrashLists: PUT [] to every server, in parallel ClearPut *)
(*             any error: return                                  ClearDone *)
(*             nextRunOptions.SafeRendezvousState = rs }                    *)
(*         GetCurrentState: one index per server; any error: return  Index, *)
(*                                                                 ScanFail *)
(*         ... if CommitTrash: PUT the new list to every server   CommitPut *)
(*         return nextRunOptions, err                               Return  *)
(*                                                                          *)
(* The SafeRendezvousState travels from run to run whether or not the run   *)
(* failed, a dry run (CommitTrash false) neither clears nor changes it, and *)
(* a server that is not in the current service list is not touched at all.  *)
(* Servers may hold lists left by an earlier keep-balance process (`stale`) *)
(* while the first run starts with SafeRendezvousState "".                  *)
(*                                                                          *)
(* One request of each run may be made to fail: a clearing PUT, the scan    *)
(* (an index or collection request), or a committing PUT.                   *)
(***************************************************************************)
EXTENDS Naturals, Sequences, FiniteSets, TLC, Json, IOUtils

CONSTANTS MaxSrvs,     \* servers 1 .. MaxSrvs
          MaxRuns,     \* length of the sequence
          Ordered,     \* BOOLEAN: parallel requests in server order (Gen: one path per scenario)
          MaxHist

VARIABLES held, cur, commit, earlyfail, indexed,     \* contract ghost state
          safe,        \* SafeRendezvousState: a set of servers, or None for ""
          run, rpc, todo, desc, puterr, rok, hist, stale0

Q == INSTANCE SweepSeqContract
qvars == <<held, cur, commit, earlyfail, indexed>>
vars == <<qvars, safe, run, rpc, todo, desc, puterr, rok, hist, stale0>>
view == <<qvars, safe, run, rpc, todo, desc, puterr, rok>>

None == {0}
Servers == 1 .. MaxSrvs
NoDesc == [S |-> {}, c |-> FALSE, fk |-> "none", ft |-> 0]

Init ==
    \E st \in SUBSET Servers :
        /\ Q!QInit(st)
        /\ stale0 = st
        /\ safe = None
        /\ run = 0 /\ rpc = "between" /\ todo = {} /\ desc = NoDesc /\ puterr = FALSE /\ rok = TRUE
        /\ hist = <<>>

Failures(S, c) ==
    {<<"none", 0>>, <<"scan", 0>>}
    \cup (IF c THEN {<<"clear", k>> : k \in S} \cup {<<"trash", k>> : k \in S} ELSE {})

Pick(S) == IF S = {} THEN {} ELSE IF Ordered THEN {CHOOSE k \in S : \A j \in S : k <= j} ELSE S

StartRun ==
    /\ rpc = "between" /\ run < MaxRuns
    /\ \E S \in (SUBSET Servers) \ {{}}, c \in BOOLEAN : \E f \in Failures(S, c) :
         /\ Q!RunStart(S, c)
         /\ desc' = [S |-> S, c |-> c, fk |-> f[1], ft |-> f[2]]
         /\ hist' = IF Len(hist) < MaxHist THEN Append(hist, [S |-> S, c |-> c, fk |-> f[1], ft |-> f[2]]) ELSE hist
         /\ todo' = S
         /\ rpc' = IF c /\ S # safe THEN "clear" ELSE "scan"
    /\ puterr' = FALSE /\ rok' = TRUE
    /\ UNCHANGED <<safe, run, stale0>>

ClearPut ==
    /\ rpc = "clear"
    /\ \E k \in Pick(todo) :
         LET failed == desc.fk = "clear" /\ desc.ft = k IN
         /\ Q!Put("trash", k, 0, failed)
         /\ puterr' = (puterr \/ failed)
         /\ todo' = todo \ {k}
    /\ UNCHANGED <<safe, run, rpc, desc, rok, hist, stale0>>

ClearDone ==
    /\ rpc = "clear" /\ todo = {}
    /\ IF puterr THEN rpc' = "ret" /\ rok' = FALSE /\ UNCHANGED <<safe, todo>>
       ELSE rpc' = "scan" /\ safe' = desc.S /\ todo' = desc.S /\ rok' = rok
    /\ UNCHANGED <<qvars, run, desc, puterr, hist, stale0>>

Index ==
    /\ rpc = "scan"
    /\ \E k \in Pick(todo) :
         /\ Q!Req("index", k)
         /\ todo' = todo \ {k}
    /\ UNCHANGED <<safe, run, rpc, desc, puterr, rok, hist, stale0>>

\* an index or collection request fails at some point of GetCurrentState
ScanFail ==
    /\ rpc = "scan" /\ desc.fk = "scan"
    /\ Ordered => todo = {}
    /\ rpc' = "ret" /\ rok' = FALSE
    /\ UNCHANGED <<qvars, safe, run, todo, desc, puterr, hist, stale0>>

ScanDone ==
    /\ rpc = "scan" /\ todo = {} /\ desc.fk # "scan"
    /\ IF desc.c THEN rpc' = "commit" /\ todo' = desc.S ELSE rpc' = "ret" /\ todo' = todo
    /\ UNCHANGED <<qvars, safe, run, desc, puterr, rok, hist, stale0>>

CommitPut ==
    /\ rpc = "commit"
    /\ \/ \E k \in Pick(todo) :
            LET failed == desc.fk = "trash" /\ desc.ft = k IN
            /\ Q!Put("trash", k, 1, failed)
            /\ puterr' = (puterr \/ failed)
            /\ todo' = todo \ {k}
            /\ UNCHANGED <<rpc, rok>>
       \/ /\ todo = {}
          /\ rpc' = "ret" /\ rok' = ~puterr
          /\ UNCHANGED <<qvars, todo, puterr>>
    /\ UNCHANGED <<safe, run, desc, hist, stale0>>

Return ==
    /\ rpc = "ret"
    /\ Q!Done(rok)
    /\ run' = run + 1
    /\ rpc' = "between" /\ todo' = {} /\ desc' = NoDesc
    /\ UNCHANGED <<safe, puterr, rok, hist, stale0>>

Next == StartRun \/ ClearPut \/ ClearDone \/ Index \/ ScanFail \/ ScanDone \/ CommitPut \/ Return

Spec == Init /\ [][Next]_vars
GenSpec == Spec

--------------------------------------------------------------------------
Refines == [][ (\E S \in SUBSET Servers, c \in BOOLEAN : Q!RunStart(S, c))
               \/ (\E k \in Servers, n \in 0 .. 1, f \in BOOLEAN : Q!Put("trash", k, n, f))
               \/ (\E k \in Servers : Q!Req("index", k))
               \/ (\E ok \in BOOLEAN : Q!Done(ok))
               \/ UNCHANGED qvars ]_vars

TypeOK == Q!QTypeOK /\ rpc \in {"between", "clear", "scan", "commit", "ret"}

\* the contract's guards are enabled whenever the model is about to take an index or to return
\* (a disabled guard would silently stop the behaviour, so it is stated as an invariant)
NoStaleListAtIndex ==
    rpc = "scan" => \A k \in todo : commit => (~earlyfail /\ Q!HeldOK(k))
ClearFailureStopsRun == rpc = "ret" => (earlyfail => ~rok)

\* the protocol's inductive invariant: every server of the safe set holds either an empty list or a
\* list computed for exactly that set
HeldForSafe == safe # None => \A k \in safe : held[k][1] > 0 => held[k][2] = safe
\* a run that commits trash scans only in the safe state of its own set
ScanInSafeState == (rpc \in {"scan", "commit"} /\ commit) => safe = cur
\* a dry run changes nothing on any server
DryRunTouchesNothing == [][(~commit /\ ~commit') => held' = held]_vars

--------------------------------------------------------------------------
Emit == (rpc = "between" /\ run = MaxRuns) =>
          Serialize(<<[id |-> TLCGet("distinct"), stale |-> stale0, runs |-> hist]>>,
                    IOEnv.VERIF_OUT,
                    [format |-> "NDJSON", charset |-> "UTF-8",
                     openOptions |-> <<"WRITE", "CREATE", "APPEND">>])
=============================================================================
