----------------------------- MODULE SweepTrace -----------------------------
(***************************************************************************)
(* Judge for C06 (c): validates ndjson traces recorded from the real       *)
(* Balancer.Run (harness/C06_keepbalance/sweep_driver_test.go) against     *)
(* SweepContract.  Events:                                                 *)
(*   {"ev":"reset","scn":id,"part":"sweep",...}                            *)
(*   {"ev":"req","kind":k,"tgt":t,"failed":b}                              *)
(*   {"ev":"put","what":"trash"|"pull","tgt":s,"n":len,"failed":b}         *)
(*   {"ev":"done","ok":b}                                                  *)
(***************************************************************************)
EXTENDS SweepContract, TraceIO

TraceInit == l = 1 /\ CInit

TraceReset == IsEvent("reset") /\ sfailed' = FALSE /\ done' = "no"
TraceReq   == IsEvent("req")  /\ Req(Ev.kind, Ev.failed)
TracePut   == IsEvent("put")  /\ Put(Ev.what, Ev.n, Ev.failed)
TraceDone  == IsEvent("done") /\ Done(Ev.ok)

TraceNext == TraceReset \/ TraceReq \/ TracePut \/ TraceDone

TraceSpec == TraceInit /\ [][TraceNext]_<<cvars, l>>
=============================================================================
