---------------------- MODULE CollectionScanContract ----------------------
(***************************************************************************)
(* C06 (a) - contract of a collection scan (keep-balance EachCollection),  *)
(* over observable events only.                                            *)
(*                                                                         *)
(* Observables: the harness-owned collection table (what the fake list API *)
(* contains), the changes the harness made to it between list requests,    *)
(* the list requests/responses, the collections handed to the callback     *)
(* (the reference counter) and the return value of the scan.               *)
(*                                                                         *)
(* A collection is a pair <<t, u>>: modified_at rank t (a natural number,  *)
(* order = time order, equal = identical timestamp) and uuid rank u.       *)
(*                                                                         *)
(* Statement (properties.jsonl C06, first sentence) -> clause:             *)
(*   "hands every collection that exists throughout the scan to its        *)
(*    reference counter at least once ... or else the scan fails"          *)
(*          Finish(TRUE) requires  Throughout \subseteq delivered          *)
(*   "for any page size, any number of collections sharing one             *)
(*    modification timestamp, and any collections modified, added or       *)
(*    deleted while the scan runs"                                         *)
(*          quantified by the scenarios; EnvModify/EnvAdd/EnvDelete are    *)
(*          what the harness did ("modified_at only moves forward to a     *)
(*          fresh now": t >= now, now non-decreasing, ties allowed)        *)
(*   "when fetching ... any collection page fails the sweep ends ..."       *)
(*   (third sentence; coordinator's reading: every GET of the collections  *)
(*   list API that EachCollection issues - the initial count, every page,  *)
(*   the final count - is such a fetch)                                    *)
(*          ReqFail records that the harness made a list request fail      *)
(*          (HTTP 500, transport error, body cut short);                   *)
(*          Finish(TRUE) requires that no list request failed              *)
(* Nothing else is demanded: Deliver is unconstrained (duplicates, deleted *)
(* or added collections may or may not be delivered), Finish(FALSE) is     *)
(* always allowed.                                                         *)
(*                                                                         *)
(* Page and Count do not constrain the code under test.  They state what   *)
(* a faithful list API answers for the request that was received; the      *)
(* harness's fake API is checked against this definition, so that the      *)
(* binding does not rest on the Go fake alone.  (A request the definition  *)
(* does not understand is answered with an error by the fake and is not    *)
(* logged as a page.)                                                      *)
(***************************************************************************)
EXTENDS Naturals, Sequences, FiniteSets

VARIABLES db,         \* set of <<t, u>> : the collection table now
          now,        \* the database clock (rank), non-decreasing
          trashed,    \* uuids that are trashed       (visible only with include_trash)
          oldver,     \* uuids that are past versions (visible only with include_old_versions)
          init0,      \* uuids present when the scan started
          everseen,   \* uuids that ever existed
          everdel,    \* uuids deleted during the scan
          delivered,  \* uuids handed to the callback
          fin,        \* "no" | "ok" | "err"
          reqfailed   \* the harness made one of the scan's list requests fail

cvars == <<db, now, trashed, oldver, init0, everseen, everdel, delivered, fin, reqfailed>>

Uuids(tbl) == {c[2] : c \in tbl}

CInit(tbl, n, tr, ov) ==
    /\ db = tbl
    /\ now = n
    /\ trashed = tr
    /\ oldver = ov
    /\ init0 = Uuids(tbl)
    /\ everseen = Uuids(tbl)
    /\ everdel = {}
    /\ delivered = {}
    /\ fin = "no"
    /\ reqfailed = FALSE

Throughout == init0 \ everdel

--------------------------------------------------------------------------
(* What the harness did to the table between two list requests. *)

EnvModify(u, t) ==
    /\ fin = "no"
    /\ u \in Uuids(db)
    /\ t >= now
    /\ db' = {c \in db : c[2] # u} \cup {<<t, u>>}
    /\ now' = t
    /\ UNCHANGED <<trashed, oldver, init0, everseen, everdel, delivered, fin, reqfailed>>

\* k = 0 ordinary, 1 trashed, 2 past version
EnvAdd(u, t, k) ==
    /\ fin = "no"
    /\ u \notin everseen
    /\ t >= now
    /\ db' = db \cup {<<t, u>>}
    /\ now' = t
    /\ everseen' = everseen \cup {u}
    /\ trashed' = IF k = 1 THEN trashed \cup {u} ELSE trashed
    /\ oldver' = IF k = 2 THEN oldver \cup {u} ELSE oldver
    /\ UNCHANGED <<init0, everdel, delivered, fin, reqfailed>>

EnvDelete(u) ==
    /\ fin = "no"
    /\ u \in Uuids(db)
    /\ db' = {c \in db : c[2] # u}
    /\ everdel' = everdel \cup {u}
    /\ UNCHANGED <<now, trashed, oldver, init0, everseen, delivered, fin, reqfailed>>

--------------------------------------------------------------------------
(* Faithful list API.  A filter is <<attr, op, v>>, attr "modified_at" or  *)
(* "uuid", v a rank.  it/io = include_trash / include_old_versions.        *)

Field(c, a) == IF a = "modified_at" THEN c[1] ELSE c[2]

Match(c, f) ==
    LET x == Field(c, f[1]) IN
    CASE f[2] = "="  -> x = f[3]
      [] f[2] = "!=" -> x # f[3]
      [] f[2] = ">"  -> x > f[3]
      [] f[2] = ">=" -> x >= f[3]
      [] f[2] = "<"  -> x < f[3]
      [] f[2] = "<=" -> x <= f[3]

Visible(c, it, io) == /\ (c[2] \in trashed => it)
                      /\ (c[2] \in oldver => io)

Matching(flt, it, io) ==
    {c \in db : Visible(c, it, io) /\ \A i \in DOMAIN flt : Match(c, flt[i])}

\* (modified_at, uuid) order, ascending or descending
Less(ord, a, b) ==
    IF ord = "asc" THEN a[1] < b[1] \/ (a[1] = b[1] /\ a[2] < b[2])
                   ELSE a[1] > b[1] \/ (a[1] = b[1] /\ a[2] > b[2])

\* items is the first `limit` (>= 1) matching rows in the requested order
PageOK(flt, it, io, ord, limit, items) ==
    LET M == Matching(flt, it, io)
        S == {items[i] : i \in DOMAIN items}
    IN /\ S \subseteq M
       /\ Len(items) <= limit
       /\ Cardinality(S) = Len(items)
       /\ ord \in {"asc", "desc"} =>
            /\ \A i \in 1 .. Len(items) - 1 : Less(ord, items[i], items[i + 1])
            /\ \A c \in M \ S : Len(items) = limit /\ Less(ord, items[limit], c)
       /\ ord \notin {"asc", "desc"} => (M # S => Len(items) = limit)

Page(flt, it, io, ord, limit, items) ==
    /\ fin = "no"
    /\ limit >= 1
    /\ PageOK(flt, it, io, ord, limit, items)
    /\ UNCHANGED cvars

Count(flt, it, io, n) ==
    /\ fin = "no"
    /\ n = Cardinality(Matching(flt, it, io))
    /\ UNCHANGED cvars

--------------------------------------------------------------------------
(* The code under test. *)

Deliver(u) ==
    /\ fin = "no"
    /\ delivered' = delivered \cup {u}
    /\ UNCHANGED <<db, now, trashed, oldver, init0, everseen, everdel, fin, reqfailed>>

\* the harness answered a list request of the scan with a failure
ReqFail ==
    /\ fin = "no"
    /\ reqfailed' = TRUE
    /\ UNCHANGED <<db, now, trashed, oldver, init0, everseen, everdel, delivered, fin>>

Finish(ok) ==
    /\ fin = "no"
    /\ ok => (Throughout \subseteq delivered /\ ~reqfailed)
    /\ fin' = IF ok THEN "ok" ELSE "err"
    /\ UNCHANGED <<db, now, trashed, oldver, init0, everseen, everdel, delivered, reqfailed>>

CTypeOK == /\ fin \in {"no", "ok", "err"}
           /\ now \in Nat
           /\ Cardinality(Uuids(db)) = Cardinality(db)     \* one row per uuid

\* the property, as a state predicate
Complete == fin = "ok" => (Throughout \subseteq delivered /\ ~reqfailed)
=============================================================================
