SPECIFICATION GenSpec
CONSTANTS
  MaxEntries = 3
  SizeDigits = {1}
  MtimeDigits = {10, 19}
  MaxVols = 2
  MaxVolEntries = 2
INVARIANTS Emit
CHECK_DEADLOCK FALSE
