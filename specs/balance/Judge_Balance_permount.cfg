SPECIFICATION TraceSpec
CONSTANTS
  PerMount = TRUE
  ClassBlind = FALSE
CONSTRAINT Mark
POSTCONDITION Accepted
INVARIANT CTypeOK
CHECK_DEADLOCK FALSE
