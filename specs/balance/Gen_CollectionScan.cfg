SPECIFICATION GenSpec
CONSTANTS
  MaxC = 4
  MaxInit = 3
  MaxT0 = 2
  MaxT = 3
  MaxPage = 3
  MaxEnv = 1
  MaxHist = 40
  CanFail = TRUE
  GeOp = ">="
INVARIANTS Emit
CHECK_DEADLOCK FALSE
