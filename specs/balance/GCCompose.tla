----------------------------- MODULE GCCompose -----------------------------
(***************************************************************************)
(* The two halves of Keep garbage collection, composed (DESIGN.md section  *)
(* 5, growth plan): keep-balance decides on a snapshot, keepstore re-checks *)
(* when it carries the decision out, clients write in between.             *)
(*                                                                         *)
(* One block on one volume.                                                *)
(*                                                                         *)
(*  keep-balance (services/keep-balance/balance.go)                        *)
(*    BalStart   GetCurrentState: MinMtime = now_B - blobSignatureTtl      *)
(*    BalIndex   IndexMount: the block's mtime as listed then (or absent)  *)
(*    BalScan    EachCollection: is the block referenced by a collection   *)
(*               saved so far?  (C06 (a): every collection that exists     *)
(*               throughout the scan is seen; CompleteScan = FALSE drops   *)
(*               that guarantee)                                           *)
(*    BalDecide  balanceBlock + CommitTrash: an unreferenced replica with  *)
(*               listed mtime < MinMtime is put on the server's trash list *)
(*               as (locator, listed mtime); a new list replaces the old   *)
(*  keepstore (services/keepstore/trash_worker.go, unix_volume.go)         *)
(*    KCheck     TrashItem: skip if now_K - request mtime < BlobSigningTTL;*)
(*               skip if the stored mtime differs from the request mtime   *)
(*               (CheckEquality = FALSE drops this test)                   *)
(*    KTrash     UnixVolume.Trash under the volume/file lock: re-stat;     *)
(*               skip if now_K - stored mtime < BlobSigningTTL; else remove*)
(*    The request may wait in the queue for any time, and KCheck and       *)
(*    KTrash are separate steps: a PUT can land between them.              *)
(*  clients                                                                *)
(*    ClientWrite  PUT: the block is written, or touched if it exists:     *)
(*               stored mtime := now_K; the client receives a signature    *)
(*               that expires at now_K + BlobSigningTTL                    *)
(*    ClientSave   the client saves a collection that references the       *)
(*               block; the API server accepts it only while the signature *)
(*               has not expired                                           *)
(*                                                                         *)
(* Clocks: `now` is the keepstore clock, which is also the clock the API   *)
(* server checks signatures with (assumption A1).  The balancer's clock is *)
(* now + SkewB.  TtlK is keepstore's BlobSigningTTL, TtlB the value        *)
(* keep-balance reads from the discovery document.                         *)
(*                                                                         *)
(* What TLC shows (MC_GCCompose.cfg: skewB in {-1, 0}, TtlB = TtlK = 2):    *)
(*   Safe         a removed block is not referenced by a saved collection  *)
(*                and no client can still save one (all signatures have    *)
(*                expired)                                                 *)
(*   LateTouchSafe a block written or touched after the index of the sweep *)
(*                that asked for its removal was taken is never removed by *)
(*                that request                                             *)
(* and which assumptions are needed (MC_GCCompose_*.cfg, each refuted):    *)
(*   A2  TtlB - SkewB >= TtlK: the balancer must not consider a block old  *)
(*       before every signature issued for it has expired on the           *)
(*       keepstore/API clock  (_ttl: TtlB = 0 < TtlK;  _skew: SkewB = 2;   *)
(*       a shortfall of one tick is invisible at this time granularity)    *)
(*   A3  the collection scan is complete (C06)            (_scan)          *)
(*   A4  keepstore compares the stored mtime with the one named in the     *)
(*       request; without it LateTouchSafe fails, and Safe fails too once  *)
(*       A2 is also weakened                               (_noeq)         *)
(*   A5  TtlK > 0 and the keepstore clock does not go backwards (built in: *)
(*       Tick only increments); a signature issued at t is valid strictly  *)
(*       before t + TtlK while removal needs age >= TtlK (the code compares*)
(*       the same way; expiry stamps are truncated to whole seconds)       *)
(*   A6  fewer than TtlK clock ticks pass between TrashItem reading the    *)
(*       mtime and UnixVolume.Trash re-reading it under the lock: needed   *)
(*       for LateTouchSafe only (_latency); Safe survives without it       *)
(*       because of the second age test                                    *)
(***************************************************************************)
EXTENDS Integers, TLC

CONSTANTS TtlK, TtlB,      \* BlobSigningTTL as keepstore / keep-balance see it
          SkewBack, SkewFwd,  \* balancer clock offsets explored: -SkewBack .. SkewFwd
          MaxNow,          \* time horizon
          MaxSweeps,       \* number of balancing sweeps
          CompleteScan,    \* BOOLEAN: assumption A3
          CheckEquality,   \* BOOLEAN: assumption A4
          BoundedLatency   \* BOOLEAN: assumption A6

VARIABLES now,        \* keepstore / API clock
          skewB,      \* balancer clock = now + skewB
          present, mt,          \* the block file and its mtime
          sigUntil,   \* latest expiry of a signature handed to a client (0 = none)
          pending,    \* a client has PUT the block and not yet saved its collection
          refd,       \* a saved collection references the block
          bpc, minMtime, idxMt, sawRef, scanDone, sweeps,   \* balancer
          trashReq,   \* mtime named by the queued trash request (0 = none)
          kpc,        \* "idle" | "checked" (TrashItem passed its tests, Trash not yet called)
          ksince,     \* clock ticks since TrashItem read the mtime (while kpc = "checked")
          removed,
          touchedSinceIdx,   \* ghost: a PUT happened after the current sweep's index was taken
          reqTouched         \* ghost: a PUT happened after the index behind the queued request

vars == <<now, skewB, present, mt, sigUntil, pending, refd, bpc, minMtime, idxMt, sawRef, scanDone, sweeps,
          trashReq, kpc, ksince, removed, touchedSinceIdx, reqTouched>>

NotFetched == -1

Init ==
    /\ now = 1
    /\ skewB \in (0 - SkewBack) .. SkewFwd
    /\ present \in BOOLEAN
    /\ mt = IF present THEN 1 ELSE 0
    /\ sigUntil = 0 /\ pending = FALSE /\ refd = FALSE
    /\ bpc = "idle" /\ minMtime = 0 /\ idxMt = NotFetched /\ sawRef = FALSE /\ scanDone = FALSE /\ sweeps = 0
    /\ trashReq = 0 /\ kpc = "idle" /\ ksince = 0 /\ removed = FALSE
    /\ touchedSinceIdx = FALSE /\ reqTouched = FALSE

Tick ==
    /\ ~removed /\ now < MaxNow
    /\ (BoundedLatency /\ kpc = "checked") => ksince + 1 < TtlK
    /\ now' = now + 1
    /\ ksince' = IF kpc = "checked" THEN ksince + 1 ELSE 0
    /\ UNCHANGED <<skewB, present, mt, sigUntil, pending, refd, bpc, minMtime, idxMt, sawRef, scanDone, sweeps,
                   trashReq, kpc, removed, touchedSinceIdx, reqTouched>>

ClientWrite ==
    /\ ~removed
    /\ present' = TRUE /\ mt' = now
    /\ sigUntil' = now + TtlK
    /\ pending' = TRUE
    /\ touchedSinceIdx' = TRUE
    /\ reqTouched' = (reqTouched \/ trashReq # 0)
    /\ UNCHANGED <<now, skewB, refd, bpc, minMtime, idxMt, sawRef, scanDone, sweeps, trashReq, kpc, ksince, removed>>

ClientSave ==
    /\ ~removed /\ pending
    /\ pending' = FALSE
    /\ refd' = (refd \/ now < sigUntil)             \* an expired signature is refused
    /\ UNCHANGED <<now, skewB, present, mt, sigUntil, bpc, minMtime, idxMt, sawRef, scanDone, sweeps, trashReq,
                   kpc, ksince, removed, touchedSinceIdx, reqTouched>>

BalStart ==
    /\ ~removed /\ bpc = "idle" /\ sweeps < MaxSweeps
    /\ bpc' = "running" /\ sweeps' = sweeps + 1
    /\ minMtime' = (now + skewB) - TtlB
    /\ idxMt' = NotFetched /\ scanDone' = FALSE /\ sawRef' = FALSE
    /\ UNCHANGED <<now, skewB, present, mt, sigUntil, pending, refd, trashReq, kpc, ksince, removed, touchedSinceIdx,
                   reqTouched>>

BalIndex ==
    /\ ~removed /\ bpc = "running" /\ idxMt = NotFetched
    /\ idxMt' = IF present THEN mt ELSE 0
    /\ touchedSinceIdx' = FALSE
    /\ UNCHANGED <<now, skewB, present, mt, sigUntil, pending, refd, bpc, minMtime, sawRef, scanDone, sweeps,
                   trashReq, kpc, ksince, removed, reqTouched>>

BalScan ==
    /\ ~removed /\ bpc = "running" /\ ~scanDone
    /\ scanDone' = TRUE
    /\ IF CompleteScan THEN sawRef' = refd ELSE sawRef' \in {refd, FALSE}
    /\ UNCHANGED <<now, skewB, present, mt, sigUntil, pending, refd, bpc, minMtime, idxMt, sweeps, trashReq, kpc,
                   ksince, removed, touchedSinceIdx, reqTouched>>

\* the new trash list replaces whatever is still queued
BalDecide ==
    /\ ~removed /\ bpc = "running" /\ scanDone /\ idxMt # NotFetched
    /\ bpc' = "idle"
    /\ IF ~sawRef /\ idxMt > 0 /\ idxMt < minMtime
       THEN trashReq' = idxMt /\ reqTouched' = touchedSinceIdx
       ELSE trashReq' = 0 /\ reqTouched' = FALSE
    /\ kpc' = "idle" /\ ksince' = 0
    /\ UNCHANGED <<now, skewB, present, mt, sigUntil, pending, refd, minMtime, idxMt, sawRef, scanDone, sweeps,
                   removed, touchedSinceIdx>>

KCheck ==
    /\ ~removed /\ kpc = "idle" /\ trashReq # 0
    /\ IF now - trashReq < TtlK THEN kpc' = "idle" /\ trashReq' = 0              \* "asked to delete a ... old block"
       ELSE IF ~present \/ (CheckEquality /\ mt # trashReq) THEN kpc' = "idle" /\ trashReq' = 0
       ELSE kpc' = "checked" /\ trashReq' = trashReq
    /\ ksince' = 0
    /\ UNCHANGED <<now, skewB, present, mt, sigUntil, pending, refd, bpc, minMtime, idxMt, sawRef, scanDone, sweeps,
                   removed, touchedSinceIdx, reqTouched>>

KTrash ==
    /\ ~removed /\ kpc = "checked"
    /\ kpc' = "idle" /\ trashReq' = 0 /\ ksince' = 0
    /\ IF present /\ now - mt >= TtlK
       THEN removed' = TRUE /\ present' = FALSE
       ELSE removed' = FALSE /\ present' = present
    /\ UNCHANGED <<now, skewB, mt, sigUntil, pending, refd, bpc, minMtime, idxMt, sawRef, scanDone, sweeps,
                   touchedSinceIdx, reqTouched>>

Next == Tick \/ ClientWrite \/ ClientSave \/ BalStart \/ BalIndex \/ BalScan \/ BalDecide \/ KCheck \/ KTrash

Spec == Init /\ [][Next]_vars

--------------------------------------------------------------------------
\* (the state is frozen at the moment of removal, so these read "at the time of removal")
Safe == removed => (~refd /\ ~(pending /\ now < sigUntil))

LateTouchSafe == removed => ~reqTouched

\* keepstore alone guarantees the age of what it removes, whatever the balancer believes
OldWhenRemoved == removed => now - mt >= TtlK

TypeOK == /\ bpc \in {"idle", "running"} /\ kpc \in {"idle", "checked"}
          /\ removed \in BOOLEAN /\ now \in 1 .. MaxNow

=============================================================================
