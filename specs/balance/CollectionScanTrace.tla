------------------------ MODULE CollectionScanTrace ------------------------
(***************************************************************************)
(* Judge for C06 (a): validates ndjson traces recorded from the real       *)
(* EachCollection (harness/C06_keepbalance/scan_driver_test.go) against    *)
(* CollectionScanContract.  Events:                                        *)
(*   {"ev":"reset","scn":id,"part":"scan","tbl":[[t,u]..],"now":n,        *)
(*    "trashed":[u..],"oldver":[u..]}                                      *)
(*   {"ev":"count","flt":[[attr,op,v]..],"it":b,"io":b,"n":k}              *)
(*   {"ev":"page","flt":[..],"it":b,"io":b,"ord":"asc","limit":k,          *)
(*    "items":[[t,u]..]}                                                   *)
(*   {"ev":"mod","u":u,"t":t} {"ev":"add","u":u,"t":t,"k":k} {"ev":"del","u":u} *)
(*   {"ev":"deliver","u":u}   {"ev":"finish","ok":b}                       *)
(*   {"ev":"reqfail","nreq":r}  the harness made list request number r fail *)
(***************************************************************************)
EXTENDS CollectionScanContract, TraceIO

Range(s) == {s[i] : i \in DOMAIN s}

TraceInit == /\ l = 1
             /\ CInit({}, 0, {}, {})

TraceReset == /\ IsEvent("reset")
              /\ db' = Range(Ev.tbl)
              /\ now' = Ev.now
              /\ trashed' = Range(Ev.trashed)
              /\ oldver' = Range(Ev.oldver)
              /\ init0' = Uuids(Range(Ev.tbl))
              /\ everseen' = Uuids(Range(Ev.tbl))
              /\ everdel' = {}
              /\ delivered' = {}
              /\ fin' = "no"
              /\ reqfailed' = FALSE

TraceCount   == IsEvent("count")   /\ Count(Ev.flt, Ev.it, Ev.io, Ev.n)
TracePage    == IsEvent("page")    /\ Page(Ev.flt, Ev.it, Ev.io, Ev.ord, Ev.limit, Ev.items)
TraceMod     == IsEvent("mod")     /\ EnvModify(Ev.u, Ev.t)
TraceAdd     == IsEvent("add")     /\ EnvAdd(Ev.u, Ev.t, Ev.k)
TraceDel     == IsEvent("del")     /\ EnvDelete(Ev.u)
TraceDeliver == IsEvent("deliver") /\ Deliver(Ev.u)
TraceFinish  == IsEvent("finish")  /\ Finish(Ev.ok)
TraceReqFail == IsEvent("reqfail") /\ ReqFail

\* the fake refused further list requests (a scan that does not end is outside the statement;
\* checks/C06.py reports it as drift)
TraceOverrun == IsEvent("overrun") /\ UNCHANGED cvars

TraceNext == TraceOverrun \/ TraceReqFail \/ TraceReset \/ TraceCount \/ TracePage \/ TraceMod \/ TraceAdd \/ TraceDel
             \/ TraceDeliver \/ TraceFinish

TraceSpec == TraceInit /\ [][TraceNext]_<<cvars, l>>
=============================================================================
