SPECIFICATION TraceSpec
CONSTANTS
  PerMount = FALSE
  ClassBlind = TRUE
CONSTRAINT Mark
POSTCONDITION Accepted
INVARIANT CTypeOK
CHECK_DEADLOCK FALSE
