--------------------------- MODULE SweepContract ---------------------------
(***************************************************************************)
(* C06 (c) - contract of one balancing sweep (Balancer.Run), over          *)
(* observable events only: the requests that arrive at the (fake) API      *)
(* server and keepstore servers, whether the harness made each of them     *)
(* fail, and the return of Run.                                            *)
(*                                                                         *)
(* Statement (properties.jsonl C06, last sentence) -> clause:              *)
(*   "when fetching any index or any collection page fails the sweep ends  *)
(*    without asking any server to trash or pull any block"                *)
(*       Req(kind, failed) with kind \in Strict and failed sets sfailed;   *)
(*       Put(what, n, ...) requires  sfailed => n = 0                      *)
(* "index" = GET /mounts/<uuid>/blocks or /index on a keepstore server;    *)
(* "collpage" / "collcount" = the collections list requests EachCollection *)
(* issues with limit > 0 / limit = 0 (initial and final count): every GET  *)
(* of the list API made by the scan is a "collection page" fetch           *)
(* (coordinator's reading of the statement).  A request      *)
(* "fails" when the harness answers it with HTTP 500, a transport error or *)
(* a response cut short.  Sending an EMPTY trash or pull list asks nobody  *)
(* to trash or pull a block (ClearTrashLists does that before the scan),   *)
(* so n = 0 is always allowed.                                             *)
(* The statement is silent about failures of other requests (service list, *)
(* mounts, current user, discovery document, the sanity count of null       *)
(* modified_at, the trash/pull PUTs themselves) and about Run's return       *)
(* value: Req of those kinds and Done(ok) are unconstrained.               *)
(* (checks/C06.py reports "Run returned nil after a failed request" and    *)
(* "lists sent after a non-strict failure" as drift.)                      *)
(***************************************************************************)
EXTENDS Naturals

VARIABLES sfailed,   \* an index or collection-page request has failed
          done       \* "no" | "ok" | "err"

cvars == <<sfailed, done>>

Strict == {"index", "collpage", "collcount"}

CInit == sfailed = FALSE /\ done = "no"

Req(kind, failed) ==
    /\ sfailed' = (sfailed \/ (failed /\ kind \in Strict))
    /\ UNCHANGED done

\* PUT /trash or /pull with a list of n entries arrived at a keepstore server
Put(what, n, failed) ==
    /\ sfailed => n = 0
    /\ UNCHANGED cvars

Done(ok) ==
    /\ done = "no"
    /\ done' = IF ok THEN "ok" ELSE "err"
    /\ UNCHANGED sfailed

CTypeOK == sfailed \in BOOLEAN /\ done \in {"no", "ok", "err"}
=============================================================================
