---------------------------- MODULE BalanceTrace ----------------------------
(***************************************************************************)
(* Judge for C05: validates ndjson traces recorded from the real           *)
(* balanceBlock (harness/C05_keepbalance/balance_driver_test.go) against   *)
(* BalanceContract.  Events:                                               *)
(*   {"ev":"reset","scn":id,"lay":{n,srv,ro,dev,repl,cls,has,mt,srvro,cut,desired}} *)
(*   {"ev":"trash","m":mount,"t":mtime}  {"ev":"pull","to":mount,"from":server} *)
(*   {"ev":"finish","lost":b}                                              *)
(*                                                                         *)
(* Every event of this contract is deterministic, so a trace has exactly   *)
(* one candidate behaviour.  Because known findings make rejections        *)
(* frequent here, the judge does not stop at the first rejected event: an  *)
(* event whose contract action is not enabled is reported                  *)
(* (REJECTED_LINE <line>), the rest of that trace is skipped, and judging  *)
(* resumes at the next reset.  checks/C05.py classifies every reported     *)
(* line (known finding or VIOLATION) exactly as vlib.Ctx.judge would.      *)
(***************************************************************************)
EXTENDS BalanceContract, TraceIO

VARIABLE skipping     \* the current trace has been rejected; ignore its remaining events

Range(s) == {s[i] : i \in DOMAIN s}

Lay0 == [n |-> 0, srv |-> <<>>, ro |-> <<>>, dev |-> <<>>, repl |-> <<>>, cls |-> <<>>, has |-> <<>>,
         mt |-> <<>>, srvro |-> {}, cut |-> 0, desired |-> [default |-> 0]]

\* JSON arrays of class names become sets; the rest is used as it comes
Conv(j) == [n |-> j.n, srv |-> j.srv, ro |-> j.ro, dev |-> j.dev, repl |-> j.repl,
            cls |-> [m \in 1 .. j.n |-> Range(j.cls[m])],
            has |-> j.has, mt |-> j.mt, srvro |-> Range(j.srvro), cut |-> j.cut, desired |-> j.desired]

TraceInit == l = 1 /\ CInit(Lay0) /\ skipping = FALSE

TraceReset == /\ IsEvent("reset")
              /\ lay' = Conv(Ev.lay)
              /\ trashed' = {}
              /\ fin' = FALSE
              /\ skipping' = FALSE

Good(A) == ~skipping /\ A /\ UNCHANGED skipping
Bad(enabled) == /\ ~skipping /\ ~enabled
                /\ PrintT(<<"REJECTED_LINE", l>>)
                /\ skipping' = TRUE
                /\ UNCHANGED cvars

TraceTrash  == IsEvent("trash")  /\ \/ Good(Trash(Ev.m, Ev.t))
                                    \/ Bad(~fin /\ TrashOK(Ev.m, Ev.t))
TracePull   == IsEvent("pull")   /\ \/ Good(Pull(Ev.to, Ev.from))
                                    \/ Bad(~fin /\ PullOK(Ev.to, Ev.from))
TraceFinish == IsEvent("finish") /\ \/ Good(Finish(Ev.lost))
                                    \/ Bad(~fin /\ FinishOK(Ev.lost, trashed))
TraceSkip   == /\ skipping /\ l <= Len(Trace) /\ Trace[l].ev # "reset"
               /\ l' = l + 1
               /\ UNCHANGED <<cvars, skipping>>

TraceNext == TraceReset \/ TraceTrash \/ TracePull \/ TraceFinish \/ TraceSkip

TraceSpec == TraceInit /\ [][TraceNext]_<<cvars, l, skipping>>
=============================================================================
