SPECIFICATION Spec
CONSTANTS
  TtlK = 2
  TtlB = 2
  SkewBack = 0
  SkewFwd = 2
  MaxNow = 8
  MaxSweeps = 2
  CompleteScan = TRUE
  BoundedLatency = TRUE
  CheckEquality = TRUE
INVARIANTS TypeOK Safe LateTouchSafe OldWhenRemoved
CHECK_DEADLOCK FALSE
