SPECIFICATION GenSpec
CONSTANTS
  MaxSrv = 2
  MaxMounts = 3
  MaxPerSrv = 2
  Repls = {1}
  ClassSets = {{"default"}}
  Devs = {0, 1}
  Mtimes = {1, 9}
  Cut = 5
  DesDefault = {0, 1, 2, 3}
  DesSpecial = {0}
  AllowRO = TRUE
  ExcludeKF = FALSE
INVARIANTS Emit
CHECK_DEADLOCK FALSE
