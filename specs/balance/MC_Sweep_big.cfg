SPECIFICATION Spec
CONSTANTS
  MaxS = 3
  MaxPages = 2
  Buf = 2
INVARIANTS TypeOK FailureStopsSweep OkMeansClean FailureMeansErr
PROPERTIES Refines Terminates
CHECK_DEADLOCK FALSE
