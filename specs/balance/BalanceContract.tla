-------------------------- MODULE BalanceContract --------------------------
(***************************************************************************)
(* C05 - contract of keep-balance's per-block decision, over observables   *)
(* only: the layout handed to balanceBlock and the trash requests, pull    *)
(* requests and "lost" flag that came out.                                 *)
(*                                                                         *)
(* Layout `lay` (a record; mounts are numbered 1 .. lay.n):                *)
(*   srv[m]    server of mount m (servers are numbered by rendezvous rank  *)
(*             for this block, which the contract does not use)            *)
(*   ro[m]     mount is read-only;  srvro = set of read-only servers       *)
(*   dev[m]    0 = blank DeviceID, otherwise a device number; mounts with  *)
(*             the same non-zero number are views of ONE physical device   *)
(*   repl[m]   replication of the mount (1..3)                             *)
(*   cls[m]    storage classes of the mount (a mount without classes is in *)
(*             "default")                                                  *)
(*   has[m], mt[m]   mount m reports a replica, with this mtime            *)
(*   cut       replicas with mt < cut are older than the signature TTL     *)
(*   desired   record class |-> desired replication (absent = 0)           *)
(*                                                                         *)
(* Physical-device model: DevOf(m) is the device number if non-zero, else  *)
(* a device private to m.  A device holds the block iff one of its mounts  *)
(* reports a replica; carrying out a trash request on mount m removes the  *)
(* copy on DevOf(m); Repl(c, D) adds the replication of the devices in D   *)
(* that have a mount in class c.                                           *)
(*                                                                         *)
(* Statement (properties.jsonl C05) -> clause:                             *)
(*  "no replica newer than the signature TTL"                              *)
(*        Trash: an effective request names an mtime t <= cut (the         *)
(*        statement says "newer than"; equality is accepted either way)    *)
(*  "none on a read-only mount or read-only server"    Trash: ~ERO(m)      *)
(*  "nothing at all while the block is under-replicated for some storage   *)
(*   class"                                            Trash: ~UnderRepl   *)
(*        The statement attaches "counted over distinct physical devices"  *)
(*        to the next clause only, so here both countings are accepted:    *)
(*        a trash request is rejected only if the class is under-          *)
(*        replicated counted per mount (which implies per device).         *)
(*  "carrying out every computed trash request while no pull succeeds      *)
(*   still leaves each storage class with at least min(desired, previously *)
(*   existing) replication, counted over distinct physical devices"        *)
(*                                                     Finish: SafeAfter   *)
(*  "Pull requests only target writable mounts that lack the block and     *)
(*   name a source that has it"                        Pull                *)
(*  "a referenced block with no replica anywhere is reported as lost"      *)
(*                                                     Finish: lost        *)
(* Nothing else is demanded (which replicas are kept, where pulls go,      *)
(* whether anything is trashed at all).  A trash request that names no     *)
(* replica of the layout, or another mtime than the replica has, cannot be *)
(* carried out (keepstore skips a request whose mtime differs): it is a    *)
(* harmless no-op, subject only to the read-only and under-replication     *)
(* clauses, and removes nothing in SafeAfter.                              *)
(*                                                                         *)
(* PerMount / ClassBlind are FALSE for judging.  The two variants          *)
(*   PerMount = TRUE    every mount counts as its own device               *)
(*   ClassBlind = TRUE  every mount counts for every storage class         *)
(* are used by checks/C05.py only to compute the SIGNATURE of the known    *)
(* findings KF-C05-1 / KF-C05-4 ("rejected by the contract, accepted under *)
(* the counting the code uses"), so that a known finding does not swallow  *)
(* other rejections in the same kind of layout.                            *)
(***************************************************************************)
EXTENDS Naturals, FiniteSets, Sequences

CONSTANTS PerMount, ClassBlind     \* BOOLEAN, see above; FALSE for judging

VARIABLES lay,       \* the layout (see above)
          trashed,   \* mounts for which a trash request was computed
          fin        \* the result has been reported

cvars == <<lay, trashed, fin>>

Classes == {"default", "special"}

Mounts == 1 .. lay.n
ERO(m) == lay.ro[m] \/ lay.srv[m] \in lay.srvro
DevOf(m) == IF PerMount \/ lay.dev[m] = 0 THEN <<"m", m>> ELSE <<"d", lay.dev[m]>>
InClass(m, c) == ClassBlind \/ c \in lay.cls[m]
Des(c) == IF c \in DOMAIN lay.desired THEN lay.desired[c] ELSE 0

Max(S) == CHOOSE x \in S : \A y \in S : y <= x
Min2(a, b) == IF a < b THEN a ELSE b

\* devices still holding the block after the trash requests on the mounts in T were carried out
Holding(T) == {DevOf(m) : m \in {x \in Mounts : lay.has[x]}} \ {DevOf(m) : m \in T}
DevRepl(d) == Max({lay.repl[m] : m \in {x \in Mounts : DevOf(x) = d}})
DevInClass(d, c) == \E m \in Mounts : DevOf(m) = d /\ InClass(m, c)

RECURSIVE SumRepl(_)
SumRepl(D) == IF D = {} THEN 0 ELSE LET d == CHOOSE x \in D : TRUE IN DevRepl(d) + SumRepl(D \ {d})
Repl(c, D) == SumRepl({d \in D : DevInClass(d, c)})

\* replication of class c counted per mount (>= the count over distinct devices)
RECURSIVE SumMounts(_)
SumMounts(S) == IF S = {} THEN 0 ELSE LET m == CHOOSE x \in S : TRUE IN lay.repl[m] + SumMounts(S \ {m})
ReplPerMount(c) == SumMounts({m \in Mounts : lay.has[m] /\ InClass(m, c)})

\* under-replicated under both countings
UnderRepl == \E c \in Classes : ReplPerMount(c) < Des(c)
SafeAfter(T) == \A c \in Classes : Repl(c, Holding(T)) >= Min2(Des(c), Repl(c, Holding({})))
Referenced == \E c \in Classes : Des(c) > 0
NoReplica == \A m \in Mounts : ~lay.has[m]

CInit(l) == lay = l /\ trashed = {} /\ fin = FALSE

\* the request names a replica the layout has, with its mtime: keepstore would carry it out
Effective(m, t) == m \in Mounts /\ lay.has[m] /\ lay.mt[m] = t

TrashOK(m, t) ==
    /\ m \in Mounts
    /\ Effective(m, t) => t <= lay.cut
    /\ ~ERO(m)
    /\ ~UnderRepl

PullOK(to, fromsrv) ==
    /\ to \in Mounts /\ ~ERO(to) /\ ~lay.has[to]
    /\ \E m \in Mounts : lay.srv[m] = fromsrv /\ lay.has[m]

FinishOK(lost, T) ==
    /\ (Referenced /\ NoReplica) => lost
    /\ SafeAfter(T)

Trash(m, t) ==
    /\ ~fin
    /\ TrashOK(m, t)
    /\ trashed' = IF Effective(m, t) THEN trashed \cup {m} ELSE trashed
    /\ UNCHANGED <<lay, fin>>

Pull(to, fromsrv) ==
    /\ ~fin
    /\ PullOK(to, fromsrv)
    /\ UNCHANGED cvars

Finish(lost) ==
    /\ ~fin
    /\ FinishOK(lost, trashed)
    /\ fin' = TRUE
    /\ UNCHANGED <<lay, trashed>>

CTypeOK == fin \in BOOLEAN /\ trashed \subseteq Mounts
=============================================================================
