SPECIFICATION GenSpec
CONSTANTS
  MaxS = 3
  MaxPages = 2
  Buf = 2
INVARIANTS Emit
CHECK_DEADLOCK FALSE
