SPECIFICATION TraceSpec
CONSTRAINT Mark
POSTCONDITION Accepted
INVARIANTS CTypeOK Complete
CHECK_DEADLOCK FALSE
