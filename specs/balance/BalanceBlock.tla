---------------------------- MODULE BalanceBlock ----------------------------
(***************************************************************************)
(* Implementation-shaped model of keep-balance's per-block decision        *)
(* (services/keep-balance/balance.go: setupLookupTables + balanceBlock).   *)
(*                                                                         *)
(* A behaviour first builds a layout mount by mount (AddMount), then runs  *)
(* the algorithm with one action per loop step of the code:                *)
(*                                                                         *)
(*   slots = one per mount; want = has replica && mount read-only   Start  *)
(*   underreplicated = some class with desired > 0 has no mount at all     *)
(*                                     (since fecd3c4)               Start *)
(*   for class in sorted(classes that have a mount):            ClassBegin *)
(*     desired = blk.Desired[class]; if 0 continue                         *)
(*     sort slots by (in class, want, rendezvous rank, has replica, tie)   *)
(*     pass 1: for each slot whose server is not yet wanted: trySlot Pass1 *)
(*     pass 2: for each slot: trySlot                                Pass2 *)
(*     trySlot(slot):                                                      *)
(*        if wantMnt[mnt] || wantDev[mnt.DeviceID]  return false           *)
(*        if replProt < desired && has replica && !protMnt[mnt]            *)
(*           unsafeToDelete[mtime] = true; protMnt; replProt += mnt.Replication *)
(*        if replWant < desired && (has replica || !readonly)              *)
(*           want; wantSrv; wantMnt; wantDev (if DeviceID != ""); replWant += ... *)
(*        return replProt >= desired && replWant >= desired                *)
(*     if !underreplicated: safe = sum of Replication over slots WITH A    *)
(*        REPLICA IN THE CLASS (one term per slot, i.e. per mount);        *)
(*        underreplicated = safe < desired                           Under *)
(*     every replica on a device in wantDev is unsafeToDelete      WantDev *)
(*   replicas that are unsafeToDelete by mtime, or all replicas if         *)
(*   underreplicated, become wanted                                  Final *)
(*   per slot: !want && replica && mtime < MinMtime       -> trash         *)
(*             no replica anywhere && some desired > 0    -> lost          *)
(*                                     (since 7308213; before: only while  *)
(*                                      visiting a wanted empty slot)      *)
(*             no replica && want && !readonly            -> pull from the *)
(*                                       server of blk.Replicas[0]   Emit  *)
(*                                                                         *)
(* Deliberate properties of the code that the model keeps: replication is  *)
(* summed per MOUNT in `safe` and in `replProt` (two mounts that are views *)
(* of one device count twice unless the device was marked wanted first);   *)
(* pass 1 skips a second in-class replica on a server already in use and   *)
(* may count an out-of-class replica of another server instead.  Where     *)
(* these contradict the contract the layouts are named KF_* below: the MC  *)
(* configurations check refinement outside them (ExcludeKF = TRUE), the    *)
(* Gen configurations keep them so that RUN + JUDGE re-confirm them        *)
(* against the real code.  Two former findings are repaired in the code    *)
(* and in this model (a desired class that no mount offers: fecd3c4; lost  *)
(* without a writable mount: 7308213); their layouts are ordinary members  *)
(* of the checked and generated space now.                                 *)
(*                                                                         *)
(* cleanupMounts (read-only views of a device that is writable elsewhere   *)
(* are dropped) is not modelled: the generator avoids such layouts; the    *)
(* driver's random layouts contain them and report the effective layout.   *)
(***************************************************************************)
EXTENDS Naturals, Sequences, FiniteSets, TLC, Json, IOUtils

CONSTANTS MaxSrv,        \* servers 1 .. MaxSrv (number = rendezvous rank)
          MaxMounts,     \* mounts in total
          MaxPerSrv,     \* mounts per server
          Repls,         \* set of mount replication values
          ClassSets,     \* set of storage-class sets a mount may have
          Devs,          \* set of device numbers (0 = blank; > 0 may be shared between servers)
          Mtimes,        \* set of replica mtimes
          Cut,           \* MinMtime: mtimes below are old
          DesDefault, DesSpecial,   \* sets of desired replication per class
          AllowRO,       \* BOOLEAN: read-only mounts / servers are generated
          ExcludeKF      \* BOOLEAN: skip layouts of the known findings (MC)

VARIABLES lay, trashed, fin,                                   \* contract ghost state
          pc, tieflip, classes, ci, order, i, donef,
          want, wantSrv, wantMnt, wantDev, protMnt, replWant, replProt,
          unsafe, underrep, todoT, todoP, lost

C == INSTANCE BalanceContract WITH PerMount <- FALSE, ClassBlind <- FALSE
cvars == <<lay, trashed, fin>>
avars == <<tieflip, classes, ci, order, i, donef, want, wantSrv, wantMnt, wantDev, protMnt, replWant,
           replProt, unsafe, underrep, todoT, todoP, lost>>
vars == <<cvars, pc, avars>>

Mounts == 1 .. lay.n
ERO(m) == C!ERO(m)
Des(c) == C!Des(c)

EmptyLay == [n |-> 0, srv |-> <<>>, ro |-> <<>>, dev |-> <<>>, repl |-> <<>>, cls |-> <<>>, has |-> <<>>,
             mt |-> <<>>, srvro |-> {}, cut |-> Cut, desired |-> [default |-> 0, special |-> 0]]

Init ==
    /\ C!CInit(EmptyLay)
    /\ pc = "build"
    /\ tieflip = {} /\ classes = <<>> /\ ci = 1 /\ order = <<>> /\ i = 1 /\ donef = FALSE
    /\ want = {} /\ wantSrv = {} /\ wantMnt = {} /\ wantDev = {} /\ protMnt = {}
    /\ replWant = 0 /\ replProt = 0 /\ unsafe = {} /\ underrep = FALSE
    /\ todoT = {} /\ todoP = {} /\ lost = FALSE

--------------------------------------------------------------------------
(* building the layout: mounts in non-decreasing server order *)

LastSrv == IF lay.n = 0 THEN 1 ELSE lay.srv[lay.n]
OnSrv(s) == Cardinality({m \in Mounts : lay.srv[m] = s})

AddMount ==
    /\ pc = "build" /\ lay.n < MaxMounts
    /\ \E s \in LastSrv .. MaxSrv, ro \in (IF AllowRO THEN BOOLEAN ELSE {FALSE}), d \in Devs, r \in Repls,
          cl \in ClassSets, h \in BOOLEAN, t \in Mtimes :
         /\ s <= LastSrv + 1 /\ (lay.n = 0 => s = 1)
         /\ OnSrv(s) < MaxPerSrv
         /\ ~h => t = CHOOSE x \in Mtimes : TRUE                  \* mtime is irrelevant without a replica
         \* a shared device: only on different servers, same replication and classes on every view
         /\ d # 0 => \A m \in Mounts : lay.dev[m] = d =>
                        (lay.srv[m] # s /\ lay.repl[m] = r /\ lay.cls[m] = cl)
         \* cleanupMounts would drop a read-only view of a device that is writable elsewhere
         /\ d # 0 => \A m \in Mounts : lay.dev[m] = d => (lay.ro[m] = ro)
         /\ lay' = [lay EXCEPT !.n = @ + 1, !.srv = Append(@, s), !.ro = Append(@, ro), !.dev = Append(@, d),
                               !.repl = Append(@, r), !.cls = Append(@, cl), !.has = Append(@, h),
                               !.mt = Append(@, t)]
    /\ UNCHANGED <<trashed, fin, pc, avars>>

\* a device seen through two mounts that both report the replica (shared-device double counting)
KF_shared == \E a, b \in Mounts : a # b /\ lay.dev[a] # 0 /\ lay.dev[a] = lay.dev[b] /\ lay.has[a] /\ lay.has[b]
\* a replica on a server with several mounts while a replica outside a desired class exists (pass 1
\* skips the in-class replica once its server is wanted and counts the out-of-class one)
KF_skipsrv(des) == /\ \E a, b \in Mounts : a # b /\ lay.srv[a] = lay.srv[b] /\ lay.has[a]
                   /\ \E c \in C!Classes, m \in Mounts : des[c] > 0 /\ lay.has[m] /\ c \notin lay.cls[m]

ClassesOf == LET present == {c \in C!Classes : c = "default" \/ \E m \in Mounts : c \in lay.cls[m]}
             IN (IF "default" \in present THEN <<"default">> ELSE <<>>)
                \o (IF "special" \in present THEN <<"special">> ELSE <<>>)

\* the order of two mounts of one server with equal keys is decided by md5(block, DeviceID) in the code
\* (or left to sort.Slice when the DeviceIDs are equal): arbitrary but fixed, chosen per server
MultiMountSrvs == {s \in 1 .. MaxSrv : OnSrv(s) >= 2}

Start ==
    /\ pc = "build"
    /\ \E dd \in DesDefault, ds \in DesSpecial, tf \in SUBSET MultiMountSrvs,
          sro \in (IF AllowRO THEN {{}} \cup {{s} : s \in 1 .. MaxSrv} ELSE {{}}) :
         LET des == [default |-> dd, special |-> ds] IN
         /\ \A s \in sro : OnSrv(s) > 0
         /\ ExcludeKF => ~(KF_shared \/ KF_skipsrv(des))
         /\ lay' = [lay EXCEPT !.desired = des, !.srvro = sro]
         /\ tieflip' = tf
         /\ want' = {m \in Mounts : lay.has[m] /\ (lay.ro[m] \/ lay.srv[m] \in sro)}
         /\ underrep' = \E c \in C!Classes : des[c] > 0 /\ ~\E m \in Mounts : c \in lay.cls[m]
    /\ classes' = ClassesOf
    /\ ci' = 1
    /\ pc' = "class"
    /\ UNCHANGED <<trashed, fin, order, i, donef, wantSrv, wantMnt, wantDev, protMnt, replWant, replProt,
                   unsafe, todoT, todoP, lost>>

--------------------------------------------------------------------------
(* the algorithm *)

InClass(m, c) == c \in lay.cls[m]

\* sort.Slice comparator; the last key stands for rendezvousLess(DeviceID): tieflip = the servers whose
\* mounts come in descending mount order
SlotLess(c, a, b) ==
    IF InClass(a, c) # InClass(b, c) THEN InClass(a, c)
    ELSE IF (a \in want) # (b \in want) THEN a \in want
    ELSE IF lay.srv[a] # lay.srv[b] THEN lay.srv[a] < lay.srv[b]
    ELSE IF lay.has[a] # lay.has[b] THEN lay.has[a]
    ELSE IF lay.srv[a] \in tieflip THEN a > b ELSE a < b

RECURSIVE SortBy(_, _)
SortBy(c, S) == IF S = {} THEN <<>>
                ELSE LET m == CHOOSE x \in S : \A y \in S \ {x} : SlotLess(c, x, y)
                     IN <<m>> \o SortBy(c, S \ {m})

ClassBegin ==
    /\ pc = "class"
    /\ IF ci > Len(classes)
       THEN /\ pc' = "final"
            /\ UNCHANGED <<ci, order, i, donef, wantSrv, wantMnt, wantDev, protMnt, replWant, replProt>>
       ELSE IF Des(classes[ci]) = 0
       THEN /\ ci' = ci + 1
            /\ UNCHANGED <<pc, order, i, donef, wantSrv, wantMnt, wantDev, protMnt, replWant, replProt>>
       ELSE /\ order' = SortBy(classes[ci], Mounts)
            /\ wantSrv' = {} /\ wantMnt' = {} /\ wantDev' = {} /\ protMnt' = {}
            /\ replWant' = 0 /\ replProt' = 0 /\ i' = 1 /\ donef' = FALSE
            /\ pc' = "pass1"
            /\ UNCHANGED ci
    /\ UNCHANGED <<cvars, tieflip, classes, want, unsafe, underrep, todoT, todoP, lost>>

\* trySlot as a relation on the primed variables; sets donef'
TrySlot(m) ==
    LET desired == Des(classes[ci]) IN
    IF m \in wantMnt \/ (lay.dev[m] # 0 /\ lay.dev[m] \in wantDev)
    THEN /\ donef' = FALSE
         /\ UNCHANGED <<want, wantSrv, wantMnt, wantDev, protMnt, replWant, replProt, unsafe>>
    ELSE LET prot == replProt < desired /\ lay.has[m] /\ m \notin protMnt
             wnt == replWant < desired /\ (lay.has[m] \/ ~ERO(m))
             rp == IF prot THEN replProt + lay.repl[m] ELSE replProt
             rw == IF wnt THEN replWant + lay.repl[m] ELSE replWant
         IN /\ unsafe' = IF prot THEN unsafe \cup {lay.mt[m]} ELSE unsafe
            /\ protMnt' = IF prot THEN protMnt \cup {m} ELSE protMnt
            /\ replProt' = rp
            /\ want' = IF wnt THEN want \cup {m} ELSE want
            /\ wantSrv' = IF wnt THEN wantSrv \cup {lay.srv[m]} ELSE wantSrv
            /\ wantMnt' = IF wnt THEN wantMnt \cup {m} ELSE wantMnt
            /\ wantDev' = IF wnt /\ lay.dev[m] # 0 THEN wantDev \cup {lay.dev[m]} ELSE wantDev
            /\ replWant' = rw
            /\ donef' = (rp >= desired /\ rw >= desired)

Pass1 ==
    /\ pc = "pass1"
    /\ IF i > Len(order) \/ donef
       THEN /\ pc' = "pass2" /\ i' = 1
            /\ UNCHANGED <<donef, want, wantSrv, wantMnt, wantDev, protMnt, replWant, replProt, unsafe>>
       ELSE /\ i' = i + 1 /\ pc' = pc
            /\ IF lay.srv[order[i]] \notin wantSrv THEN TrySlot(order[i])
               ELSE UNCHANGED <<donef, want, wantSrv, wantMnt, wantDev, protMnt, replWant, replProt, unsafe>>
    /\ UNCHANGED <<cvars, tieflip, classes, ci, order, underrep, todoT, todoP, lost>>

Pass2 ==
    /\ pc = "pass2"
    /\ IF i > Len(order) \/ donef
       THEN /\ pc' = "under"
            /\ UNCHANGED <<i, donef, want, wantSrv, wantMnt, wantDev, protMnt, replWant, replProt, unsafe>>
       ELSE /\ i' = i + 1 /\ pc' = pc
            /\ TrySlot(order[i])
    /\ UNCHANGED <<cvars, tieflip, classes, ci, order, underrep, todoT, todoP, lost>>

RECURSIVE SumMountRepl(_)
SumMountRepl(S) == IF S = {} THEN 0
                   ELSE LET m == CHOOSE x \in S : TRUE IN lay.repl[m] + SumMountRepl(S \ {m})

Under ==
    /\ pc = "under"
    /\ underrep' = IF underrep THEN TRUE
                   ELSE SumMountRepl({m \in Mounts : lay.has[m] /\ InClass(m, classes[ci])}) < Des(classes[ci])
    /\ pc' = "wantdev"
    /\ UNCHANGED <<cvars, tieflip, classes, ci, order, i, donef, want, wantSrv, wantMnt, wantDev, protMnt,
                   replWant, replProt, unsafe, todoT, todoP, lost>>

WantDevStep ==
    /\ pc = "wantdev"
    /\ unsafe' = unsafe \cup {lay.mt[m] : m \in {x \in Mounts : lay.has[x] /\ lay.dev[x] # 0 /\ lay.dev[x] \in wantDev}}
    /\ ci' = ci + 1
    /\ pc' = "class"
    /\ UNCHANGED <<cvars, tieflip, classes, order, i, donef, want, wantSrv, wantMnt, wantDev, protMnt,
                   replWant, replProt, underrep, todoT, todoP, lost>>

Final ==
    /\ pc = "final"
    /\ LET w == want \cup {m \in Mounts : lay.has[m] /\ (underrep \/ lay.mt[m] \in unsafe)}
           none == \A m \in Mounts : ~lay.has[m]
       IN /\ want' = w
          /\ todoT' = {m \in Mounts : m \notin w /\ lay.has[m] /\ lay.mt[m] < lay.cut}
          /\ lost' = (none /\ (C!Referenced \/ \E m \in Mounts : ~lay.has[m] /\ m \in w))
          /\ todoP' = IF none THEN {} ELSE {m \in Mounts : ~lay.has[m] /\ m \in w /\ ~ERO(m)}
    /\ pc' = "emit"
    /\ UNCHANGED <<cvars, tieflip, classes, ci, order, i, donef, wantSrv, wantMnt, wantDev, protMnt, replWant,
                   replProt, unsafe, underrep>>

\* AddTrash / AddPull / the returned balanceResult
Emit1 ==
    /\ pc = "emit"
    /\ \/ \E m \in todoT : /\ C!Trash(m, lay.mt[m])
                           /\ todoT' = todoT \ {m}
                           /\ UNCHANGED <<todoP, pc>>
       \/ \E m \in todoP : /\ C!Pull(m, lay.srv[CHOOSE x \in Mounts : lay.has[x]])
                           /\ todoP' = todoP \ {m}
                           /\ UNCHANGED <<todoT, pc>>
       \/ /\ todoT = {} /\ todoP = {}
          /\ C!Finish(lost)
          /\ pc' = "done"
          /\ UNCHANGED <<todoT, todoP>>
    /\ UNCHANGED <<tieflip, classes, ci, order, i, donef, want, wantSrv, wantMnt, wantDev, protMnt, replWant,
                   replProt, unsafe, underrep, lost>>

AlgNext == ClassBegin \/ Pass1 \/ Pass2 \/ Under \/ WantDevStep \/ Final \/ Emit1
Next == AddMount \/ Start \/ AlgNext

Spec == Init /\ [][Next]_vars /\ WF_vars(AlgNext)

--------------------------------------------------------------------------
Refines == [][ (\E m \in 1 .. MaxMounts, t \in Mtimes : C!Trash(m, t))
               \/ (\E m \in 1 .. MaxMounts, s \in 1 .. MaxSrv : C!Pull(m, s))
               \/ (\E b \in BOOLEAN : C!Finish(b))
               \/ pc = "build"
               \/ UNCHANGED cvars ]_vars

TypeOK == /\ pc \in {"build", "class", "pass1", "pass2", "under", "wantdev", "final", "emit", "done"}
          /\ (pc # "build" => C!CTypeOK)

\* the contract accepts the whole result: every computed trash and pull, and the final report
\* (checked when the result is complete; Emit1 then replays it event by event under Refines)
ContractAccepts ==
    (pc = "emit" /\ trashed = {}) =>
        /\ \A m \in todoT : C!TrashOK(m, lay.mt[m])
        /\ \A m \in todoP : C!PullOK(m, lay.srv[CHOOSE x \in Mounts : lay.has[x]])
        /\ C!FinishOK(lost, todoT)

\* true of the algorithm everywhere (also inside the known-finding layouts)
NoNewOrReadOnlyTrash == \A m \in todoT : lay.mt[m] < lay.cut /\ ~ERO(m) /\ lay.has[m]
PullsOnlyToWritableEmpty == \A m \in todoP : ~ERO(m) /\ ~lay.has[m]

--------------------------------------------------------------------------
(* Scenario emission: one record per layout, with the model's predicted result *)
\* ids come from TLC register 2 (TLCGet("distinct") does not exist in simulation mode); -workers 1
ASSUME TLCSet(2, 0)
Emit == (pc = "emit") =>
          LET k == TLCGet(2) + 1 IN
          /\ TLCSet(2, k)
          /\ Serialize(<<[id |-> k, lay |-> lay, tieflip |-> tieflip,
                          expect_trash |-> todoT, expect_pull |-> todoP, expect_lost |-> lost]>>,
                       IOEnv.VERIF_OUT,
                       [format |-> "NDJSON", charset |-> "UTF-8",
                        openOptions |-> <<"WRITE", "CREATE", "APPEND">>])
GenNext == AddMount \/ Start \/ ClassBegin \/ Pass1 \/ Pass2 \/ Under \/ WantDevStep \/ Final
GenSpec == Init /\ [][GenNext]_vars
--------------------------------------------------------------------------
(* Prediction mode (checks/C05.py, known-finding matching): the layouts of the traces the contract   *)
(* rejected are read from $VERIF_LAYOUTS (ndjson: {"id":k,"lay":{...}}), the algorithm is run on each  *)
(* of them for every tie order, and the predicted result is printed.  A rejection is attributed to    *)
(* a known finding only if the real code computed exactly the trash set this model - which contains   *)
(* the known defects - predicts for the same layout.                                                  *)
PRange(q) == {q[j] : j \in DOMAIN q}
PLayouts == ndJsonDeserialize(IOEnv.VERIF_LAYOUTS)
PDes(j, c) == IF c \in DOMAIN j.desired THEN j.desired[c] ELSE 0
PConv(r) == LET j == r.lay IN
            [n |-> j.n, srv |-> j.srv, ro |-> j.ro, dev |-> j.dev, repl |-> j.repl,
             cls |-> [m \in 1 .. j.n |-> PRange(j.cls[m])], has |-> j.has, mt |-> j.mt,
             srvro |-> PRange(j.srvro), cut |-> j.cut,
             desired |-> [default |-> PDes(j, "default"), special |-> PDes(j, "special")], id |-> r.id]
PMulti(L) == {s \in PRange(L.srv) : Cardinality({m \in 1 .. L.n : L.srv[m] = s}) >= 2}
\* at most 2^6 tie orders per layout
PFlips(L) == IF Cardinality(PMulti(L)) <= 6 THEN SUBSET PMulti(L) ELSE {{}, PMulti(L)}

PredictInit ==
    \E k \in 1 .. Len(PLayouts) : \E tf \in PFlips(PConv(PLayouts[k])) :
        /\ lay = PConv(PLayouts[k])
        /\ trashed = {} /\ fin = FALSE
        /\ pc = "class" /\ tieflip = tf
        /\ classes = ClassesOf /\ ci = 1 /\ order = <<>> /\ i = 1 /\ donef = FALSE
        /\ want = {m \in Mounts : lay.has[m] /\ ERO(m)}
        /\ wantSrv = {} /\ wantMnt = {} /\ wantDev = {} /\ protMnt = {}
        /\ replWant = 0 /\ replProt = 0 /\ unsafe = {}
        /\ underrep = \E c \in C!Classes : Des(c) > 0 /\ ~\E m \in Mounts : c \in lay.cls[m]
        /\ todoT = {} /\ todoP = {} /\ lost = FALSE

PredictOut == (pc = "emit") => PrintT(<<"PREDICT", lay.id, todoT, todoP, lost>>)
PredictSpec == PredictInit /\ [][GenNext]_vars
=============================================================================
