SPECIFICATION Spec
CONSTANTS
  MaxSrv = 2
  MaxMounts = 3
  MaxPerSrv = 2
  Repls = {1, 2}
  ClassSets = {{"default"}, {"special"}, {"default", "special"}}
  Devs = {0}
  Mtimes = {1, 9}
  Cut = 5
  DesDefault = {0, 1, 2}
  DesSpecial = {0, 1, 2}
  AllowRO = FALSE
  ExcludeKF = TRUE
INVARIANTS TypeOK ContractAccepts NoNewOrReadOnlyTrash PullsOnlyToWritableEmpty
PROPERTIES Refines
CHECK_DEADLOCK FALSE
