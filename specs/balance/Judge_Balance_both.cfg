SPECIFICATION TraceSpec
CONSTANTS
  PerMount = TRUE
  ClassBlind = TRUE
CONSTRAINT Mark
POSTCONDITION Accepted
INVARIANT CTypeOK
CHECK_DEADLOCK FALSE
