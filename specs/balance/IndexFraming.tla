---------------------------- MODULE IndexFraming ----------------------------
(***************************************************************************)
(* Implementation-shaped model of the three places where Keep index        *)
(* framing is produced or consumed, over a byte-class alphabet             *)
(*     "x" hex digit   "+"   "9" decimal digit   "_" space   "n" newline   *)
(*                                                                         *)
(*  ScanVerdict     arvados.KeepService.index  (sdk/go/arvados/keep_service.go) *)
(*       bufio.Scanner lines; blank line sets sawEOF; a line after the     *)
(*       blank line, a line without exactly two fields, or an unparsable   *)
(*       mtime is an error; no blank line at the end is an error           *)
(*  SuffixVerdict   keepclient.GetIndex        (sdk/go/keepclient/keepclient.go) *)
(*       body must be "\n" or end with "\n\n"                              *)
(*  HandlerOutput   keepstore handleIndex      (services/keepstore/handlers.go) *)
(*       volumes are indexed in turn into the response; the first IndexTo  *)
(*       error ends the response without the terminating empty line        *)
(*                                                                         *)
(* A TLC "behaviour" is one input: either a well-formed response shape     *)
(* with a cut point (mode "read"), or a list of volumes with a failure     *)
(* position (mode "write").  The steps apply the models to it and must be  *)
(* steps of IndexFramingContract (Refines).                                *)
(***************************************************************************)
EXTENDS Naturals, Sequences, FiniteSets, TLC, Json, IOUtils

CONSTANTS MaxEntries,    \* entries per response (mode "read")
          SizeDigits,    \* set of size-digit counts
          MtimeDigits,   \* set of mtime-digit counts
          MaxVols,       \* volumes (mode "write")
          MaxVolEntries  \* entries per volume

VARIABLES shape, cut, nread,      \* contract ghost state
          mode,      \* "read" | "write"
          vols,      \* mode "write": sequence of shapes, one per volume
          failvol,   \* 0 = no failure, else the volume whose IndexTo fails
          failat,    \* number of bytes that volume wrote before failing
          pc         \* readers still to run

C == INSTANCE IndexFramingContract
cvars == <<shape, cut, nread>>
vars == <<cvars, mode, vols, failvol, failat, pc>>

Rep(sym, n) == [i \in 1 .. n |-> sym]
EntryBytes(e) == Rep("x", 32) \o <<"+">> \o Rep("9", e[1]) \o <<"_">> \o Rep("9", e[2]) \o <<"n">>
RECURSIVE EntriesBytes(_, _)
EntriesBytes(s, i) == IF i > Len(s) THEN <<>> ELSE EntryBytes(s[i]) \o EntriesBytes(s, i + 1)
RespBytes(s) == EntriesBytes(s, 1) \o <<"n">>

--------------------------------------------------------------------------
(* bufio.ScanLines: every newline ends a token (possibly empty); at EOF a  *)
(* non-empty remainder is a final token.                                   *)
RECURSIVE Split(_, _, _, _)
\* Split(b, i, cur, sep): tokens of b[i..] given the current partial token cur
Split(b, i, cur, sep) ==
    IF i > Len(b) THEN <<cur>>
    ELSE IF b[i] = sep THEN <<cur>> \o Split(b, i + 1, <<>>, sep)
    ELSE Split(b, i + 1, Append(cur, b[i]), sep)

Lines(b) == LET t == Split(b, 1, <<>>, "n") IN
            IF t[Len(t)] = <<>> THEN SubSeq(t, 1, Len(t) - 1) ELSE t

Fields(line) == Split(line, 1, <<>>, "_")      \* strings.Split(line, " ")
ParseIntOK(f) == Len(f) > 0 /\ \A i \in 1 .. Len(f) : f[i] = "9"

\* state of the loop in KeepService.index: <<sawEOF, failed>>
RECURSIVE ScanLoop(_, _, _)
ScanLoop(ls, i, sawEOF) ==
    IF i > Len(ls) THEN ~sawEOF                              \* "Index response had no EOF marker"
    ELSE IF sawEOF THEN TRUE                                 \* "non-terminal blank line"
    ELSE IF ls[i] = <<>> THEN ScanLoop(ls, i + 1, TRUE)
    ELSE LET f == Fields(ls[i]) IN
         IF Len(f) # 2 THEN TRUE                             \* "Malformed index line: n fields"
         ELSE IF ~ParseIntOK(f[2]) THEN TRUE                 \* "Malformed index line: mtime"
         ELSE ScanLoop(ls, i + 1, FALSE)

ScanVerdict(b) == ScanLoop(Lines(b), 1, FALSE)               \* TRUE = error

SuffixVerdict(b) ==
    ~(b = <<"n">> \/ (Len(b) >= 2 /\ b[Len(b)] = "n" /\ b[Len(b) - 1] = "n"))

Term(b) == ~SuffixVerdict(b)

\* handleIndex: for each volume IndexTo(resp); on error return; finally write "\n"
RECURSIVE HandlerOutput(_)
HandlerOutput(i) ==
    IF i > Len(vols) THEN <<"n">>
    ELSE IF i = failvol THEN SubSeq(EntriesBytes(vols[i], 1), 1, failat)
    ELSE EntriesBytes(vols[i], 1) \o HandlerOutput(i + 1)

--------------------------------------------------------------------------
Entry == SizeDigits \X MtimeDigits
Shapes(n) == UNION {[1 .. m -> Entry] : m \in 0 .. n}

InitRead ==
    \E s \in Shapes(MaxEntries) : \E k \in 0 .. C!RespLen(s) :
        /\ C!CInit(s, k)
        /\ mode = "read" /\ vols = <<>> /\ failvol = 0 /\ failat = 0
        /\ pc = {"index", "getindex"}

InitWrite ==
    \E nv \in 1 .. MaxVols : \E vs \in [1 .. nv -> Shapes(MaxVolEntries)] : \E fv \in 0 .. nv :
    \E fa \in 0 .. (IF fv = 0 THEN 0 ELSE Len(EntriesBytes(vs[fv], 1))) :
        /\ C!CInit(<<>>, 0)
        /\ mode = "write" /\ vols = vs /\ failvol = fv /\ failat = fa
        /\ pc = {"handler"}

Init == InitRead \/ InitWrite

DoRead(r) ==
    /\ mode = "read" /\ r \in pc
    /\ LET b == SubSeq(RespBytes(shape), 1, cut)
           err == IF r = "index" THEN ScanVerdict(b) ELSE SuffixVerdict(b)
       IN C!Read(r, err)
    /\ pc' = pc \ {r}
    /\ UNCHANGED <<mode, vols, failvol, failat>>

DoWrite ==
    /\ mode = "write" /\ pc = {"handler"}
    /\ LET b == HandlerOutput(1) IN
         C!Write(failvol # 0, 200, Term(b), ScanVerdict(b), SuffixVerdict(b))
    /\ pc' = {}
    /\ UNCHANGED <<mode, vols, failvol, failat>>

Next == DoWrite \/ \E r \in {"index", "getindex"} : DoRead(r)

Spec == Init /\ [][Next]_vars /\ WF_vars(Next)

--------------------------------------------------------------------------
Refines == [][ (\E r \in {"index", "getindex"}, e \in BOOLEAN : C!Read(r, e))
               \/ (\E f, t, e1, e2 \in BOOLEAN : C!Write(f, 200, t, e1, e2))
               \/ UNCHANGED cvars ]_vars

\* every reader runs: the contract's guard was enabled for the model's verdict
AllJudged == <>(pc = {})

\* not demanded by the statement, but true of the design: complete responses are accepted,
\* and both readers agree on every prefix
AcceptWhole == (pc = {} /\ mode = "read" /\ cut = C!RespLen(shape)) =>
                   (~ScanVerdict(RespBytes(shape)) /\ ~SuffixVerdict(RespBytes(shape)))
ReadersAgree == (pc = {} /\ mode = "read") =>
                   LET b == SubSeq(RespBytes(shape), 1, cut) IN ScanVerdict(b) = SuffixVerdict(b)
WriterWholeOK == (pc = {} /\ mode = "write" /\ failvol = 0) =>
                   LET b == HandlerOutput(1) IN ~ScanVerdict(b) /\ ~SuffixVerdict(b)

\* the writer obligation that makes a failed listing a cut-short response (model level / drift only)
WriterTruncates == (pc = {} /\ mode = "write" /\ failvol # 0) => ~Term(HandlerOutput(1))

TypeOK == C!CTypeOK /\ mode \in {"read", "write"}

--------------------------------------------------------------------------
(* Scenario emission: one record per input *)
Emit == (pc = {"index", "getindex"} \/ pc = {"handler"}) =>
          Serialize(<<[id |-> TLCGet("distinct"), mode |-> mode, shape |-> shape, cut |-> cut,
                       n |-> C!RespLen(shape), vols |-> vols, failvol |-> failvol, failat |-> failat]>>,
                    IOEnv.VERIF_OUT,
                    [format |-> "NDJSON", charset |-> "UTF-8",
                     openOptions |-> <<"WRITE", "CREATE", "APPEND">>])
GenSpec == Init /\ [][FALSE]_vars
=============================================================================
