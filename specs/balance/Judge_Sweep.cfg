SPECIFICATION TraceSpec
CONSTRAINT Mark
POSTCONDITION Accepted
INVARIANT CTypeOK
CHECK_DEADLOCK FALSE
