SPECIFICATION Spec
CONSTANTS
  MaxS = 2
  MaxPages = 1
  Buf = 1
INVARIANTS TypeOK FailureStopsSweep OkMeansClean FailureMeansErr
PROPERTIES Refines Terminates
CHECK_DEADLOCK FALSE
