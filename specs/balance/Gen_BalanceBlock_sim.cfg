SPECIFICATION GenSpec
CONSTANTS
  MaxSrv = 5
  MaxMounts = 6
  MaxPerSrv = 2
  Repls = {1, 2, 3}
  ClassSets = {{"default"}, {"special"}, {"default", "special"}}
  Devs = {0, 1, 2}
  Mtimes = {1, 2, 9}
  Cut = 5
  DesDefault = {0, 1, 2, 3, 4}
  DesSpecial = {0, 1, 2}
  AllowRO = TRUE
  ExcludeKF = FALSE
INVARIANTS Emit
CHECK_DEADLOCK FALSE
