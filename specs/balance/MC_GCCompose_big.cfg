SPECIFICATION Spec
CONSTANTS
  TtlK = 3
  TtlB = 3
  SkewBack = 1
  SkewFwd = 0
  MaxNow = 11
  MaxSweeps = 2
  CompleteScan = TRUE
  BoundedLatency = TRUE
  CheckEquality = TRUE
INVARIANTS TypeOK Safe LateTouchSafe OldWhenRemoved
CHECK_DEADLOCK FALSE
