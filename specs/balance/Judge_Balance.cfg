SPECIFICATION TraceSpec
CONSTANTS
  PerMount = FALSE
  ClassBlind = FALSE
CONSTRAINT Mark
POSTCONDITION Accepted
INVARIANT CTypeOK
CHECK_DEADLOCK FALSE
