SPECIFICATION Spec
CONSTANTS
  MaxSrvs = 2
  MaxRuns = 3
  Ordered = FALSE
  MaxHist = 0
VIEW view
INVARIANTS TypeOK NoStaleListAtIndex ClearFailureStopsRun HeldForSafe ScanInSafeState
PROPERTIES Refines DryRunTouchesNothing
CHECK_DEADLOCK FALSE
