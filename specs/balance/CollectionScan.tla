--------------------------- MODULE CollectionScan ---------------------------
(***************************************************************************)
(* Implementation-shaped model of keep-balance EachCollection              *)
(* (services/keep-balance/collection.go) running against a collection      *)
(* table that changes between list requests.                               *)
(*                                                                         *)
(*   expectCount = count(all)                                     Count0   *)
(*   params.Filters = none; last = zero; filterTime = zero                 *)
(*   for {                                                                 *)
(*     page = GET collections(filters, order modified_at,uuid, limit) Fetch*)
(*     for coll in page.Items {                                      Item  *)
(*       if last.ModifiedAt == coll.ModifiedAt && last.UUID >= coll.UUID   *)
(*          { continue }                                                   *)
(*       callCount++; f(coll); last = coll }                               *)
(*     switch {                                                    EndPage *)
(*     case len(items)==0 && !exact:        break                          *)
(*     case last.ModifiedAt.IsZero():       return BUG error               *)
(*     case len(items)>0 && last.ModifiedAt == filterTime:                 *)
(*          exact = true;  filters = [modified_at = filterTime, uuid > last.UUID] *)
(*     case exact:                                                         *)
(*          exact = false; filters = [modified_at > filterTime]            *)
(*     default:                                                            *)
(*          filterTime = last.ModifiedAt                                   *)
(*          filters = [modified_at >= filterTime, uuid != last.UUID] } }   *)
(*   checkCount = count(modified_at <= filterTime)               FinalCount*)
(*   if callCount < checkCount { return error }; return nil                *)
(*                                                                         *)
(* The environment (other API clients) modifies, adds and deletes          *)
(* collections between two list requests; modified_at := a fresh `now`     *)
(* that never decreases (ties allowed).  Changes made while a page is      *)
(* being processed are indistinguishable from changes made just before the *)
(* next request, so Env is enabled only there.                             *)
(*                                                                         *)
(* The contract's observables are carried as ghost state; Refines says     *)
(* every step is a contract step or leaves the observables unchanged.      *)
(***************************************************************************)
EXTENDS Naturals, Sequences, FiniteSets, TLC, Json, IOUtils

CONSTANTS MaxC,      \* uuids are 1 .. MaxC
          MaxInit,   \* at most this many collections initially
          MaxT0,     \* initial timestamps are 1 .. MaxT0
          MaxT,      \* the clock can advance to MaxT
          MaxPage,   \* page sizes 1 .. MaxPage
          MaxEnv,    \* number of environment actions
          MaxHist,   \* 0: no history (MC); > 0: record history (Gen)
          CanFail,   \* BOOLEAN: one list request of the scan may be made to fail
          GeOp       \* operator of the normal mode: ">=" (the code); ">" shows the invariant is not vacuous

VARIABLES db, now, trashed, oldver, init0, everseen, everdel, delivered, fin, reqfailed,   \* contract ghost state
          pc,        \* "count0" | "req" | "proc" | "final" | "done"
          lim,       \* page size
          flt,       \* params.Filters
          last,      \* <<t, u>> of the last collection handed to f; <<0, 0>> = zero value
          ftime,     \* filterTime (0 = zero time)
          exact,     \* gettingExactTimestamp
          calls,     \* callCount
          page, idx, \* items of the current page, next item to process
          envleft,
          nreq,      \* number of list requests made so far          (history)
          hist,      \* environment actions with their request index (history)
          dseq,      \* uuids in delivery order                      (history)
          tbl0, now0, \* initial table and clock                     (history)
          failr      \* number of the list request that was made to fail, -1 = none (history)

C == INSTANCE CollectionScanContract
cvars == <<db, now, trashed, oldver, init0, everseen, everdel, delivered, fin, reqfailed>>
ivars == <<pc, lim, flt, last, ftime, exact, calls, page, idx, envleft>>
hvars == <<nreq, hist, dseq, tbl0, now0, failr>>
vars  == <<cvars, ivars, hvars>>
view  == <<cvars, ivars>>

KeyLess(a, b) == a[1] < b[1] \/ (a[1] = b[1] /\ a[2] < b[2])
MinOf(S) == CHOOSE c \in S : \A d \in S : c = d \/ KeyLess(c, d)
RECURSIVE Take(_, _)
Take(S, n) == IF n = 0 \/ S = {} THEN <<>>
              ELSE LET m == MinOf(S) IN <<m>> \o Take(S \ {m}, n - 1)

\* the faithful list API (same definition as the contract's), computed
Query(f, n) == Take(C!Matching(f, TRUE, TRUE), n)

Tables == UNION {[U -> 1 .. MaxT0] : U \in {U \in SUBSET (1 .. MaxC) : Cardinality(U) <= MaxInit}}
MaxTime(f) == IF DOMAIN f = {} THEN 1 ELSE CHOOSE t \in {f[u] : u \in DOMAIN f} : \A u \in DOMAIN f : f[u] <= t

Init ==
    \E f \in Tables, l \in 1 .. MaxPage :
        /\ C!CInit({<<f[u], u>> : u \in DOMAIN f}, MaxTime(f), {}, {})
        /\ pc = "count0"
        /\ lim = l
        /\ flt = <<>>
        /\ last = <<0, 0>>
        /\ ftime = 0
        /\ exact = FALSE
        /\ calls = 0
        /\ page = <<>>
        /\ idx = 1
        /\ envleft = MaxEnv
        /\ nreq = 0
        /\ hist = <<>>
        /\ dseq = <<>>
        /\ tbl0 = {<<f[u], u>> : u \in DOMAIN f}
        /\ now0 = MaxTime(f)
        /\ failr = 0 - 1

Rec(h, e) == IF Len(h) < MaxHist THEN Append(h, e) ELSE h

\* expectCount is used for progress reports only
Count0 ==
    /\ pc = "count0"
    /\ C!Count(<<>>, TRUE, TRUE, Cardinality(db))
    /\ pc' = "req"
    /\ nreq' = nreq + 1
    /\ UNCHANGED <<lim, flt, last, ftime, exact, calls, page, idx, envleft, hist, dseq, tbl0, now0, failr>>

Fetch ==
    /\ pc = "req"
    /\ page' = Query(flt, lim)
    /\ C!Page(flt, TRUE, TRUE, "asc", lim, page')
    /\ idx' = 1
    /\ pc' = "proc"
    /\ nreq' = nreq + 1
    /\ UNCHANGED <<lim, flt, last, ftime, exact, calls, envleft, hist, dseq, tbl0, now0, failr>>

ItemSkip ==
    /\ pc = "proc" /\ idx <= Len(page)
    /\ LET coll == page[idx] IN last[1] = coll[1] /\ last[2] >= coll[2]
    /\ idx' = idx + 1
    /\ UNCHANGED <<cvars, pc, lim, flt, last, ftime, exact, calls, page, envleft, hvars>>

ItemDeliver ==
    /\ pc = "proc" /\ idx <= Len(page)
    /\ LET coll == page[idx] IN
         /\ ~(last[1] = coll[1] /\ last[2] >= coll[2])
         /\ C!Deliver(coll[2])
         /\ last' = coll
         /\ dseq' = Rec(dseq, coll[2])
    /\ calls' = calls + 1
    /\ idx' = idx + 1
    /\ UNCHANGED <<pc, lim, flt, ftime, exact, page, envleft, nreq, hist, tbl0, now0, failr>>

EndPage ==
    /\ pc = "proc" /\ idx > Len(page)
    /\ UNCHANGED <<lim, last, calls, page, idx, envleft, hvars>>
    /\ IF Len(page) = 0 /\ ~exact
       THEN /\ pc' = "final"
            /\ UNCHANGED <<cvars, flt, ftime, exact>>
       ELSE IF last[1] = 0
       THEN /\ C!Finish(FALSE)                  \* "BUG: ... no modified_at timestamp"
            /\ pc' = "done"
            /\ UNCHANGED <<flt, ftime, exact>>
       ELSE IF Len(page) > 0 /\ last[1] = ftime
       THEN /\ exact' = TRUE
            /\ flt' = << <<"modified_at", "=", ftime>>, <<"uuid", ">", last[2]>> >>
            /\ pc' = "req"
            /\ UNCHANGED <<cvars, ftime>>
       ELSE IF exact
       THEN /\ exact' = FALSE
            /\ flt' = << <<"modified_at", ">", ftime>> >>
            /\ pc' = "req"
            /\ UNCHANGED <<cvars, ftime>>
       ELSE /\ ftime' = last[1]
            /\ flt' = << <<"modified_at", GeOp, last[1]>>, <<"uuid", "!=", last[2]>> >>
            /\ pc' = "req"
            /\ UNCHANGED <<cvars, exact>>

FinalCount ==
    /\ pc = "final"
    /\ LET f == << <<"modified_at", "<=", ftime>> >>
           n == Cardinality(C!Matching(f, TRUE, TRUE))
       IN C!Finish(~(calls < n))
    /\ pc' = "done"
    /\ nreq' = nreq + 1
    /\ UNCHANGED <<lim, flt, last, ftime, exact, calls, page, idx, envleft, hist, dseq, tbl0, now0, failr>>

\* any one of the scan's list requests (initial count, a page, the final count) fails: "return err"
\* (CanFail = FALSE switches this dimension off)
ReqFails ==
    /\ CanFail /\ pc \in {"count0", "req", "final"} /\ ~reqfailed
    /\ C!ReqFail
    /\ pc' = "failed"
    /\ failr' = nreq /\ nreq' = nreq + 1
    /\ UNCHANGED <<lim, flt, last, ftime, exact, calls, page, idx, envleft, hist, dseq, tbl0, now0>>

ReturnErr ==
    /\ pc = "failed"
    /\ C!Finish(FALSE)
    /\ pc' = "done"
    /\ UNCHANGED <<lim, flt, last, ftime, exact, calls, page, idx, envleft, hvars>>

\* other clients of the API, between two list requests
EnvStep ==
    /\ pc \in {"req", "final"} /\ envleft > 0
    /\ envleft' = envleft - 1
    /\ \/ \E u \in C!Uuids(db), t \in now .. MaxT :
            /\ C!EnvModify(u, t)
            /\ hist' = Rec(hist, [r |-> nreq, a |-> "mod", u |-> u, t |-> t])
       \/ \E u \in (1 .. MaxC) \ everseen, t \in now .. MaxT :
            /\ C!EnvAdd(u, t, 0)
            /\ hist' = Rec(hist, [r |-> nreq, a |-> "add", u |-> u, t |-> t])
       \/ \E u \in C!Uuids(db) :
            /\ C!EnvDelete(u)
            /\ hist' = Rec(hist, [r |-> nreq, a |-> "del", u |-> u, t |-> 0])
    /\ UNCHANGED <<pc, lim, flt, last, ftime, exact, calls, page, idx, nreq, dseq, tbl0, now0, failr>>

Next == Count0 \/ Fetch \/ ItemSkip \/ ItemDeliver \/ EndPage \/ FinalCount \/ EnvStep \/ ReqFails \/ ReturnErr

Spec == Init /\ [][Next]_vars /\ WF_vars(Next)
GenSpec == Init /\ [][Next]_vars

------------------------------------------------------------------------------
(* Design-level checks *)

Refines == [][ (\E u \in 1 .. MaxC : C!Deliver(u))
               \/ (\E ok \in BOOLEAN : C!Finish(ok))
               \/ C!ReqFail
               \/ (\E u \in 1 .. MaxC, t \in 1 .. MaxT, k \in 0 .. 2 :
                      C!EnvModify(u, t) \/ C!EnvAdd(u, t, k) \/ C!EnvDelete(u))
               \/ UNCHANGED cvars ]_vars

TypeOK == /\ pc \in {"count0", "req", "proc", "final", "failed", "done"}
          /\ C!CTypeOK
          /\ calls \in Nat
          /\ idx \in 1 .. MaxPage + 1

\* the property itself
Complete == C!Complete

\* the "BUG" branch is unreachable: the scan never fails except by the final count
NoBugBranch == (pc = "done" /\ fin = "err" /\ ~reqfailed) => calls < Cardinality({c \in db : c[1] <= ftime})

\* the cursor never moves backwards, and everything strictly before the cursor time that existed
\* throughout has been delivered (this is what the code comment claims for the normal mode)
SeenBelowCursor ==
    pc \in {"req", "final"} =>
        \A c \in db : (c[2] \in C!Throughout /\ c[1] < ftime) => c[2] \in delivered

\* the scan terminates once the environment stops
Terminates == <>(pc = "done")

------------------------------------------------------------------------------
(* Scenario emission (Gen configuration): one record per distinct path *)
Emit == (pc = "done") =>
          Serialize(<<[id |-> TLCGet("distinct"),
                       tbl |-> tbl0,
                       now0 |-> now0, lim |-> lim, env |-> hist, failreq |-> failr,
                       expect_dseq |-> dseq, expect_fin |-> fin]>>,
                    IOEnv.VERIF_OUT,
                    [format |-> "NDJSON", charset |-> "UTF-8",
                     openOptions |-> <<"WRITE", "CREATE", "APPEND">>])
=============================================================================
