----------------------- MODULE IndexFramingContract -----------------------
(***************************************************************************)
(* C06 (b) - contract of index framing, over observable events only.       *)
(*                                                                         *)
(* A well-formed index response is a sequence of entry lines               *)
(*      <32 hex digits> "+" <size digits> " " <mtime digits> "\n"          *)
(* followed by one empty line "\n".  Its shape is the sequence of          *)
(* <<size digits, mtime digits>> pairs, which determines its length.       *)
(*                                                                         *)
(* Statement (properties.jsonl C06, second sentence) -> clause:            *)
(*   "An index response cut short at any byte is reported as an error by   *)
(*    every index reader"                                                  *)
(*       Read(reader, k, err):  k < RespLen(shape) => err                  *)
(*       Write(...): the response keepstore's index handler produced was   *)
(*          also read by the two real readers over HTTP; a 200 response    *)
(*          that does not end with the empty line is a cut-short response  *)
(*          (entry lines, possibly a partial one, no terminator), so both  *)
(*          readers must have reported an error for it:                    *)
(*                (status = 200 /\ ~term) => (e1 /\ e2)                    *)
(* The sentence is about READERS.  That keepstore's WRITER leaves out the  *)
(* terminator when a volume fails while being indexed (failed => status #  *)
(* 200 \/ ~term) is what makes a failed listing a cut-short response; it   *)
(* is checked at the model level (IndexFraming.tla, WriterTruncates) and   *)
(* reported as drift by checks/C06.py, not judged.  Likewise nothing is    *)
(* demanded for the complete response (k = RespLen) or for a writer        *)
(* without failure: whether readers accept those is reported as drift.     *)
(***************************************************************************)
EXTENDS Naturals, Sequences

VARIABLES shape,    \* sequence of <<size digits, mtime digits>>
          cut,      \* number of bytes of the response that were delivered
          nread     \* number of reader/writer verdicts seen for this input (bookkeeping)

cvars == <<shape, cut, nread>>

RECURSIVE SumLen(_, _)
SumLen(s, i) == IF i > Len(s) THEN 0 ELSE (32 + 1 + s[i][1] + 1 + s[i][2] + 1) + SumLen(s, i + 1)
RespLen(s) == SumLen(s, 1) + 1

CInit(s, k) == /\ shape = s
               /\ cut = k
               /\ nread = 0

\* reader \in {"index", "getindex", ...} read the first `cut` bytes followed by a clean EOF
Read(reader, err) ==
    /\ cut < RespLen(shape) => err
    /\ nread' = nread + 1
    /\ UNCHANGED <<shape, cut>>

\* keepstore's index handler answered a request while `failed` says whether some volume's IndexTo
\* returned an error; status/term describe the response (term: body is "\n" or ends with "\n\n");
\* e1/e2: arvados.KeepService index reader / keepclient.GetIndex reported an error for it
Write(failed, status, term, e1, e2) ==
    /\ (status = 200 /\ ~term) => (e1 /\ e2)
    /\ nread' = nread + 1
    /\ UNCHANGED <<shape, cut>>

CTypeOK == cut \in Nat /\ nread \in Nat
=============================================================================
