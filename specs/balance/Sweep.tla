------------------------------- MODULE Sweep -------------------------------
(***************************************************************************)
(* Implementation-shaped model of one keep-balance sweep: Balancer.Run and *)
(* GetCurrentState (services/keep-balance/balance.go), with one request    *)
(* made to fail.                                                           *)
(*                                                                         *)
(*  Run:  DiscoverKeepServices            GET keep_services      "services"*)
(*        for srv: discoverMounts         GET srv/mounts         "mounts"  *)
(*        CheckSanityEarly                GET users/current      "user"    *)
(*                                        GET collections (null) "collnull"*)
(*        if CommitTrash && rendezvous state changed:                      *)
(*            ClearTrashLists             PUT srv/trash []  (all, parallel)*)
(*        GetCurrentState                                                  *)
(*            DiscoveryDocument           GET discovery doc      "discovery"*)
(*            go per mount: IndexMount    GET srv/mounts/m/blocks "index"  *)
(*               on error: errs <- err (non-blocking); cancel()            *)
(*            go consumer: for coll := range collQ { addCollection;        *)
(*               if len(errs) > 0 { drain collQ; cancel(); return } }      *)
(*            go producer: EachCollection(ctx, ...)   "collcount" "collpage"*)
(*               callback: collQ <- coll; if len(errs) > 0 return error    *)
(*               close(collQ); on error: errs <- err (non-blocking); cancel*)
(*            wg.Wait(); if len(errs) > 0 return <-errs                    *)
(*        ComputeChangeSets; CheckSanityLate (zero collections => error)   *)
(*        if CommitPulls: PUT srv/pull (all, parallel); any error => return*)
(*        if CommitTrash: PUT srv/trash (all, parallel)                    *)
(*                                                                         *)
(* errs is a channel of capacity 1 that nobody receives from until         *)
(* wg.Wait() returned; collQ has capacity Buf (BalanceCollectionBuffers).  *)
(* After cancel() a request of another goroutine that has not been sent    *)
(* yet may or may not reach its server, and its caller may or may not see  *)
(* the answer; the counting requests of EachCollection do not use the      *)
(* context.                                                                *)
(***************************************************************************)
EXTENDS Naturals, Sequences, FiniteSets, TLC, Json, IOUtils

CONSTANTS MaxS,       \* keepstore servers 1 .. S, S <= MaxS
          MaxPages,   \* non-empty collection pages 0 .. MaxPages (one abstract item per page)
          Buf         \* capacity of collQ (>= 1)

VARIABLES sfailed, done,                      \* contract ghost state
          cfg, pc, todo, puterr,
          idx, errs, cancelled, prod, pg, collQ, cons, scanned,
          anyfailed                           \* some request was made to fail (model-level ghost)

C == INSTANCE SweepContract
cvars == <<sfailed, done>>
svars == <<idx, errs, cancelled, prod, pg, collQ, cons, scanned>>
vars == <<cvars, cfg, pc, todo, puterr, svars, anyfailed>>

None == <<"none", 0>>
NMounts(c) == c.S + (IF c.m2 THEN 1 ELSE 0)      \* server 1 may have a second mount
NPull(s) == IF s = 2 THEN 1 ELSE 0               \* abstract list sizes of the failure-free sweep
NTrash(s) == 1

FailPoints(c) ==
    {<<"services", 0>>, <<"user", 0>>, <<"collnull", 0>>, <<"discovery", 0>>,
     <<"collcount", 1>>, <<"collcount", 2>>}
    \cup {<<"mounts", s>> : s \in 1 .. c.S}
    \cup {<<"index", m>> : m \in 1 .. NMounts(c)}
    \cup {<<"collpage", p>> : p \in 1 .. c.pages + 1}
    \cup (IF c.trash /\ c.clear THEN {<<"clear", s>> : s \in 1 .. c.S} ELSE {})
    \* the commit phases are reached only after a non-empty scan
    \cup (IF c.pulls /\ c.pages > 0 THEN {<<"pull", s>> : s \in 1 .. c.S} ELSE {})
    \cup (IF c.trash /\ c.pages > 0 THEN {<<"trash", s>> : s \in 1 .. c.S} ELSE {})

Configs ==
    {c \in [S : 1 .. MaxS, m2 : BOOLEAN, pages : 0 .. MaxPages, pulls : BOOLEAN, trash : BOOLEAN,
            clear : BOOLEAN] : c.clear => c.trash}

Init ==
    \E c \in Configs : \E fp \in FailPoints(c) \cup {None} :
        /\ cfg = [S |-> c.S, m2 |-> c.m2, pages |-> c.pages, pulls |-> c.pulls, trash |-> c.trash,
                  clear |-> c.clear, fp |-> fp]
        /\ C!CInit
        /\ pc = "services"
        /\ todo = {}
        /\ puterr = FALSE
        /\ idx = [m \in 1 .. NMounts(c) |-> "todo"]
        /\ errs = 0 /\ cancelled = FALSE
        /\ prod = "count0" /\ pg = 1 /\ collQ = 0 /\ cons = "run" /\ scanned = 0
        /\ anyfailed = FALSE

Fails(kind, tgt) == cfg.fp = <<kind, tgt>>

\* a GET request of the given kind arrives at its server; f = the harness makes it fail
Request(kind, tgt) ==
    /\ C!Req(kind, Fails(kind, tgt))
    /\ anyfailed' = (anyfailed \/ Fails(kind, tgt))

\* "if err != nil { return }"
Return ==
    /\ pc = "fail"
    /\ C!Done(FALSE)
    /\ pc' = "done"
    /\ UNCHANGED <<cfg, todo, puterr, svars, anyfailed>>

--------------------------------------------------------------------------
(* sequential phases before the scan *)

Services ==
    /\ pc = "services"
    /\ Request("services", 0)
    /\ IF Fails("services", 0)
       THEN pc' = "fail" /\ todo' = todo
       ELSE pc' = "mounts" /\ todo' = 1 .. cfg.S
    /\ UNCHANGED <<cfg, puterr, svars>>

Mounts ==
    /\ pc = "mounts"
    /\ \E s \in todo :
         /\ Request("mounts", s)
         /\ IF Fails("mounts", s)
            THEN pc' = "fail" /\ todo' = todo
            ELSE /\ todo' = todo \ {s}
                 /\ pc' = IF todo' = {} THEN "user" ELSE "mounts"
    /\ UNCHANGED <<cfg, puterr, svars>>

Simple(here, kind, next) ==
    /\ pc = here
    /\ Request(kind, 0)
    /\ pc' = IF Fails(kind, 0) THEN "fail" ELSE next
    /\ UNCHANGED <<cfg, puterr, svars>>

User == Simple("user", "user", "collnull") /\ todo' = todo
CollNull ==
    /\ Simple("collnull", "collnull", IF cfg.trash /\ cfg.clear THEN "clear" ELSE "discovery")
    /\ todo' = 1 .. cfg.S
Discovery == Simple("discovery", "discovery", "state") /\ todo' = todo

\* commitAsync: one PUT per server, in parallel; all are awaited; the last error wins
PutPhase(here, what, kind, N(_), next) ==
    /\ pc = here
    /\ UNCHANGED <<cfg, svars, anyfailed>>
    /\ \/ \E s \in todo :
            /\ C!Put(what, N(s), Fails(kind, s))
            /\ puterr' = (puterr \/ Fails(kind, s))
            /\ todo' = todo \ {s}
            /\ UNCHANGED <<pc, done, sfailed>>
       \/ /\ todo = {}
          /\ UNCHANGED sfailed
          /\ IF puterr THEN pc' = "done" /\ done' = "err" /\ UNCHANGED <<todo, puterr>>
             ELSE IF next = "done" THEN pc' = "done" /\ done' = "ok" /\ UNCHANGED <<todo, puterr>>
             ELSE pc' = next /\ done' = done /\ todo' = 1 .. cfg.S /\ puterr' = FALSE

Zero(s) == 0
AfterPulls == IF cfg.trash THEN "trash" ELSE "done"
Clear == PutPhase("clear", "trash", "clear", Zero, "discovery")
Pulls == PutPhase("pulls", "pull", "pull", NPull, AfterPulls)
Trash == PutPhase("trash", "trash", "trash", NTrash, "done")

--------------------------------------------------------------------------
(* GetCurrentState: index goroutines, collection producer and consumer *)

IdxFail(m) == /\ idx' = [idx EXCEPT ![m] = "done"]
              /\ errs' = 1                     \* select { case errs <- err: default: }
              /\ cancelled' = TRUE

Index ==
    /\ pc = "state"
    /\ \E m \in DOMAIN idx :
         /\ idx[m] = "todo"
         /\ \/ /\ Request("index", m)
               /\ IF Fails("index", m) THEN IdxFail(m)
                  ELSE \/ idx' = [idx EXCEPT ![m] = "done"] /\ UNCHANGED <<errs, cancelled>>
                       \/ cancelled /\ IdxFail(m)           \* answered, but the caller saw the cancellation
            \/ /\ cancelled /\ IdxFail(m)                    \* never sent
               /\ UNCHANGED <<sfailed, anyfailed>>
    /\ UNCHANGED <<done, cfg, pc, todo, puterr, prod, pg, collQ, cons, scanned>>

ProdFail == prod' = "closed" /\ errs' = 1 /\ cancelled' = TRUE

Producer ==
    /\ pc = "state"
    /\ UNCHANGED <<done, cfg, pc, todo, puterr, idx, cons, scanned>>
    /\ \/ /\ prod = "count0"                                 \* expectCount (no context)
          /\ Request("collcount", 1)
          /\ IF Fails("collcount", 1) THEN ProdFail /\ UNCHANGED <<pg, collQ>>
             ELSE prod' = "page" /\ UNCHANGED <<errs, cancelled, pg, collQ>>
       \/ /\ prod = "page"
          /\ \/ /\ Request("collpage", pg)
                /\ IF Fails("collpage", pg) THEN ProdFail /\ UNCHANGED <<pg, collQ>>
                   ELSE \/ /\ prod' = IF pg <= cfg.pages THEN "push" ELSE "final"
                           /\ UNCHANGED <<errs, cancelled, pg, collQ>>
                        \/ cancelled /\ ProdFail /\ UNCHANGED <<pg, collQ>>
             \/ /\ cancelled /\ ProdFail
                /\ UNCHANGED <<sfailed, anyfailed, pg, collQ>>
       \/ /\ prod = "push" /\ collQ < Buf                    \* collQ <- coll
          /\ collQ' = collQ + 1
          /\ IF errs > 0 THEN ProdFail /\ UNCHANGED pg       \* callback returns an error
             ELSE prod' = "page" /\ pg' = pg + 1 /\ UNCHANGED <<errs, cancelled>>
          /\ UNCHANGED <<sfailed, anyfailed>>
       \/ /\ prod = "final"                                  \* checkCount (no context)
          /\ Request("collcount", 2)
          /\ IF Fails("collcount", 2) THEN ProdFail /\ UNCHANGED <<pg, collQ>>
             ELSE prod' = "closed" /\ UNCHANGED <<errs, cancelled, pg, collQ>>

Consumer ==
    /\ pc = "state"
    /\ UNCHANGED <<cvars, cfg, pc, todo, puterr, idx, errs, prod, pg, anyfailed>>
    /\ \/ /\ cons = "run" /\ collQ > 0
          /\ collQ' = collQ - 1
          /\ IF errs > 0 THEN cons' = "drain" /\ scanned' = scanned
             ELSE cons' = cons /\ scanned' = scanned + 1
          /\ UNCHANGED cancelled
       \/ /\ cons = "run" /\ collQ = 0 /\ prod = "closed"
          /\ cons' = "done" /\ UNCHANGED <<collQ, scanned, cancelled>>
       \/ /\ cons = "drain" /\ collQ > 0
          /\ collQ' = collQ - 1 /\ UNCHANGED <<cons, scanned, cancelled>>
       \/ /\ cons = "drain" /\ collQ = 0 /\ prod = "closed"
          /\ cons' = "done" /\ cancelled' = TRUE /\ UNCHANGED <<collQ, scanned>>

Join ==
    /\ pc = "state"
    /\ \A m \in DOMAIN idx : idx[m] = "done"
    /\ prod = "closed" /\ cons = "done"
    /\ IF errs > 0 THEN pc' = "done" /\ done' = "err" ELSE pc' = "compute" /\ done' = done
    /\ UNCHANGED <<sfailed, cfg, todo, puterr, svars, anyfailed>>

\* ComputeChangeSets + CheckSanityLate
Compute ==
    /\ pc = "compute"
    /\ IF scanned = 0 THEN pc' = "done" /\ done' = "err"          \* "received zero collections"
       ELSE IF cfg.pulls THEN pc' = "pulls" /\ done' = done
       ELSE IF cfg.trash THEN pc' = "trash" /\ done' = done
       ELSE pc' = "done" /\ done' = "ok"
    /\ todo' = 1 .. cfg.S /\ puterr' = FALSE
    /\ UNCHANGED <<sfailed, cfg, svars, anyfailed>>

Next == Return \/ Services \/ Mounts \/ User \/ CollNull \/ Clear \/ Discovery
        \/ Index \/ Producer \/ Consumer \/ Join \/ Compute \/ Pulls \/ Trash

Spec == Init /\ [][Next]_vars /\ WF_vars(Next)
        /\ WF_vars(Consumer) /\ WF_vars(Producer) /\ WF_vars(Index)
GenSpec == Init /\ [][FALSE]_vars

--------------------------------------------------------------------------
Kinds == {"services", "mounts", "user", "collnull", "discovery", "index", "collcount", "collpage"}

Refines == [][ (\E k \in Kinds, f \in BOOLEAN : C!Req(k, f))
               \/ (\E w \in {"trash", "pull"}, n \in 0 .. 1, f \in BOOLEAN : C!Put(w, n, f))
               \/ (\E ok \in BOOLEAN : C!Done(ok))
               \/ UNCHANGED cvars ]_vars

TypeOK == /\ C!CTypeOK
          /\ pc \in {"services", "mounts", "user", "collnull", "clear", "discovery", "state", "compute",
                     "pulls", "trash", "fail", "done"}
          /\ collQ \in 0 .. Buf /\ errs \in 0 .. 1

\* stronger than the contract, true of the design: after ANY failed GET request the sweep is over
\* without a non-empty list, and Run reports success only for a clean, non-empty scan
FailureStopsSweep == (anyfailed /\ pc \in {"compute", "pulls", "trash"}) => FALSE
OkMeansClean == done = "ok" => (~anyfailed /\ ~puterr /\ scanned > 0)
FailureMeansErr == (pc = "done" /\ cfg.fp # None) => done = "err"
\* every goroutine ends and Run returns: no deadlock on collQ / errs on any error path
Terminates == <>(pc = "done")

--------------------------------------------------------------------------
Emit == Serialize(<<[id |-> TLCGet("distinct"), S |-> cfg.S, m2 |-> cfg.m2, pages |-> cfg.pages,
                     pulls |-> cfg.pulls, trash |-> cfg.trash, clear |-> cfg.clear,
                     fk |-> cfg.fp[1], ft |-> cfg.fp[2],
                     expect_ok |-> (cfg.fp = None /\ cfg.pages > 0)]>>,
                  IOEnv.VERIF_OUT,
                  [format |-> "NDJSON", charset |-> "UTF-8",
                   openOptions |-> <<"WRITE", "CREATE", "APPEND">>])
=============================================================================
