SPECIFICATION PredictSpec
CONSTANTS
  MaxSrv = 16
  MaxMounts = 40
  MaxPerSrv = 2
  Repls = {1}
  ClassSets = {{"default"}}
  Devs = {0}
  Mtimes = {1}
  Cut = 5
  DesDefault = {0}
  DesSpecial = {0}
  AllowRO = FALSE
  ExcludeKF = FALSE
INVARIANTS PredictOut
CHECK_DEADLOCK FALSE
