SPECIFICATION Spec
CONSTANTS
  MaxSrv = 4
  MaxMounts = 5
  MaxPerSrv = 2
  Repls = {1}
  ClassSets = {{"default"}}
  Devs = {0, 1}
  Mtimes = {1, 9}
  Cut = 5
  DesDefault = {0, 1, 2, 3}
  DesSpecial = {0}
  AllowRO = FALSE
  ExcludeKF = TRUE
INVARIANTS TypeOK ContractAccepts NoNewOrReadOnlyTrash PullsOnlyToWritableEmpty
PROPERTIES Refines
CHECK_DEADLOCK FALSE
