SPECIFICATION GenSpec
CONSTANTS
  MaxEntries = 2
  SizeDigits = {1}
  MtimeDigits = {10, 19}
  MaxVols = 2
  MaxVolEntries = 1
INVARIANTS Emit
CHECK_DEADLOCK FALSE
