SPECIFICATION GenSpec
CONSTANTS
  MaxS = 2
  MaxPages = 2
  Buf = 1
INVARIANTS Emit
CHECK_DEADLOCK FALSE
