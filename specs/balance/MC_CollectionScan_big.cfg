SPECIFICATION Spec
CONSTANTS
  MaxC = 4
  MaxInit = 4
  MaxT0 = 3
  MaxT = 4
  MaxPage = 3
  MaxEnv = 3
  MaxHist = 0
  CanFail = TRUE
  GeOp = ">="
VIEW view
INVARIANTS TypeOK Complete NoBugBranch SeenBelowCursor
PROPERTIES Refines Terminates
CHECK_DEADLOCK FALSE
