SPECIFICATION Spec
CONSTANTS
  MaxEntries = 2
  SizeDigits = {1}
  MtimeDigits = {10, 19}
  MaxVols = 2
  MaxVolEntries = 1
INVARIANTS TypeOK AcceptWhole ReadersAgree WriterWholeOK WriterTruncates
PROPERTIES Refines AllJudged
CHECK_DEADLOCK FALSE
