SPECIFICATION GenSpec
CONSTANTS
  MaxSrvs = 2
  MaxRuns = 3
  Ordered = TRUE
  MaxHist = 5
INVARIANTS Emit
CHECK_DEADLOCK FALSE
