-------------------------- MODULE SweepSeqContract --------------------------
(***************************************************************************)
(* C06 (c'), growth item - contract of a SEQUENCE of balancing sweeps       *)
(* (Balancer.Run called repeatedly with nextRunOptions threaded through)    *)
(* over what the keepstore servers can observe: which trash list each of    *)
(* them holds, and for which set of keep services it was computed.          *)
(*                                                                          *)
(* A keepstore server keeps executing the last trash list it accepted.  A   *)
(* run that is going to send trash lists (CommitTrash) relies on every      *)
(* replica it saw in an index still being there when its lists arrive; a    *)
(* list computed for another set of services (another rendezvous order) may *)
(* delete such a replica (balance.go, comment above ClearTrashLists).       *)
(*                                                                          *)
(* Clauses (coordinator's wording; this goes beyond the letter of the C06   *)
(* statement in properties.jsonl - "acts only on a complete view of ...     *)
(* block indexes" - and spells out what keeps an index view valid):         *)
(*  S1 in a run with CommitTrash that computes changes for service set S,   *)
(*     when the index of server k is taken k holds no NON-EMPTY trash list  *)
(*     computed for a set other than S            Req("index", k): HeldOK   *)
(*  S2 if a trash PUT fails before the first index of the run (that is the  *)
(*     clearing phase), the run takes no index and reports an error         *)
(*                                Req("index", k): ~earlyfail; Done: ~ok    *)
(*     ("the next run clears again" then follows from S1 for the next run)  *)
(* Because these clauses are not in the statement, checks/C06.py reports a  *)
(* trace this contract rejects as DRIFT, never as a VIOLATION of C06.       *)
(* A dry run (CommitTrash = false) is unconstrained: it sends no trash list *)
(* and must not touch the lists the servers hold.                           *)
(* A PUT that the harness made fail did not change the server's list.       *)
(***************************************************************************)
EXTENDS Naturals, FiniteSets

CONSTANT MaxSrvs       \* servers are 1 .. MaxSrvs

VARIABLES held,        \* server -> <<length of the trash list it holds, set it was computed for>>
          cur,         \* service set of the current run
          commit,      \* current run has CommitTrash
          earlyfail,   \* a trash PUT of the current run failed before its first index
          indexed      \* the current run has taken an index

qvars == <<held, cur, commit, earlyfail, indexed>>

Unknown == {0}         \* "computed for some set we do not know" (lists left by an earlier process)

QInit(stale) == /\ held = [k \in 1 .. MaxSrvs |-> IF k \in stale THEN <<1, Unknown>> ELSE <<0, {}>>]
                /\ cur = {} /\ commit = FALSE /\ earlyfail = FALSE /\ indexed = FALSE

RunStart(S, c) ==
    /\ cur' = S /\ commit' = c /\ earlyfail' = FALSE /\ indexed' = FALSE
    /\ UNCHANGED held

Put(what, k, n, failed) ==
    /\ IF what = "trash" /\ ~failed /\ k \in 1 .. MaxSrvs
       THEN held' = [held EXCEPT ![k] = <<n, cur>>]
       ELSE UNCHANGED held
    /\ earlyfail' = (earlyfail \/ (what = "trash" /\ failed /\ ~indexed))
    /\ UNCHANGED <<cur, commit, indexed>>

HeldOK(k) == held[k][1] > 0 => held[k][2] = cur

Req(kind, k) ==
    IF kind = "index"
    THEN /\ commit => (~earlyfail /\ (k \in 1 .. MaxSrvs => HeldOK(k)))      \* S2, S1
         /\ indexed' = TRUE
         /\ UNCHANGED <<held, cur, commit, earlyfail>>
    ELSE UNCHANGED qvars

Done(ok) ==
    /\ earlyfail => ~ok                                                     \* S2
    /\ UNCHANGED qvars

QTypeOK == commit \in BOOLEAN /\ earlyfail \in BOOLEAN /\ indexed \in BOOLEAN
=============================================================================
