------------------------------ MODULE TraceIO ------------------------------
(***************************************************************************)
(* Trace reader shared by every contract trace specification.              *)
(*                                                                         *)
(* The trace is an ndjson file named by the environment variable           *)
(* VERIF_TRACE.  Every line is a record with a field "ev".  A line         *)
(* {"ev":"reset", ...} starts a new recorded execution, so that many       *)
(* executions are judged in one TLC run.                                   *)
(*                                                                         *)
(* A trace spec EXTENDS this module, defines TraceNext as a disjunction of *)
(* actions of the form  IsEvent("name") /\ ContractAction(Ev.field, ...)   *)
(* and is run with                                                         *)
(*     SPECIFICATION TraceSpec  CONSTRAINT Mark  POSTCONDITION Accepted    *)
(*     CHECK_DEADLOCK FALSE     (-workers 1)                               *)
(* Mark records in TLC register 1 the highest line position reached by any *)
(* behaviour; Accepted holds iff some behaviour consumed every line.       *)
(* (The diameter trick is unsound when contract steps are                  *)
(* nondeterministic, hence the register.)                                  *)
(***************************************************************************)
EXTENDS TLC, Json, IOUtils, Sequences, Naturals

VARIABLE l            \* index of the next unread line of Trace

Trace == ndJsonDeserialize(IOEnv.VERIF_TRACE)

Ev == Trace[l]        \* the line being consumed (only meaningful under IsEvent)

IsEvent(e) == /\ l <= Len(Trace)
              /\ Trace[l].ev = e
              /\ l' = l + 1

Has(f) == f \in DOMAIN Trace[l]

Mark == IF l > TLCGet(1) THEN TLCSet(1, l) ELSE TRUE

Accepted == IF TLCGet(1) = Len(Trace) + 1 THEN TRUE
            ELSE /\ PrintT(<<"REJECTED_AT", TLCGet(1)>>)
                 /\ PrintT(Trace[TLCGet(1)])
                 /\ FALSE

ASSUME TLCSet(1, 0)
=============================================================================
