SPECIFICATION Spec
CONSTANTS
  MinVols = 1
  MaxVols = 1
  TTL = 2
  Lives = {2}
  Serial = {FALSE}
  Trashing = {TRUE}
  WKinds = {"put"}
  TKinds = {"delete"}
  XKinds = {"none"}
  MaxActors = 2
  PreSet = {"none", "intact_old", "intact_young", "corrupt_old"}
  PreTrash = {"none"}
  ROSets = {{}}
  TickSizes = {1}
  MaxTicks = 0
  Filter = "none"
  NoLockSet = {FALSE}
  TickInList = TRUE
  WBFlock = FALSE
  POR = FALSE
  MaxHist = 0
VIEW view
INVARIANTS NoViolation
CHECK_DEADLOCK FALSE
