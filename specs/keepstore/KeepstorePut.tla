---------------------------- MODULE KeepstorePut ----------------------------
(***************************************************************************)
(* Implementation-shaped model of keepstore's write path for ONE PUT on    *)
(* one Directory volume, at system-call granularity, with process death,   *)
(* client disconnect and write errors at every step.                       *)
(*                                                                         *)
(* Code modelled (services/keepstore):                                     *)
(*   handlers.go  handlePUT -> PutBlock: CompareAndTouch (Compare; Touch   *)
(*                if the stored copy is identical), else Put on the next   *)
(*                writable volume; if that fails, Put on every writable    *)
(*                volume (one volume here: a second attempt); reply with   *)
(*                the locator only after PutBlock returned nil             *)
(*   pipe_adapters.go putWithPipe: WriteBlock runs in its own goroutine    *)
(*                and reads the data from a pipe; when the request context *)
(*                ends the pipe is closed WITH AN ERROR, so the writer     *)
(*                never sees a premature EOF; the handler returns at once  *)
(*                and the writer goroutine finishes on its own             *)
(*   unix_volume.go WriteBlock: IsFull, MkdirAll, TempFile("tmp"+H),       *)
(*                Serialize lock, io.Copy (one Write per chunk), Close,    *)
(*                Chtimes(tmp), OpenFile + lockfile of the file being      *)
(*                replaced if there is one (commit 6f6002f), Rename(tmp -> *)
(*                block path); every error path removes the temp file      *)
(*                                                                         *)
(* pc = the yield-point label the writer stands at (tools/instrument), so  *)
(* a kill / cancel point of the model is a label of the real code.         *)
(*                                                                         *)
(*   Crash      (mode "kill")    the process dies at the current label     *)
(*   Cancel     (mode "cancel")  the request context ends at the current    *)
(*                               label; the writer goes on by itself       *)
(*   write error(mode "werr")    every write of chunk k fails              *)
(*   rival      (cf.rival = L)   a second PUT of the same block runs to its *)
(*                               acknowledgement while this one stands at   *)
(*                               label L; whatever happens to this one      *)
(*                               afterwards, the acknowledged block stays   *)
(*   pre "dir" / "nodir"         rename / mkdir fail                       *)
(*                                                                         *)
(* Files.  ent = what the block path names: "absent", "pre" (what the      *)
(* harness placed) or "new" (the inode WriteBlock created); tmp = [k]      *)
(* chunks written to the temp inode (-1: no temp file).  The design        *)
(* argument "write to a temp name, rename last" is the invariant           *)
(* AllOrNothing, checked in EVERY state because Crash is enabled in every  *)
(* state.                                                                  *)
(***************************************************************************)
EXTENDS Integers, Sequences, FiniteSets, TLC, Json, IOUtils

CONSTANTS Rivals2,     \* {""} or a set of labels: while THIS upload (which is not disturbed otherwise and gets
                       \* acknowledged) stands at the label, a second upload of the same block starts and gets as
                       \* far as having its own temp file; it goes on only after this one has been answered, and
                       \* then is aborted (client gone) or finishes
          SharedTmp,   \* FALSE in the real code: ioutil.TempFile gives every upload its own temp file.  TRUE
                       \* models one temp name per block (opened with O_TRUNC): the stalling rival truncates what
                       \* this upload has written - refuted by AllOrNothing (MC_C02_mut2.cfg)
          Rivals,      \* {""} or a set of labels: while THIS upload stands at the label (first Put attempt,
                       \* i.e. past CompareAndTouch), a SECOND upload of the same block runs from start to
                       \* acknowledgement; afterwards this one goes on and may fail or be cancelled
          Chunks,      \* set of block sizes in chunks, e.g. {0, 1, 3}
          Pres,        \* subset of {"none","intact_old","corrupt_old","dir","nodir"}
          Modes,       \* subset of {"none","kill","killack","cancel","werr"}
          TmpLooksLikeBlock   \* FALSE in the real code: "tmp"+H+random never matches ^[0-9a-f]{32}$

VARIABLES phase, pre, acked,        \* contract ghost state
          cf,        \* [pre, n, mode]
          pc,        \* label, or "reply" / "dead" / "end"
          att,       \* Put attempt 1 (NextWritable) or 2 (loop over writable volumes)
          ent,       \* "absent" | "pre" | "new"
          newk,      \* chunks held by the inode named by ent = "new"
          tmp,       \* chunks written to the current temp file, -1 = none
          junk,      \* number of temp files left behind
          rdone,     \* the rival upload (cf.rival) has run
          rst,       \* the stalling rival (cf.rival2): "no" | "open" (it has created its temp file) | "abort" | "finish"
          touched,   \* Touch set the timestamp of the existing copy
          cancelled, \* the request context has ended
          point,     \* label at which the kill / cancel / error was applied ("" = not yet)
          occ,       \* ... and which arrival at that label it was (= the Put attempt)
          reply,     \* status sent to the client, 0 = none (yet)
          wdone,     \* the writer goroutine has finished
          obs,       \* observation progress after the end: 0..4
          viol

C == INSTANCE KeepstorePutContract
pvars == <<phase, pre, acked>>
vars == <<pvars, cf, pc, att, ent, newk, tmp, junk, rdone, rst, touched, cancelled, point, occ, reply, wdone, obs, viol>>

WriteLabel(k) == IF k = 1 THEN "WriteBlock.Write#1" ELSE IF k = 2 THEN "WriteBlock.Write#2" ELSE "WriteBlock.Write#3"

RivalLabels == {"WriteBlock.IsFull", "WriteBlock.MkdirAll", "WriteBlock.TempFile", "WriteBlock.lock", "WriteBlock.Copy",
                "WriteBlock.Write#1", "WriteBlock.Write#2", "WriteBlock.Write#3", "WriteBlock.tmpfile.Close",
                "WriteBlock.Chtimes", "WriteBlock.OpenFile", "WriteBlock.lockfile", "WriteBlock.Rename"}

Init == \E p \in Pres, n \in Chunks, m \in Modes, rv \in Rivals, rv2 \in Rivals2 :
          /\ cf = [pre |-> p, n |-> n, mode |-> m, rival |-> rv, rival2 |-> rv2]
          /\ (rv2 # "" => (rv2 \in RivalLabels /\ rv = "" /\ m = "none" /\ p \in {"none", "corrupt_old"}))
          /\ rst = "no"
          /\ (m = "werr" => n > 0)
          \* a second, overlapping upload of the same block (rival) is combined with the in-process faults
          /\ (rv # "" => (rv \in RivalLabels /\ m \in {"none", "cancel", "werr"} /\ p \in {"none", "corrupt_old"}))
          /\ rdone = FALSE
          /\ pc = "start" /\ att = 1
          /\ ent = IF p \in {"none", "nodir"} THEN "absent" ELSE "pre"
          /\ newk = 0 /\ tmp = -1 /\ junk = 0 /\ touched = FALSE /\ cancelled = FALSE
          /\ point = "" /\ occ = 0 /\ reply = 0 /\ wdone = FALSE /\ obs = 0 /\ viol = FALSE
          /\ C!PInit

Labels == {"Compare.stat", "Compare.getFunc", "Touch.OpenFile", "Touch.lock", "Touch.lockfile", "Touch.Chtimes",
           "WriteBlock.IsFull", "WriteBlock.MkdirAll", "WriteBlock.TempFile", "WriteBlock.lock", "WriteBlock.Copy",
           "WriteBlock.Write#1", "WriteBlock.Write#2", "WriteBlock.Write#3", "WriteBlock.tmpfile.Close",
           "WriteBlock.Chtimes", "WriteBlock.OpenFile", "WriteBlock.lockfile", "WriteBlock.Rename",
           "WriteBlock.errClose", "WriteBlock.Remove"}

Start == /\ pc = "start"
         /\ C!PutStartEff(cf.pre)
         /\ pc' = "Compare.stat"
         /\ UNCHANGED <<cf, att, ent, newk, tmp, junk, rdone, rst, touched, cancelled, point, occ, reply, wdone, obs, viol>>

(* the handler answers (once) *)
Answer(st) == /\ reply' = st
              /\ C!OutcomeEff("reply", st)
              /\ viol' = (viol \/ ~C!OutcomeOk("reply", st))

(* WriteBlock failed: second attempt on "every writable volume", or give up *)
AfterFail == IF cancelled \/ att = 2 THEN "failed" ELSE "retry"

RivalDue == \/ cf.rival # "" /\ ~rdone /\ pc = cf.rival /\ att = 1
            \/ cf.rival2 # "" /\ rst = "no" /\ pc = cf.rival2 /\ att = 1

Step ==
    /\ pc \in Labels /\ ~RivalDue
    /\ UNCHANGED <<cf, cancelled, point, occ, obs>>
    /\ CASE pc = "Compare.stat" ->
              \* stat(block path): nothing there (or not a directory above it) -> go and write
              /\ pc' = IF ent = "absent" THEN "WriteBlock.IsFull" ELSE "Compare.getFunc"
              /\ UNCHANGED <<pvars, att, ent, newk, tmp, junk, rdone, rst, touched, reply, wdone, viol>>
         [] pc = "Compare.getFunc" ->
              \* open + compare; ctx is checked while comparing
              /\ pc' = IF cancelled THEN "failed"
                      ELSE IF cf.pre = "intact_old" THEN "Touch.OpenFile" ELSE "WriteBlock.IsFull"
              /\ UNCHANGED <<pvars, att, ent, newk, tmp, junk, rdone, rst, touched, reply, wdone, viol>>
         [] pc \in {"Touch.OpenFile", "Touch.lock", "Touch.lockfile"} ->
              /\ pc' = CASE pc = "Touch.OpenFile" -> "Touch.lock" [] pc = "Touch.lock" -> "Touch.lockfile"
                         [] OTHER -> "Touch.Chtimes"
              /\ UNCHANGED <<pvars, att, ent, newk, tmp, junk, rdone, rst, touched, reply, wdone, viol>>
         [] pc = "Touch.Chtimes" ->
              \* Touch does not look at the request context: success is reported
              /\ touched' = TRUE
              /\ pc' = "ok"
              /\ UNCHANGED <<pvars, att, ent, newk, tmp, junk, rdone, rst, reply, wdone, viol>>
         [] pc \in {"WriteBlock.IsFull", "WriteBlock.lock", "WriteBlock.Copy"} ->
              /\ pc' = CASE pc = "WriteBlock.IsFull" -> "WriteBlock.MkdirAll"
                         [] pc = "WriteBlock.lock" -> "WriteBlock.Copy"
                         [] OTHER -> IF cf.n = 0 THEN "WriteBlock.eof" ELSE WriteLabel(1)
              /\ UNCHANGED <<pvars, att, ent, newk, tmp, junk, rdone, rst, touched, reply, wdone, viol>>
         [] pc = "WriteBlock.MkdirAll" ->
              /\ pc' = IF cf.pre = "nodir" THEN AfterFail ELSE "WriteBlock.TempFile"
              /\ UNCHANGED <<pvars, att, ent, newk, tmp, junk, rdone, rst, touched, reply, wdone, viol>>
         [] pc = "WriteBlock.TempFile" ->
              /\ tmp' = 0
              /\ pc' = "WriteBlock.lock"
              /\ UNCHANGED <<pvars, att, ent, newk, junk, rdone, rst, touched, reply, wdone, viol>>
         [] pc \in {"WriteBlock.Write#1", "WriteBlock.Write#2", "WriteBlock.Write#3"} ->
              \* the chunk was read from the pipe before the label; the write may be made to fail
              /\ IF cf.mode = "werr" /\ point = pc
                 THEN /\ pc' = "WriteBlock.errClose" /\ tmp' = tmp
                 ELSE /\ tmp' = tmp + 1
                      /\ pc' = IF tmp + 1 < cf.n THEN WriteLabel(tmp + 2) ELSE "WriteBlock.eof"
              /\ UNCHANGED <<pvars, att, ent, newk, junk, rdone, rst, touched, reply, wdone, viol>>
         [] pc = "WriteBlock.tmpfile.Close" ->
              /\ pc' = "WriteBlock.Chtimes"
              /\ UNCHANGED <<pvars, att, ent, newk, tmp, junk, rdone, rst, touched, reply, wdone, viol>>
         [] pc = "WriteBlock.Chtimes" ->
              /\ pc' = "WriteBlock.OpenFile"
              /\ UNCHANGED <<pvars, att, ent, newk, tmp, junk, rdone, rst, touched, reply, wdone, viol>>
         [] pc = "WriteBlock.OpenFile" ->
              \* open the file being replaced (O_RDWR): absent or a directory -> no flock is taken
              /\ pc' = IF ent = "absent" \/ cf.pre = "dir" THEN "WriteBlock.Rename" ELSE "WriteBlock.lockfile"
              /\ UNCHANGED <<pvars, att, ent, newk, tmp, junk, rdone, rst, touched, reply, wdone, viol>>
         [] pc = "WriteBlock.lockfile" ->
              /\ pc' = "WriteBlock.Rename"
              /\ UNCHANGED <<pvars, att, ent, newk, tmp, junk, rdone, rst, touched, reply, wdone, viol>>
         [] pc = "WriteBlock.Rename" ->
              \* rename(tmp, block path); fails if a directory is there
              /\ IF cf.pre = "dir"
                 THEN /\ pc' = "WriteBlock.Remove" /\ UNCHANGED <<ent, newk, tmp>>
                 ELSE /\ ent' = "new" /\ newk' = tmp /\ tmp' = -1 /\ pc' = "ok"
              /\ UNCHANGED <<pvars, att, junk, rdone, rst, touched, reply, wdone, viol>>
         [] pc = "WriteBlock.errClose" ->
              /\ pc' = "WriteBlock.Remove"
              /\ UNCHANGED <<pvars, att, ent, newk, tmp, junk, rdone, rst, touched, reply, wdone, viol>>
         [] pc = "WriteBlock.Remove" ->
              /\ tmp' = -1
              /\ pc' = AfterFail
              /\ UNCHANGED <<pvars, att, ent, newk, junk, rdone, rst, touched, reply, wdone, viol>>

(* the next read from the pipe: EOF after the last chunk (the copier finished and the pipe was    *)
(* closed normally) or, once the context has ended, the error the pipe was closed with            *)
Eof == /\ pc = "WriteBlock.eof"
       /\ \/ pc' = "WriteBlock.tmpfile.Close"
          \/ cancelled /\ pc' = "WriteBlock.errClose"
       /\ UNCHANGED <<pvars, cf, att, ent, newk, tmp, junk, rdone, rst, touched, cancelled, point, occ, reply, wdone, obs, viol>>

(* once the context has ended, a read of a further chunk fails instead *)
ReadFails == /\ cancelled
             /\ pc \in {"WriteBlock.Write#1", "WriteBlock.Write#2", "WriteBlock.Write#3"}
             /\ pc' = "WriteBlock.errClose"
             /\ UNCHANGED <<pvars, cf, att, ent, newk, tmp, junk, rdone, rst, touched, cancelled, point, occ, reply, wdone, obs, viol>>

Retry == /\ pc = "retry"
         /\ att' = 2
         /\ pc' = "WriteBlock.IsFull"
         /\ UNCHANGED <<pvars, cf, ent, newk, tmp, junk, rdone, rst, touched, cancelled, point, occ, reply, wdone, obs, viol>>

(* the writer has finished; the handler answers unless it already did (cancel) *)
Finish == /\ pc \in {"ok", "failed"}
          /\ wdone' = TRUE
          /\ IF reply = 0
             THEN \E st \in (IF pc = "ok" THEN (IF cancelled /\ ~touched THEN {200, 503} ELSE {200})
                              ELSE IF cancelled THEN {503} ELSE {500}) : Answer(st)
             ELSE UNCHANGED <<pvars, reply, viol>>
          /\ pc' = "end"
          /\ UNCHANGED <<cf, att, ent, newk, tmp, junk, rdone, rst, touched, cancelled, point, occ, obs>>

(* mode "kill": the process dies at the current label (before its system call) *)
Crash == /\ cf.mode = "kill" /\ point = "" /\ pc \in Labels /\ reply = 0
         /\ point' = pc /\ occ' = att
         /\ C!OutcomeEff("crash", 0)
         /\ viol' = (viol \/ ~C!OutcomeOk("crash", 0))
         /\ junk' = IF tmp >= 0 THEN junk + 1 ELSE junk
         /\ pc' = "dead"
         /\ wdone' = TRUE
         /\ UNCHANGED <<cf, att, ent, newk, tmp, rdone, rst, touched, cancelled, reply, obs>>

(* mode "killack": the process dies right after the acknowledgement *)
CrashAfterAck == /\ cf.mode = "killack" /\ pc = "end" /\ point = "" /\ obs = 0
                 /\ point' = "ack"
                 /\ C!RestartEff
                 /\ UNCHANGED <<cf, pc, att, ent, newk, tmp, junk, rdone, rst, touched, cancelled, occ, reply, wdone, obs, viol>>

(* mode "cancel": the client goes away at the current label.  Inside Compare and WriteBlock the   *)
(* handler returns 503 at once (putWithPipe / CompareAndTouch see ctx.Done) and the writer goes   *)
(* on by itself; Touch ignores the context.                                                       *)
Cancel == /\ cf.mode = "cancel" /\ point = "" /\ pc \in Labels /\ reply = 0
          \* with a rival: cancelled after the rival's acknowledgement, at a later label
          /\ (cf.rival # "" => (rdone /\ pc # cf.rival))
          /\ point' = pc /\ occ' = att
          /\ cancelled' = TRUE
          /\ IF pc \in {"Touch.OpenFile", "Touch.lock", "Touch.lockfile", "Touch.Chtimes", "Compare.stat", "Compare.getFunc"}
             THEN UNCHANGED <<pvars, reply, viol>>
             ELSE \/ Answer(503)
                  \/ UNCHANGED <<pvars, reply, viol>>     \* the select in putWithPipe may still pick the result
          /\ UNCHANGED <<cf, pc, att, ent, newk, tmp, junk, rdone, rst, touched, wdone, obs>>
          \* (point', occ', cancelled' are set above)

(* The rival upload, atomically: its CompareAndTouch finds nothing usable (this upload is past its own, so the   *)
(* block was absent or corrupt), it writes its own temp file and renames it into place, and is acknowledged.     *)
RivalPut == /\ cf.rival # "" /\ ~rdone /\ pc = cf.rival /\ att = 1 /\ point \in {"", "WriteBlock.Write#1", "WriteBlock.Write#2", "WriteBlock.Write#3"}
            /\ ~cancelled /\ (cf.mode = "werr" => point # "" /\ point # pc)
            \* at Rename this upload holds the flock of the file it replaces: a rival could not get past its own
            \* lockfile before this one has renamed, so "the rival runs to its end here" is not a behaviour
            /\ ~(pc = "WriteBlock.Rename" /\ ent # "absent" /\ cf.pre # "dir")
            /\ rdone' = TRUE
            /\ ent' = "rival"
            /\ C!RivalAckEff
            /\ UNCHANGED <<cf, pc, att, newk, tmp, junk, rst, touched, cancelled, point, occ, reply, wdone, obs, viol>>

(* The stalling rival.  Begin: it is past its CompareAndTouch and creates its temp file (with unique temp names   *)
(* nothing this upload can see).  End, after this upload has been answered: the client goes away (its temp file  *)
(* is removed) or it finishes (rename of ITS complete file, acknowledged).                                       *)
RivalBegin == /\ cf.rival2 # "" /\ rst = "no" /\ pc = cf.rival2 /\ att = 1
              /\ rst' = "open"
              /\ tmp' = IF SharedTmp /\ tmp >= 0 THEN 0 ELSE tmp
              /\ UNCHANGED <<pvars, cf, pc, att, ent, newk, junk, rdone, touched, cancelled, point, occ, reply, wdone, obs, viol>>

RivalEnd == /\ rst = "open" /\ pc = "end" /\ wdone
            /\ \/ /\ rst' = "abort"
                  /\ UNCHANGED <<pvars, ent>>
               \/ /\ rst' = "finish"
                  /\ ent' = "rival"
                  /\ C!RivalAckEff
            /\ UNCHANGED <<cf, pc, att, newk, tmp, junk, rdone, touched, cancelled, point, occ, reply, wdone, obs, viol>>

(* mode "werr": choose the chunk whose write fails *)
ChooseErr == /\ cf.mode = "werr" /\ point = "" /\ pc = "start"
             /\ \E k \in 1 .. cf.n : point' = WriteLabel(k)
             /\ occ' = 1
             /\ UNCHANGED <<pvars, cf, pc, att, ent, newk, tmp, junk, rdone, rst, touched, cancelled, reply, wdone, obs, viol>>

-----------------------------------------------------------------------------
(* Observation by a fresh handler (or the same one) once nothing is running *)
Complete == (ent = "new" /\ newk = cf.n) \/ (ent = "pre" /\ cf.pre = "intact_old") \/ ent = "rival"
GetClass == IF Complete THEN "complete"
            ELSE IF ent = "new" THEN "partial"      \* a short file would be served as an error by GET
                                                    \* (re-hash) but it would be LISTED: see IndexClass
            ELSE "error"
GetSeen  == IF GetClass = "partial" THEN "error" ELSE GetClass
IndexClass == IF ent = "absent" THEN <<>>
              ELSE IF Complete THEN <<"complete">>
              ELSE IF ent = "pre" THEN <<"pre">> ELSE <<"other">>
TmpListed == IF TmpLooksLikeBlock /\ (junk > 0 \/ tmp >= 0) THEN <<"other">> ELSE <<>>

Observe ==
    /\ (pc = "dead" \/ (pc = "end" /\ wdone /\ (cf.mode # "killack" \/ point = "ack")))
    /\ rst # "open"
    /\ obs < 4
    /\ obs' = obs + 1
    /\ CASE obs = 0 -> /\ C!RestartEff /\ UNCHANGED viol
         [] obs = 1 -> /\ C!ObserveEff /\ viol' = (viol \/ ~C!GetOk(GetSeen))
         [] obs = 2 -> /\ C!ObserveEff /\ viol' = (viol \/ ~C!IndexOk(IndexClass \o TmpListed))
         [] obs = 3 -> /\ C!ObserveEff
                       /\ viol' = (viol \/ ~C!DirScanOk(IF ent = "absent" THEN "absent" ELSE IndexClass[1],
                                                        TmpLooksLikeBlock /\ (junk > 0 \/ tmp >= 0)))
    /\ UNCHANGED <<cf, pc, att, ent, newk, tmp, junk, rdone, rst, touched, cancelled, point, occ, reply, wdone>>

Next == Start \/ Step \/ RivalPut \/ RivalBegin \/ RivalEnd \/ Eof \/ ReadFails \/ Retry \/ Finish \/ Crash \/ CrashAfterAck \/ Cancel \/ ChooseErr \/ Observe

Spec == Init /\ [][Next]_vars

-----------------------------------------------------------------------------
TypeOK == /\ tmp \in -1 .. 3 /\ newk \in 0 .. 3 /\ att \in 1 .. 2 /\ obs \in 0 .. 4
          /\ ent \in {"absent", "pre", "new", "rival"}

(* the contract is never breached *)
ContractHolds == ~viol

(* "write to a temp name, rename last": in EVERY state (the process may die in any of them) the    *)
(* block path names nothing, what was there before, or the complete new block                     *)
AllOrNothing == ent = "new" => newk = cf.n

(* an acknowledged PUT left a complete block (or touched the intact one) *)
AckMeansStored == acked => Complete

(* temp files are removed on every error path that is not a crash *)
NoLeftovers == (pc = "end" /\ wdone) => (tmp = -1 /\ junk = 0)

-----------------------------------------------------------------------------
(* Scenario emission: one record per (pre, size, mode, point) *)
Emit == (obs = 4) =>
          Serialize(<<[id |-> 0, pre |-> cf.pre, n |-> cf.n, mode |-> cf.mode, point |-> point, occ |-> occ, rival |-> cf.rival, rdone |-> rdone, rival2 |-> cf.rival2, rst |-> rst,
                       expect_reply |-> reply, expect_ent |-> ent]>>,
                    IOEnv.VERIF_OUT,
                    [format |-> "NDJSON", charset |-> "UTF-8",
                     openOptions |-> <<"WRITE", "CREATE", "APPEND">>])
=============================================================================
