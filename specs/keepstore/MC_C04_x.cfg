SPECIFICATION Spec
CONSTANTS
  MinVols = 1
  MaxVols = 2
  TTL = 2
  Lives = {2}
  Serial = {FALSE, TRUE}
  Trashing = {TRUE, FALSE}
  WKinds = {"none", "put", "touch"}
  TKinds = {"none", "delete", "list_eq"}
  XKinds = {"untrash", "empty"}
  MaxActors = 2
  PreSet = {"none", "intact_old", "intact_young", "corrupt_old"}
  PreTrash = {"none", "live", "expired"}
  ROSets = {{}, {2}}
  TickSizes = {2}
  MaxTicks = 1
  Filter = "none"
  NoLockSet = {FALSE}
  TickInList = TRUE
  WBFlock = TRUE
  POR = FALSE
  MaxHist = 0
VIEW view
INVARIANTS TypeOK ContractHolds RaceNeedsUntrash AckedSurvives LockDiscipline MutexDiscipline
CHECK_DEADLOCK FALSE
