------------------------ MODULE KeepstorePutContract ------------------------
(***************************************************************************)
(* C02 - "keepstore PUT is all-or-nothing and survives process death once  *)
(* acknowledged": the contract, over observable events only, for ONE PUT   *)
(* of one block (hash H) to one keepstore server with Directory volumes.   *)
(*                                                                         *)
(* Observables                                                             *)
(*   PutStart(pre)      the harness starts a PUT; pre = what it had placed *)
(*                      at the block path before ("none", "intact_old",    *)
(*                      "corrupt_old", "dir" = a directory, used to make   *)
(*                      rename fail, "nodir" = a regular file where the    *)
(*                      block directory should be, to make mkdir fail)     *)
(*   Outcome(kind, st)  how the PUT ended, as seen by the client/harness:  *)
(*                      "reply"  the handler answered with status st       *)
(*                      "crash"  the process was killed (st = 0)           *)
(*   RivalAck           a second PUT of the same block, overlapping this   *)
(*                      one, was answered 2xx                              *)
(*   Restart            a new handler (process) is started on the same     *)
(*                      volume directories                                 *)
(*   Get(class)         reply to GET /H afterwards:                        *)
(*                      "complete"  2xx and the body is the block          *)
(*                      "error"     an error status                        *)
(*                      "partial"   2xx with any other body                *)
(*   Index(entries)     lines of GET /index afterwards, each abstracted to *)
(*                      "complete"  name H, size = length of the block and *)
(*                                  the file holds the complete block      *)
(*                      "pre"       name H and the file is exactly what    *)
(*                                  the harness had placed (corrupt copy,  *)
(*                                  directory): not this PUT's doing       *)
(*                      "other"     anything else (wrong size, partial     *)
(*                                  file, a temp file listed as a block)   *)
(*   IndexDuring(entries) lines of a GET /index answered WHILE the PUT is  *)
(*                      being processed (same abstraction; a line "H+size" *)
(*                      whose size is that of the block is "complete", of  *)
(*                      the placed copy "pre")                             *)
(*   DirScan(blk, tmpblk) the block directory: blk = class of the file at  *)
(*                      the block path ("absent" or as for Index);         *)
(*                      tmpblk = some OTHER file there has a name that     *)
(*                      keepstore would take for a block (32 hex digits)   *)
(*                                                                         *)
(* Statement clauses and where they are                                    *)
(*  (a) "Once keepstore has answered 200 to a PUT, the complete block is   *)
(*      retrievable from that server even if the process is killed         *)
(*      immediately afterwards and a new process is started"               *)
(*                      acked (this PUT or an overlapping one of the same  *)
(*                      block) => Get = "complete" (GetOk), before and     *)
(*                      after Restart                                      *)
(*  (b) "If the process dies, the client disconnects or the write fails at *)
(*      any earlier instant, a later GET returns either an error status or *)
(*      the complete correct block, never partial or mixed data"           *)
(*                      GetOk: class # "partial"                           *)
(*  (c) "the block index lists only complete blocks with their true sizes" *)
(*                      IndexOk: no entry is "other"; the same at every    *)
(*                      instant of the write (IndexDuringOk)               *)
(*  (d) "temporary files left behind are never visible as blocks"          *)
(*                      IndexOk (a temp file listed is "other"), GetOk     *)
(* Silent, hence unconstrained: the status of a failed PUT; whether a PUT  *)
(* that was not acknowledged left the complete block behind; whether temp  *)
(* files are left behind at all.                                           *)
(*                                                                         *)
(* XOk / XEff split as in KeepstoreGCContract.                             *)
(***************************************************************************)
EXTENDS Naturals, Sequences

VARIABLES phase,    \* "idle" | "running" | "ended"
          pre,      \* what was at the block path before the PUT
          acked     \* the PUT was answered 2xx

pvars == <<phase, pre, acked>>

Pres == {"none", "intact_old", "corrupt_old", "dir", "nodir"}

PInit == phase = "idle" /\ pre = "none" /\ acked = FALSE

PutStartEff(p) == phase' = "running" /\ pre' = p /\ acked' = FALSE

OutcomeOk(kind, st) == phase = "running" /\ kind \in {"reply", "crash"}
OutcomeEff(kind, st) == /\ phase' = "ended"
                        /\ acked' = (acked \/ (kind = "reply" /\ st >= 200 /\ st < 300))
                        /\ UNCHANGED pre

(* a second, overlapping PUT of the same block to the same server was answered 2xx while this one is *)
(* being processed: from now on (a) applies, whatever becomes of this one                            *)
RivalAckEff == phase' = phase /\ pre' = pre /\ acked' = TRUE

RestartEff == UNCHANGED pvars

GetOk(class) == /\ class \in {"complete", "error"}                 \* (b)
                /\ acked => class = "complete"                     \* (a)

(* (that the index LISTS an acknowledged block is not in the statement - only that what it lists is  *)
(*  complete; checks/C02.py reports a missing entry as drift)                                        *)
IndexOk(entries) == \A i \in DOMAIN entries : entries[i] \in {"complete", "pre"}             \* (c) (d)

IndexDuringOk(entries) == \A i \in DOMAIN entries : entries[i] \in {"complete", "pre"}          \* (c) (d)

(* The directory scan depends on today's on-disk layout (<root>/<hash[:3]>/<hash>, 32 hex digits); what  *)
(* the statement says about visibility is judged through Get and Index.  The scan is recorded, and      *)
(* checks/C02.py reports "a temp file has a block-like name" / "acknowledged but no complete file at     *)
(* the block path" as drift.                                                                             *)
DirScanOk(blk, tmpblk) == TRUE

ObserveEff == UNCHANGED pvars

PutStart(p)        == phase = "idle" /\ p \in Pres /\ PutStartEff(p)
Outcome(kind, st)  == OutcomeOk(kind, st) /\ OutcomeEff(kind, st)
RivalAck           == phase \in {"running", "ended"} /\ RivalAckEff
Restart            == phase = "ended" /\ RestartEff
Get(class)         == phase = "ended" /\ GetOk(class) /\ ObserveEff
Index(entries)     == phase = "ended" /\ IndexOk(entries) /\ ObserveEff
DirScan(blk, tb)   == phase = "ended" /\ DirScanOk(blk, tb) /\ ObserveEff
IndexDuring(entries) == phase \in {"running", "ended"} /\ IndexDuringOk(entries) /\ ObserveEff
=============================================================================
