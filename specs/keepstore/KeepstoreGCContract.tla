------------------------ MODULE KeepstoreGCContract ------------------------
(***************************************************************************)
(* C04 - "a freshly written or touched block survives garbage collection   *)
(* for the TTL": the contract, over observable events only, for ONE block  *)
(* hash H on one keepstore server with Directory volumes 1..n (numbered in *)
(* the server's own mount order).                                          *)
(*                                                                         *)
(* Observables                                                             *)
(*   - the configuration the harness gave the server: read-only volumes,   *)
(*     BlobTrash, BlobTrashLifetime, BlobSigningTTL (in time units)        *)
(*   - a virtual clock `now` (time units; the harness advances it, Tick)   *)
(*   - requests and replies at the HTTP interface, logged as call/ret      *)
(*     pairs (requests may overlap): PUT, TOUCH, DELETE, PUT /trash (one   *)
(*     item), PUT /untrash, GET; and the periodic sweep EmptyTrash         *)
(*   - scans of the volume directories taken by the harness at quiescence: *)
(*     per volume  st  "absent" | "intact" | "corrupt"  (file <H>)         *)
(*                 mt  its stored timestamp (opaque token, compared for     *)
(*                     equality with the timestamp named in a trash item)   *)
(*                 mtu the same timestamp in whole time units               *)
(*                 tr  the deadlines (time units) of the files              *)
(*                     <H>.trash.<deadline> (deadline parsed as an integer  *)
(*                     number of seconds)                                   *)
(*                                                                         *)
(* Statement clauses and where they are                                    *)
(*  (a) "If keepstore acknowledges a PUT or TOUCH of a block at time t,    *)
(*      then no trash-list entry, DELETE request or trash-emptying sweep   *)
(*      removes that block from that server before t + TTL, under every    *)
(*      interleaving"         Ret(put|touch, 200) raises prot; ScanOk (a): *)
(*                            now < prot => some volume holds the file.    *)
(*      t is taken as the time the request was CALLED (<= time of the      *)
(*      acknowledgement; to the code's benefit, the clock may tick while   *)
(*      the request runs).  The copies the harness places initially count  *)
(*      as acknowledged at their timestamp ("arbitrary initial block ages  *)
(*      relative to the TTL"; the stored timestamp is the time of the last *)
(*      successful Put/Touch); corrupt placed files are not "that block"   *)
(*      and protect nothing.                                               *)
(*  (b) "A trash request acts only on a replica whose stored timestamp     *)
(*      equals the timestamp named in the request, only on writable        *)
(*      volumes and only when trashing is enabled"                         *)
(*                            ScanOk (b): when a DELETE, trash-list item or *)
(*                            EmptyTrash ran since the previous scan, a      *)
(*                            replica that was there and is gone now needs   *)
(*                            an ENTITLED trash event (Entitled).  What      *)
(*                            other requests do to replicas is not the       *)
(*                            statement's business (clause (a) still is).    *)
(*  (c) "a trashed block can be brought back with untrash until its trash  *)
(*      lifetime has elapsed (deadlines are kept to whole seconds)"        *)
(*                            ScanOk (c): a new trash file has deadline >=  *)
(*                            (time of previous scan) + lifetime;           *)
(*                            after an untrash that ran alone while a       *)
(*                            trashed copy with deadline > now existed on a *)
(*                            writable volume the block is there (ScanOk,   *)
(*                            last clause) unless an entitled trash request *)
(*                            ran as well; its status is not constrained.   *)
(*  (d) "emptying the trash deletes only trashed copies whose deadline has *)
(*      passed"               ScanOk (d): a trash file disappears only if   *)
(*                            an EmptyTrash ran at a time >= its deadline,  *)
(*                            or an untrash ran.                            *)
(* Silent in the statement, hence unconstrained: whether an entitled trash *)
(* request actually trashes; reply codes of DELETE / PUT /trash; whether   *)
(* EmptyTrash removes expired copies; which volume a PUT writes to; how a  *)
(* young replica is treated while ANOTHER replica keeps the block on the   *)
(* server (clause (a) is per server, not per replica).                     *)
(*                                                                         *)
(* Every event is split into a state predicate XOk (the obligation) and an *)
(* action XEff (the bookkeeping).  The trace spec uses XOk /\ XEff; the    *)
(* implementation-shaped model KeepVolume uses XEff and accumulates        *)
(* ~XOk in a ghost flag, so that a contract breach is a reachable state,   *)
(* not a disabled action.                                                  *)
(***************************************************************************)
EXTENDS Integers, FiniteSets

VARIABLES cc,      \* [n, ro : SUBSET 1..n, trash : BOOLEAN, life, ttl]
          now,     \* virtual clock
          prot,    \* the block must be on the server while now < prot
          seen,    \* latest scan: [1..n -> [st, mt, mtu, tr]]
          tscan,   \* time of the latest scan
          quiet,   \* no request was called since the latest scan
          pend,    \* requests in flight: id -> [op, t0, ...]
          ent,     \* volumes for which an entitled trash event ran since the latest scan
          empAt,   \* latest time an EmptyTrash returned since the latest scan (NegInf if none)
          unt,     \* an untrash ran since the latest scan
          must,    \* an untrash that was obliged to succeed ran since the latest scan
          gc       \* a DELETE, trash-list item or EmptyTrash returned since the latest scan

cvars == <<cc, now, prot, seen, tscan, quiet, pend, ent, empAt, unt, must, gc>>

NegInf == -100000
Max(a, b) == IF a >= b THEN a ELSE b
SetMax(S) == IF S = {} THEN NegInf ELSE CHOOSE x \in S : \A y \in S : x >= y

VolsOf(c)  == 1 .. c.n
Writable   == VolsOf(cc) \ cc.ro
Ids        == 1 .. 3
NoReq      == [op |-> "none", t0 |-> 0, sole |-> FALSE, mount |-> 0, req |-> 0]

(* only INTACT placed copies count as acknowledged blocks (a corrupt file is not "that block") *)
InitProt(c, scan) == SetMax({scan[v].mtu + c.ttl : v \in {w \in VolsOf(c) : scan[w].st = "intact"}})

(* reset: configuration + first scan *)
CInit(c, scan) ==
    /\ cc = c
    /\ now = 0
    /\ prot = InitProt(c, scan)
    /\ seen = scan
    /\ tscan = 0
    /\ quiet = TRUE
    /\ pend = [i \in Ids |-> NoReq]
    /\ ent = {}
    /\ empAt = NegInf
    /\ unt = FALSE
    /\ must = FALSE
    /\ gc = FALSE

ResetEff(c, scan) ==
    /\ cc' = c
    /\ now' = 0
    /\ prot' = InitProt(c, scan)
    /\ seen' = scan
    /\ tscan' = 0
    /\ quiet' = TRUE
    /\ pend' = [i \in Ids |-> NoReq]
    /\ ent' = {}
    /\ empAt' = NegInf
    /\ unt' = FALSE
    /\ must' = FALSE
    /\ gc' = FALSE

(* the harness advances the clock *)
TickEff(d) == /\ now' = now + d
              /\ UNCHANGED <<cc, prot, seen, tscan, quiet, pend, ent, empAt, unt, must, gc>>

(* A request is called: op, and for op = "trashlist" the target mount (0 = every volume) and the  *)
(* timestamp token named in the item.  sole = nothing else happens between the scan before it and  *)
(* its return.                                                                                    *)
CallEff(id, op, mount, req) ==
    /\ pend' = [j \in Ids |->
                  IF j = id
                  THEN [op |-> op, t0 |-> now, mount |-> mount, req |-> req,
                        sole |-> quiet /\ \A i \in Ids : pend[i].op = "none"]
                  ELSE [pend[j] EXCEPT !.sole = FALSE]]
    /\ quiet' = FALSE
    /\ UNCHANGED <<cc, now, prot, seen, tscan, ent, empAt, unt, must, gc>>

LiveTrash == \E v \in Writable : \E d \in seen[v].tr : d > now

(* (b): volumes on which a trash request is entitled to remove the replica *)
Entitled(r) ==
    IF ~cc.trash THEN {}
    ELSE IF r.op = "delete" THEN Writable
    ELSE IF r.op = "trashlist"
         THEN {v \in Writable : /\ (r.mount = 0 \/ r.mount = v)
                                /\ \/ seen[v].st # "absent" /\ seen[v].mt = r.req
                                   \* an untrash since the scan (or still running) may have put back a
                                   \* copy with another timestamp: the scan cannot tell, so allow
                                   \/ unt \/ \E j \in Ids : pend[j].op = "untrash"}
    ELSE {}

(* obligations on the reply *)
RetOk(id, status) ==
    \* no obligation on any status: that an untrash "can bring the block back" is judged by its effect
    \* (ScanOk, last clause; the handler may answer 500 "untrashed on X; failed on Y" and still have done it);
    \* that a GET inside the protected period succeeds is C01's obligation (drift in checks/C04.py)
    pend[id].op # "none"

RetEff(id, status) ==
    LET p == pend[id] IN
    /\ pend' = [pend EXCEPT ![id] = NoReq]
    /\ prot' = IF p.op \in {"put", "touch"} /\ status = 200
               THEN Max(prot, p.t0 + cc.ttl) ELSE prot                                \* (a)
    /\ ent' = ent \cup Entitled(p)                                                    \* (b)
    /\ empAt' = IF p.op = "empty" THEN Max(empAt, now) ELSE empAt                     \* (d)
    /\ unt' = (unt \/ p.op = "untrash")
    /\ must' = (must \/ (p.op = "untrash" /\ p.sole /\ LiveTrash))
    /\ gc' = (gc \/ p.op \in {"delete", "trashlist", "empty"})
    /\ UNCHANGED <<cc, now, seen, tscan, quiet>>

(* the harness scans the volume directories (only when no request is in flight) *)
ScanOk(s) ==
    /\ now < prot => \E v \in VolsOf(cc) : s[v].st # "absent"                          \* (a)
    /\ \A v \in VolsOf(cc) :
          /\ (gc /\ seen[v].st # "absent" /\ s[v].st = "absent") => v \in ent          \* (b)
          /\ \A d \in s[v].tr \ seen[v].tr : d >= tscan + cc.life                      \* (c)
          /\ \A d \in seen[v].tr \ s[v].tr : d <= empAt \/ unt                         \* (d)
    /\ (must /\ ent = {}) => \E v \in VolsOf(cc) : s[v].st # "absent"                  \* (c)

ScanEff(s) ==
    /\ seen' = s
    /\ tscan' = now
    /\ quiet' = TRUE
    /\ ent' = {}
    /\ empAt' = NegInf
    /\ unt' = FALSE
    /\ must' = FALSE
    /\ gc' = FALSE
    /\ UNCHANGED <<cc, now, prot, pend>>

(* GET /index (beyond C04's statement; C02 clause "the block index lists only complete blocks     *)
(* with their true sizes", here while writes, pulls and trash requests run concurrently): every    *)
(* line naming H is "complete" (size = length of the block, or of the copy the harness placed).    *)
IndexOk(entries) == \A i \in DOMAIN entries : entries[i] = "complete"

Tick(d)         == d >= 0 /\ TickEff(d)
Call(id, op, mount, req) == pend[id].op = "none" /\ CallEff(id, op, mount, req)
Ret(id, status) == RetOk(id, status) /\ RetEff(id, status)
Scan(s)         == ScanOk(s) /\ ScanEff(s)
=============================================================================
