------------------------- MODULE KeepstoreContract -------------------------
(***************************************************************************)
(* C01 - contract of keepstore block integrity, over observable events     *)
(* only (quiescent server, one request at a time, one block hash H).       *)
(*                                                                         *)
(* Observables                                                             *)
(*   - what the harness did to the environment: the volume set (1..nvol in *)
(*     the server's own volume order, ro[v]), and the copy of H it placed   *)
(*     on every volume, as a content class                                 *)
(*        absent   no file                                                 *)
(*        intact   the bytes whose MD5 is H                                *)
(*        flip     one bit flipped        trunc  a proper prefix           *)
(*        ext      bytes appended         subst  a different valid block   *)
(*        empty    zero-length file  (for H = MD5("") this IS intact)      *)
(*        bad      anything else that is neither absent nor intact (used   *)
(*                 by the driver when it classifies files after a request) *)
(*   - requests and replies at the HTTP interface: GET/HEAD give           *)
(*     (status, bodyok, lenok), PUT gives (bodyok, status) where           *)
(*        bodyok (GET)  MD5(received body) = H                             *)
(*        bodyok (HEAD) TRUE (no body is transferred)                      *)
(*        lenok         no Content-Length was reported, or it equals the   *)
(*                      number of body bytes received (GET) / the length   *)
(*                      of the block whose MD5 is H (HEAD)                 *)
(*        bodyok (PUT)  MD5(request body) = H                              *)
(*   - post: the content class of the file of H on every volume right      *)
(*     after the reply (property anchors: "files under each Directory      *)
(*     volume root before and after the request").  It is taken as the new *)
(*     environment state; the contract puts NO constraint on it.           *)
(*                                                                         *)
(* Statement clauses and where they are                                    *)
(*  (a) "GET or HEAD succeeds only with a body whose MD5 is H and whose    *)
(*      length is the length it reports, whatever bytes are stored"        *)
(*                              Read: Success(status) => bodyok /\ lenok   *)
(*  (b) "a corrupt, truncated, extended or substituted copy on one volume  *)
(*      is passed over in favour of an intact copy on another volume"      *)
(*                              Read: HasIntact => Success(status)         *)
(*  (c) "if no intact copy exists an error status is returned instead of   *)
(*      data"                   Read: ~HasIntact /\ ~must => ~Success      *)
(*  (d) "A PUT to hash H is acknowledged only if the MD5 of the request    *)
(*      body is H"              Put: Success(status) => bodyok             *)
(*  (e) "once it is acknowledged an intact copy is retrievable even if a   *)
(*      corrupt copy of H was already present on some volume"              *)
(*                              Put sets must; Read: must => Success       *)
(*                              (and then (a) makes the body right)        *)
(* Silent in the statement, hence unconstrained here: which error status;  *)
(* whether a PUT with a good body is acknowledged (full / read-only        *)
(* volumes); what any request does to the files (post is free).  The       *)
(* obligation (e) is dropped as soon as the harness itself rewrites a copy *)
(* (Corrupt), after which (b)/(c) apply to the observed files.             *)
(***************************************************************************)
EXTENDS Naturals, Sequences

VARIABLES nvol,     \* number of volumes
          ro,       \* sequence of BOOLEAN, ro[v] = volume v is read-only
          copy,     \* sequence of content classes, copy[v] = copy of H on volume v
          emptyh,   \* H is the hash of the empty block
          must      \* a PUT of H was acknowledged and the harness has not rewritten a copy since

cvars == <<nvol, ro, copy, emptyh, must>>

CopyStates == {"absent", "intact", "flip", "trunc", "ext", "subst", "empty", "bad"}

Success(status) == status >= 200 /\ status < 300

IsIntact(c)   == c = "intact" \/ (emptyh /\ c = "empty")
HasIntact(cp) == \E v \in 1 .. nvol : IsIntact(cp[v])

CopyVec(cp) == /\ Len(cp) = nvol
               /\ \A v \in 1 .. nvol : cp[v] \in CopyStates

CInit(n, r, c, e) == /\ nvol = n
                     /\ ro = r
                     /\ copy = c
                     /\ emptyh = e
                     /\ must = FALSE

(* The harness rewrites (or removes) the file of H on volume v. *)
Corrupt(v, k) == /\ v \in 1 .. nvol
                 /\ k \in CopyStates
                 /\ copy' = [copy EXCEPT ![v] = k]
                 /\ must' = FALSE
                 /\ UNCHANGED <<nvol, ro, emptyh>>

(* GET or HEAD of H answered. *)
Read(status, bodyok, lenok, post) ==
    /\ Success(status) => (bodyok /\ lenok)                       \* (a)
    /\ HasIntact(copy) => Success(status)                         \* (b)
    /\ must => Success(status)                                    \* (e)
    /\ (~HasIntact(copy) /\ ~must) => ~Success(status)            \* (c)
    /\ CopyVec(post)
    /\ copy' = post
    /\ must' = FALSE
    /\ UNCHANGED <<nvol, ro, emptyh>>

GetReq(status, bodyok, lenok, post)  == Read(status, bodyok, lenok, post)
HeadReq(status, bodyok, lenok, post) == Read(status, bodyok, lenok, post)

(* PUT to H answered. *)
Put(bodyok, status, post) ==
    /\ Success(status) => bodyok                                  \* (d)
    /\ CopyVec(post)
    /\ copy' = post
    /\ must' = (must \/ Success(status))                          \* (e)
    /\ UNCHANGED <<nvol, ro, emptyh>>

TypeOK == /\ nvol \in Nat
          /\ must \in BOOLEAN
          /\ emptyh \in BOOLEAN
          /\ Len(copy) = nvol
=============================================================================
