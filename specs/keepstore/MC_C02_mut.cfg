SPECIFICATION Spec
CONSTANTS
  Rivals2 = {""}
  SharedTmp = FALSE
  Rivals = {""}
  Chunks = {0, 1, 3}
  Pres = {"none", "intact_old", "corrupt_old", "dir", "nodir"}
  Modes = {"none", "kill", "killack", "cancel", "werr"}
  TmpLooksLikeBlock = TRUE
INVARIANTS TypeOK ContractHolds AllOrNothing AckMeansStored NoLeftovers
CHECK_DEADLOCK FALSE
