SPECIFICATION Spec
CONSTANTS
  Rivals2 = {"", "WriteBlock.lock", "WriteBlock.Write#1", "WriteBlock.Write#2", "WriteBlock.Write#3", "WriteBlock.tmpfile.Close", "WriteBlock.Chtimes", "WriteBlock.OpenFile", "WriteBlock.Rename"}
  SharedTmp = TRUE
  Rivals = {"", "WriteBlock.TempFile", "WriteBlock.Copy", "WriteBlock.Write#1", "WriteBlock.Write#2", "WriteBlock.Write#3", "WriteBlock.tmpfile.Close", "WriteBlock.Chtimes", "WriteBlock.OpenFile", "WriteBlock.Rename"}
  Chunks = {0, 1, 3}
  Pres = {"none", "intact_old", "corrupt_old", "dir", "nodir"}
  Modes = {"none", "kill", "killack", "cancel", "werr"}
  TmpLooksLikeBlock = FALSE
INVARIANTS TypeOK ContractHolds AllOrNothing AckMeansStored NoLeftovers
CHECK_DEADLOCK FALSE
