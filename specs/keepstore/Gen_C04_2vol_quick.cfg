SPECIFICATION Spec
CONSTANTS
  MinVols = 2
  MaxVols = 2
  TTL = 2
  Lives = {2}
  Serial = {FALSE}
  Trashing = {TRUE}
  WKinds = {"put"}
  TKinds = {"delete"}
  XKinds = {"none"}
  MaxActors = 2
  PreSet = {"none", "corrupt_old"}
  PreTrash = {"none"}
  ROSets = {{}}
  TickSizes = {1}
  MaxTicks = 0
  POR = TRUE
  MaxHist = 80
INVARIANTS Emit
CHECK_DEADLOCK FALSE
