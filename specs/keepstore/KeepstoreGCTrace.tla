-------------------------- MODULE KeepstoreGCTrace --------------------------
(***************************************************************************)
(* Judge for C04: validates ndjson traces recorded from the real keepstore *)
(* (harness/C04_keepstore/c04_driver_test.go) against KeepstoreGCContract. *)
(* Events:                                                                 *)
(*   {"ev":"reset","scn":id,"n":n,"ro":[bool..],"trash":b,"life":L,        *)
(*    "ttl":T,"vols":[{"st":..,"mt":"..","mtu":i,"tr":[i..]}..], ...}      *)
(*   {"ev":"call","id":i,"op":op,"mount":m,"req":"token"}                  *)
(*   {"ev":"ret","id":i,"status":code}                                     *)
(*   {"ev":"tick","d":units}                                               *)
(*   {"ev":"scan","vols":[..]}                                             *)
(*   {"ev":"index","entries":["complete"|"other"..]}                       *)
(***************************************************************************)
EXTENDS KeepstoreGCContract, TraceIO

Range(s) == {s[i] : i \in DOMAIN s}

ScanOf(vs) == [v \in 1 .. Len(vs) |-> [st |-> vs[v].st, mt |-> vs[v].mt, mtu |-> vs[v].mtu,
                                        tr |-> Range(vs[v].tr)]]

TraceInit == /\ l = 1
             /\ CInit([n |-> 1, ro |-> {}, trash |-> TRUE, life |-> 0, ttl |-> 1],
                      [v \in 1 .. 1 |-> [st |-> "absent", mt |-> "0", mtu |-> 0, tr |-> {}]])

TraceReset == /\ IsEvent("reset")
              /\ ResetEff([n |-> Ev.n, ro |-> {v \in 1 .. Ev.n : Ev.ro[v]}, trash |-> Ev.trash,
                           life |-> Ev.life, ttl |-> Ev.ttl],
                          ScanOf(Ev.vols))

TraceCall == IsEvent("call") /\ Call(Ev.id, Ev.op, Ev.mount, Ev.req)
TraceRet  == IsEvent("ret")  /\ Ret(Ev.id, Ev.status)
TraceTick == IsEvent("tick") /\ Tick(Ev.d)
TraceScan == IsEvent("scan") /\ Scan(ScanOf(Ev.vols))
TraceIndex == IsEvent("index") /\ IndexOk(Ev.entries) /\ UNCHANGED cvars

TraceNext == TraceReset \/ TraceCall \/ TraceRet \/ TraceTick \/ TraceScan \/ TraceIndex

TraceSpec == TraceInit /\ [][TraceNext]_<<cvars, l>>
=============================================================================
