SPECIFICATION Spec
CONSTANTS
  MinVols = 1
  MaxVols = 1
  TTL = 2
  Lives = {2}
  Serial = {FALSE, TRUE}
  Trashing = {TRUE}
  WKinds = {"none", "put", "pull", "pull_any"}
  TKinds = {"none", "delete", "list_eq"}
  XKinds = {"none", "index"}
  MaxActors = 3
  PreSet = {"none", "intact_old", "corrupt_old"}
  PreTrash = {"none", "live"}
  ROSets = {{}}
  TickSizes = {2}
  MaxTicks = 0
  Filter = "none"
  NoLockSet = {FALSE}
  TickInList = TRUE
  WBFlock = TRUE
  POR = FALSE
  MaxHist = 0
VIEW view
INVARIANTS IndexNeverAborts
CHECK_DEADLOCK FALSE
