SPECIFICATION Spec
CONSTANTS
  MinVols = 1
  MaxVols = 1
  TTL = 2
  Lives = {2}
  Serial = {FALSE}
  Trashing = {TRUE}
  WKinds = {"none", "put"}
  TKinds = {"none", "delete"}
  XKinds = {"untrash", "empty"}
  MaxActors = 2
  PreSet = {"none", "intact_old", "corrupt_old"}
  PreTrash = {"live", "expired"}
  ROSets = {{}}
  TickSizes = {2}
  MaxTicks = 1
  POR = TRUE
  MaxHist = 80
INVARIANTS Emit
CHECK_DEADLOCK FALSE
