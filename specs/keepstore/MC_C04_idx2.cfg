SPECIFICATION Spec
CONSTANTS
  MinVols = 2
  MaxVols = 2
  TTL = 2
  Lives = {2}
  Serial = {FALSE}
  Trashing = {TRUE}
  WKinds = {"none", "put", "pull", "pull_any"}
  TKinds = {"none", "delete", "list_eq"}
  XKinds = {"none", "index"}
  MaxActors = 2
  PreSet = {"none", "intact_old", "corrupt_old"}
  PreTrash = {"none", "live"}
  ROSets = {{}, {2}}
  TickSizes = {2}
  MaxTicks = 0
  Filter = "none"
  NoLockSet = {FALSE}
  TickInList = TRUE
  WBFlock = TRUE
  POR = FALSE
  MaxHist = 0
VIEW view
INVARIANTS TypeOK NoViolation IndexComplete AckedSurvives LockDiscipline MutexDiscipline
CHECK_DEADLOCK FALSE
