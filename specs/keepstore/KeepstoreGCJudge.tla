-------------------------- MODULE KeepstoreGCJudge --------------------------
(***************************************************************************)
(* Judge for C04, all traces at once.  Same events and same contract as    *)
(* KeepstoreGCTrace, but every recorded execution is its own INITIAL       *)
(* state (the state right after its "reset" line), so that a rejected      *)
(* trace does not hide the traces after it: the contract is expected to    *)
(* reject some executions of the unchanged tree (known findings), and one  *)
(* TLC start per rejection (vlib.Ctx.judge) would cost minutes.            *)
(*                                                                         *)
(* The reset line of a trace carries "len" = number of lines of the trace. *)
(* TLC register i (i = line number of the reset) holds the highest line    *)
(* position any behaviour of that trace reached; the trace is accepted iff *)
(* it is i + len.  (-workers 1)                                            *)
(***************************************************************************)
EXTENDS KeepstoreGCContract, TLC, Json, IOUtils, Sequences

VARIABLES l,     \* index of the next unread line
          tr     \* line number of the reset line of the trace being judged

Trace == ndJsonDeserialize(IOEnv.VERIF_TRACE)
ResetLines == {i \in 1 .. Len(Trace) : Trace[i].ev = "reset"}
Ev == Trace[l]

Range(s) == {s[i] : i \in DOMAIN s}
ScanOf(vs) == [v \in 1 .. Len(vs) |-> [st |-> vs[v].st, mt |-> vs[v].mt, mtu |-> vs[v].mtu,
                                        tr |-> Range(vs[v].tr)]]

IsEvent(e) == /\ l < tr + Trace[tr].len
              /\ Trace[l].ev = e
              /\ l' = l + 1
              /\ tr' = tr

JInit == \E i \in ResetLines :
            /\ l = i + 1
            /\ tr = i
            /\ TLCSet(i, i + 1)
            /\ CInit([n |-> Trace[i].n, ro |-> {v \in 1 .. Trace[i].n : Trace[i].ro[v]},
                      trash |-> Trace[i].trash, life |-> Trace[i].life, ttl |-> Trace[i].ttl],
                     ScanOf(Trace[i].vols))

JCall == IsEvent("call") /\ Call(Ev.id, Ev.op, Ev.mount, Ev.req)
JRet  == IsEvent("ret")  /\ Ret(Ev.id, Ev.status)
JTick == IsEvent("tick") /\ Tick(Ev.d)
JScan == IsEvent("scan") /\ Scan(ScanOf(Ev.vols))
JIndex == IsEvent("index") /\ IndexOk(Ev.entries) /\ UNCHANGED cvars

JNext == JCall \/ JRet \/ JTick \/ JScan \/ JIndex

JSpec == JInit /\ [][JNext]_<<cvars, l, tr>>

Mark == IF l > TLCGet(tr) THEN TLCSet(tr, l) ELSE TRUE

Accepted == LET bad == {i \in ResetLines : TLCGet(i) # i + Trace[i].len} IN
            IF bad = {} THEN TRUE
            ELSE /\ PrintT(<<"REJECTED_TRACES", {<<i, TLCGet(i)>> : i \in bad}>>)
                 /\ FALSE
=============================================================================
