SPECIFICATION Spec
CONSTANTS
  MaxVol = 2
INVARIANTS TypeOK AckedIsStored RejectedPutNoChange PutAvailable ReadNoChange
PROPERTIES Refines Terminates
CHECK_DEADLOCK FALSE
