---------------------- MODULE KeepstoreContractTrace ----------------------
(***************************************************************************)
(* Judge for C01: validates ndjson traces recorded from the real keepstore *)
(* (harness/C01_keepstore/c01_driver_test.go) against KeepstoreContract.   *)
(* Events:                                                                 *)
(*   {"ev":"reset","scn":id,"nvol":n,"ro":[bool..],"copy":[class..],       *)
(*    "emptyh":bool, ...concretisation details ignored here...}            *)
(*   {"ev":"corrupt","v":volume,"kind":class}                              *)
(*   {"ev":"get"|"head","status":s,"bodyok":b,"lenok":b,"post":[class..]}  *)
(*   {"ev":"put","bodyok":b,"status":s,"post":[class..]}                   *)
(***************************************************************************)
EXTENDS KeepstoreContract, TraceIO

TraceInit == /\ l = 1
             /\ CInit(0, <<>>, <<>>, FALSE)

TraceReset == /\ IsEvent("reset")
              /\ nvol' = Ev.nvol
              /\ ro' = Ev.ro
              /\ copy' = Ev.copy
              /\ emptyh' = Ev.emptyh
              /\ must' = FALSE

TraceCorrupt == IsEvent("corrupt") /\ Corrupt(Ev.v, Ev.kind)
TraceGet     == IsEvent("get")     /\ GetReq(Ev.status, Ev.bodyok, Ev.lenok, Ev.post)
TraceHead    == IsEvent("head")    /\ HeadReq(Ev.status, Ev.bodyok, Ev.lenok, Ev.post)
TracePut     == IsEvent("put")     /\ Put(Ev.bodyok, Ev.status, Ev.post)

TraceNext == TraceReset \/ TraceCorrupt \/ TraceGet \/ TraceHead \/ TracePut

TraceSpec == TraceInit /\ [][TraceNext]_<<cvars, l>>
=============================================================================
