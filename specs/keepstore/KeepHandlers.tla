---------------------------- MODULE KeepHandlers ----------------------------
(***************************************************************************)
(* Implementation-shaped model of keepstore's block handlers               *)
(* (services/keepstore/handlers.go) over Directory volumes, for one block  *)
(* hash H on a quiescent server.  One action per loop step of the code:    *)
(*                                                                         *)
(*  handleGET (GET and HEAD) -> GetBlock                                    *)
(*     errorToCaller := NotFoundError                           Dispatch   *)
(*     for vol in AllReadable():                                GetStep    *)
(*        size, err := vol.Get()    absent -> IsNotExist -> continue       *)
(*        md5(buf[:size]) != hash   errorToCaller = DiskHashError; continue*)
(*        return size                                           (reply 200)*)
(*     return errorToCaller                                     GetEnd     *)
(*                                                                         *)
(*  handlePUT                                                              *)
(*     len(AllWritable()) == 0 -> 503 Full   (before the body is read)     *)
(*                                                              Dispatch   *)
(*   PutBlock                                                              *)
(*     md5(block) != hash -> 422 RequestHashError               PutMD5     *)
(*     CompareAndTouch: for mnt in AllWritable():               CatStep    *)
(*        Compare: absent -> continue; corrupt -> continue                 *)
(*                 (CollisionError needs an MD5 collision: not modelled)   *)
(*        identical -> Touch -> return 200                                 *)
(*                                                              CatEnd     *)
(*     mnt := NextWritable()  (counter++, writables[counter % n])          *)
(*        mnt.Put ok -> 200 ; FullError -> fall through         NextW      *)
(*     for vol in AllWritable(): Put ok -> 200; Full -> continue AllStep   *)
(*     all full -> 503                                          AllEnd     *)
(*                                                                         *)
(* Volume behaviour as the Directory driver has it: Get/Compare of a file  *)
(* that exists return its bytes whatever they are (ReadBlock's size check  *)
(* is masked by getWithPipe turning ErrUnexpectedEOF into nil; an over-    *)
(* long file gives an error that is passed over like a mismatch);          *)
(* WriteBlock replaces the file by rename, so an old corrupt copy on the   *)
(* chosen volume is overwritten, but one on another volume stays; a volume *)
(* marked full (the "full" symlink) refuses WriteBlock with FullError but  *)
(* still serves Compare/Touch.                                             *)
(*                                                                         *)
(* Init ranges over the whole configuration space (volumes x ro/full x     *)
(* copy classes x round-robin position x request kind x empty/non-empty    *)
(* hash); afterwards the behaviour is deterministic.  The contract's       *)
(* variables are ghost state; Refines says every step is a contract step   *)
(* or a stutter.                                                           *)
(***************************************************************************)
EXTENDS Naturals, Sequences, FiniteSets, TLC, Json, IOUtils

CONSTANTS MaxVol      \* max number of volumes

VARIABLES nvol, ro, copy, emptyh, must,     \* contract ghost state
          cfg,        \* the initial configuration (constant along a behaviour)
          full,       \* sequence of BOOLEAN: volume carries a fresh "full" marker
          counter,    \* RRVolumeManager.counter
          todo,       \* requests still to be made
          cur,        \* request being served
          pc, i, errc,
          replies     \* statuses replied so far

C == INSTANCE KeepstoreContract
cvars == <<nvol, ro, copy, emptyh, must>>
vars  == <<cvars, cfg, full, counter, todo, cur, pc, i, errc, replies>>

Kinds == {"get", "head", "putget", "puthead", "putbadget"}
OpsOf(k) == CASE k = "get"       -> <<"get">>
              [] k = "head"      -> <<"head">>
              [] k = "putget"    -> <<"put", "get">>
              [] k = "puthead"   -> <<"put", "head">>
              [] k = "putbadget" -> <<"putbad", "get">>

\* content classes the harness can produce for a non-empty / the empty block
ClassesOf(e) == IF e THEN {"absent", "intact", "ext", "subst"}
                     ELSE {"absent", "intact", "flip", "trunc", "ext", "subst", "empty"}

\* writable volumes in configuration order (RRVolumeManager.writables)
Wr == SelectSeq([v \in 1 .. nvol |-> v], LAMBDA v : ~ro[v])

Init ==
    \E n \in 1 .. MaxVol, e \in BOOLEAN, k \in Kinds :
    \E r \in [1 .. n -> BOOLEAN], c \in [1 .. n -> ClassesOf(e)] :
    \E f \in [1 .. n -> BOOLEAN] :
    \E rr \in 0 .. (IF Cardinality({v \in 1 .. n : ~r[v]}) > 1
                    THEN Cardinality({v \in 1 .. n : ~r[v]}) - 1 ELSE 0) :
        /\ \A v \in 1 .. n : f[v] => (~r[v] /\ k \notin {"get", "head"})
        /\ k \in {"get", "head"} => rr = 0
        /\ C!CInit(n, r, c, e)
        /\ cfg = [n |-> n, ro |-> r, full |-> f, copy |-> c, emptyh |-> e, rr |-> rr, kind |-> k]
        /\ full = f
        /\ counter = rr
        /\ todo = OpsOf(k)
        /\ cur = "none"
        /\ pc = "idle"
        /\ i = 0
        /\ errc = 0
        /\ replies = <<>>

\* the reply of the request being served; post = the files after the request
Reply(status, ok, post) ==
    /\ replies' = Append(replies, status)
    /\ pc' = "idle"
    /\ cur' = "none"
    /\ CASE cur = "get"    -> C!GetReq(status, ok, ok, post)
         [] cur = "head"   -> C!HeadReq(status, ok, ok, post)
         [] cur = "put"    -> C!Put(TRUE, status, post)
         [] cur = "putbad" -> C!Put(FALSE, status, post)

Dispatch ==
    /\ pc = "idle" /\ todo # <<>>
    /\ LET op == Head(todo) IN
       /\ todo' = Tail(todo)
       /\ IF op \in {"get", "head"}
          THEN /\ cur' = op /\ pc' = "get" /\ i' = 1 /\ errc' = 404
               /\ UNCHANGED <<cvars, replies>>
          ELSE IF Len(Wr) = 0
               THEN \* handlePUT: no writable volume, 503 before the body is read
                    /\ replies' = Append(replies, 503)
                    /\ C!Put(op = "put", 503, copy)
                    /\ UNCHANGED <<cur, pc, i, errc>>
               ELSE /\ cur' = op /\ pc' = "md5"
                    /\ UNCHANGED <<cvars, replies, i, errc>>
    /\ UNCHANGED <<cfg, full, counter>>

GetStep ==
    /\ pc = "get" /\ i <= nvol
    /\ IF copy[i] = "absent"
       THEN /\ i' = i + 1
            /\ UNCHANGED <<cvars, errc, replies, pc, cur>>
       ELSE IF C!IsIntact(copy[i])
       THEN /\ Reply(200, TRUE, copy)
            /\ UNCHANGED <<i, errc>>
       ELSE /\ i' = i + 1 /\ errc' = 500          \* DiskHashError, keep looking
            /\ UNCHANGED <<cvars, replies, pc, cur>>
    /\ UNCHANGED <<cfg, full, counter, todo>>

GetEnd ==
    /\ pc = "get" /\ i > nvol
    /\ Reply(errc, FALSE, copy)
    /\ UNCHANGED <<cfg, full, counter, todo, i, errc>>

PutMD5 ==
    /\ pc = "md5"
    /\ IF cur = "putbad"
       THEN /\ Reply(422, FALSE, copy)
            /\ UNCHANGED <<i>>
       ELSE /\ pc' = "cat" /\ i' = 1
            /\ UNCHANGED <<cvars, replies, cur>>
    /\ UNCHANGED <<cfg, full, counter, todo, errc>>

\* CompareAndTouch, one writable volume per step
CatStep ==
    /\ pc = "cat" /\ i <= Len(Wr)
    /\ IF C!IsIntact(copy[Wr[i]])
       THEN /\ Reply(200, TRUE, copy)               \* Compare = nil, Touch
            /\ UNCHANGED <<i>>
       ELSE /\ i' = i + 1                            \* IsNotExist or corrupt: next volume
            /\ UNCHANGED <<cvars, replies, pc, cur>>
    /\ UNCHANGED <<cfg, full, counter, todo, errc>>

CatEnd ==
    /\ pc = "cat" /\ i > Len(Wr)
    /\ pc' = "next"
    /\ UNCHANGED <<cvars, cfg, full, counter, todo, cur, i, errc, replies>>

NextW ==
    /\ pc = "next"
    /\ counter' = counter + 1
    /\ LET v == Wr[((counter + 1) % Len(Wr)) + 1] IN
         IF full[v]
         THEN /\ pc' = "all" /\ i' = 1
              /\ UNCHANGED <<cvars, replies, cur>>
         ELSE /\ Reply(200, TRUE, [copy EXCEPT ![v] = "intact"])  \* WriteBlock: rename over whatever was there
              /\ UNCHANGED <<i>>
    /\ UNCHANGED <<cfg, full, todo, errc>>

AllStep ==
    /\ pc = "all" /\ i <= Len(Wr)
    /\ IF full[Wr[i]]
       THEN /\ i' = i + 1
            /\ UNCHANGED <<cvars, replies, pc, cur>>
       ELSE /\ Reply(200, TRUE, [copy EXCEPT ![Wr[i]] = "intact"])
            /\ UNCHANGED <<i>>
    /\ UNCHANGED <<cfg, full, counter, todo, errc>>

AllEnd ==
    /\ pc = "all" /\ i > Len(Wr)
    /\ Reply(503, FALSE, copy)
    /\ UNCHANGED <<cfg, full, counter, todo, i, errc>>

Next == Dispatch \/ GetStep \/ GetEnd \/ PutMD5 \/ CatStep \/ CatEnd \/ NextW \/ AllStep \/ AllEnd

Done == pc = "idle" /\ todo = <<>>

Spec == Init /\ [][Next]_vars /\ WF_vars(Next)
GenSpec == Init /\ [][Next]_vars

------------------------------------------------------------------------------
(* Design-level checks.                                                    *)
(* Every model action that produces an observable event conjoins the       *)
(* contract's action (which also updates the ghost state), so a step the   *)
(* contract forbids is DISABLED in the model: a model that would break the *)
(* contract gets stuck and TLC reports Terminates violated (plus the       *)
(* explicit invariants below).  Refines re-checks that ghost state only    *)
(* ever moves by contract actions.  (Tried: "return on the first corrupt   *)
(* copy" in KeepHandlers and "token left out of the HMAC" in BlobSig are   *)
(* both refuted this way.)                                                 *)

Statuses == {200, 404, 422, 500, 503}

Refines == [][ (\E st \in Statuses, b \in BOOLEAN :
                    \/ C!GetReq(st, b, b, copy') \/ C!HeadReq(st, b, b, copy') \/ C!Put(b, st, copy'))
               \/ UNCHANGED cvars ]_vars

TypeOK == /\ pc \in {"idle", "get", "md5", "cat", "next", "all"}
          /\ cur \in {"none", "get", "head", "put", "putbad"}
          /\ C!TypeOK
          /\ C!CopyVec(copy)
          /\ Len(replies) <= 2

\* design: an acknowledged PUT leaves an intact copy on some volume
AckedIsStored == must => C!HasIntact(copy)

\* design: a rejected PUT changes nothing
RejectedPutNoChange == (Len(replies) >= 1 /\ cfg.kind = "putbadget") => copy = cfg.copy

\* design (beyond the statement): a good PUT is acknowledged whenever some writable volume
\* is not full or already holds an intact copy
PutAvailable ==
    (Done /\ cfg.kind \in {"putget", "puthead"}
          /\ \E v \in 1 .. nvol : ~ro[v] /\ (~full[v] \/ C!IsIntact(cfg.copy[v])))
      => replies[1] = 200

\* design: a read never changes a file
ReadNoChange == cfg.kind \in {"get", "head"} => copy = cfg.copy

Terminates == <>Done

------------------------------------------------------------------------------
(* Scenario emission (Gen configuration): the record is the configuration plus the model's      *)
(* predicted replies and final files (used for drift detection only, never for verdicts).       *)
Emit == Done =>
          Serialize(<<[id |-> TLCGet("distinct"), n |-> cfg.n, ro |-> cfg.ro, full |-> cfg.full,
                       copy |-> cfg.copy, emptyh |-> cfg.emptyh, rr |-> cfg.rr, kind |-> cfg.kind,
                       expect |-> replies, final |-> copy]>>,
                    IOEnv.VERIF_OUT,
                    [format |-> "NDJSON", charset |-> "UTF-8",
                     openOptions |-> <<"WRITE", "CREATE", "APPEND">>])
=============================================================================
