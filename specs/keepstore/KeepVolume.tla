----------------------------- MODULE KeepVolume -----------------------------
(***************************************************************************)
(* Implementation-shaped model of keepstore's Directory volume             *)
(* (services/keepstore/unix_volume.go) and of the request handlers that    *)
(* drive it (handlers.go PutBlock / CompareAndTouch / handleTOUCH /        *)
(* handleDELETE / handleUntrash, trash_worker.go TrashItem, keepstore.go   *)
(* emptyTrash), at SYSTEM-CALL granularity, for one block hash H.          *)
(*                                                                         *)
(* One action per yield point of the instrumented source (tools/instrument *)
(* puts verifPoint("<Method>.<callee>") before every statement of a        *)
(* UnixVolume method that contains a filesystem or lock call).  The value  *)
(* of an actor's pc IS that label; an action = "run from this label to the *)
(* next one", which is exactly one turn of the scheduler in                *)
(* harness/C04_keepstore/hooks.go.  A TLC behaviour is therefore a         *)
(* schedule that can be replayed against the real code.                    *)
(*                                                                         *)
(*   Touch       OpenFile, lock (Serialize mutex), lockfile (flock),       *)
(*               Chtimes BY PATH, [deferred: unlockfile, unlock, Close]    *)
(*   Trash       lock, OpenFile, lockfile, Stat BY PATH -> decide,         *)
(*               Rename | Remove, [deferred unlocks]                       *)
(*   WriteBlock  IsFull, MkdirAll, TempFile, lock, Copy, Write#1,          *)
(*               tmpfile.Close, Chtimes(tmp), OpenFile(block path; only if *)
(*               something is there: lockfile = flock of the file being    *)
(*               replaced), Rename(tmp -> block), [deferred unlock, Close] *)
(*               (commit 6f6002f; constant WBFlock = FALSE gives the code  *)
(*               before it, which took NO flock: KF-C04-1)                 *)
(*   Compare     stat, getFunc (lock, Open, read+compare, unlock)          *)
(*   Mtime       Stat                                                      *)
(*   Untrash     ReadDir (sorted snapshot), Rename (first that works)      *)
(*   EmptyTrash  Walk (snapshot), Remove (per expired entry, deadline      *)
(*               re-checked when the entry is processed)                   *)
(*                                                                         *)
(* Requests (actors):                                                      *)
(*   w  PUT   = CompareAndTouch loop over writable volumes (Compare, then  *)
(*              Touch if equal), else WriteBlock on NextWritable           *)
(*      TOUCH = Touch on each writable volume until one succeeds           *)
(*   t  DELETE     = Trash on every writable volume                        *)
(*      trash item = request-age check, then per target volume: Mtime,     *)
(*                   equality with the named timestamp, Trash              *)
(*      pull  = pull-list item (pull_worker.go): the block is fetched from *)
(*              another server, then Put on the named mount directly (NO   *)
(*              CompareAndTouch: WriteBlock replaces whatever is there) or,*)
(*              without a mount ("pull_any"), PutBlock as for PUT; nobody  *)
(*              is acknowledged, so it protects nothing                    *)
(*   x  untrash    = Untrash on every writable volume                      *)
(*      empty      = EmptyTrash on every writable volume                   *)
(*      index      = GET /index: IndexTo on every volume: Open(root),      *)
(*                   Readdirnames, Open(block dir), Readdir(1) per entry   *)
(*                   (names are a snapshot taken by the first call, each   *)
(*                   name is lstat'ed when its turn comes; a name that has *)
(*                   vanished makes the handler panic, see IStep), Close.  *)
(*                   Lists names of 32 hex digits.                         *)
(*                   (The block directory of H exists on every volume.)    *)
(*   Tick(d)       the virtual clock advances                              *)
(*                                                                         *)
(* Time.  Every timestamp the code takes is taken as `now` at the system   *)
(* call that stores it (the harness shifts STORED timestamps, DESIGN 4.4,  *)
(* so a time.Now() captured one statement earlier is indistinguishable).   *)
(*                                                                         *)
(* The contract's variables are ghost state; every request call/return,    *)
(* tick and scan performs the contract's bookkeeping (XEff) and `viol`     *)
(* accumulates breaches of the contract's obligations (XOk).  KF-C04-1     *)
(* (PUT overwriting a corrupt old replica races with Trash) was repaired   *)
(* in commit 6f6002f; `kf` still marks behaviours with that step order     *)
(* (Trash decided, WriteBlock renames, Trash renames) and the model shows  *)
(* they now need an untrash in between (invariant RaceNeedsUntrash).       *)
(* The model CONTAINS KF-C04-2 (Untrash renames the trashed copy, with its   *)
(* old timestamp, OVER a block file that was written or touched since;     *)
(* the next trash request removes it): `kf2`.  The checked invariants are  *)
(* ~viol without an untrash actor and viol => kf2 with one.                *)
(***************************************************************************)
EXTENDS Integers, Sequences, FiniteSets, TLC, Json, IOUtils

CONSTANTS MinVols, MaxVols,   \* 1 or 2
          TTL,         \* BlobSigningTTL in time units
          Lives,       \* set of BlobTrashLifetime values (0 = delete at once)
          Serial,      \* set of values of Serialize
          Trashing,    \* set of values of BlobTrash
          WKinds,      \* subset of {"none", "put", "touch", "pull", "pull_any"}
          TKinds,      \* subset of {"none", "delete", "list_eq", "list_stale"}
          XKinds,      \* subset of {"none", "untrash", "empty", "index"}
          MaxActors,   \* at most this many concurrent requests
          PreSet,      \* subset of {"none", "intact_old", "intact_young", "corrupt_old"}
          PreTrash,    \* subset of {"none", "live", "expired"}
          ROSets,      \* sets of read-only volumes to consider, e.g. {{}, {2}}
          TickSizes, MaxTicks,
          TickInList,  \* FALSE: the clock does not tick while a trash-list item, an untrash or an EmptyTrash
                       \* is in flight.  The harness moves the clock by rewriting STORED timestamps (mtimes, the
                       \* deadline in trash file names); the timestamp named in an item that is already being
                       \* processed, or a directory listing already taken, cannot be rewritten, so such
                       \* behaviours are not replayable
          POR,         \* TRUE: an actor at an invisible step moves at once (Gen configurations)
          Filter,      \* "none" | "quick" | "thorough": which configurations a Gen run emits
          WBFlock,     \* TRUE: WriteBlock flocks the file it replaces (the code since 6f6002f)
          NoLockSet,   \* {FALSE}; with TRUE also behaviours that IGNORE the flock guards ("lock probes")
          MaxHist

VARIABLES cc, now, prot, seen, tscan, quiet, pend, ent, empAt, unt, must, gc,   \* contract ghost state
          cf,      \* configuration of this behaviour
          dir,     \* dir[v]  = inode at the block path of volume v (0 = no entry)
          ino,     \* ino[i]  = [mt, mtu, ok, lock]
          tdir,    \* tdir[v] = set of [d |-> deadline, i |-> inode]  (files <H>.trash.<d>)
          mux,     \* mux[v]  = holder of the Serialize mutex ("none" if free)
          stamp,   \* source of fresh timestamp tokens
          w, t, x, \* actors
          ticks, viol, kf, kf2, scanned, hist

C == INSTANCE KeepstoreGCContract
cvars == <<cc, now, prot, seen, tscan, quiet, pend, ent, empAt, unt, must, gc>>
disk  == <<dir, ino, tdir, mux, stamp>>
vars  == <<cvars, cf, disk, w, t, x, ticks, viol, kf, kf2, scanned, hist>>
view  == <<cvars, cf, disk, w, t, x, ticks, viol, kf, kf2, scanned>>

Vols == 1 .. cf.n
Inodes == 1 .. 5          \* 1,2 initial copies; 3 the file WriteBlock creates; 4,5 initial trash
Wr == IF cf.n = 1 THEN (IF 1 \in cf.ro THEN <<>> ELSE <<1>>)
      ELSE IF cf.ro = {} THEN <<1, 2>>
      ELSE IF cf.ro = {1} THEN <<2>>
      ELSE IF cf.ro = {2} THEN <<1>> ELSE <<>>
NextWr == Wr[(1 % Len(Wr)) + 1]      \* RRVolumeManager.NextWritable, first call: counter = 1

FreeIno == [mt |-> 0, mtu |-> 0, ok |-> FALSE, lock |-> "none"]
Idle == [pc |-> "idle", vi |-> 0, v |-> 0, f |-> 0, st |-> 0, snap |-> {}, nf |-> 0, nfail |-> 0]

Abs == [v \in Vols |->
          [st  |-> IF dir[v] = 0 THEN "absent" ELSE IF ino[dir[v]].ok THEN "intact" ELSE "corrupt",
           mt  |-> IF dir[v] = 0 THEN 0 ELSE ino[dir[v]].mt,
           mtu |-> IF dir[v] = 0 THEN 0 ELSE ino[dir[v]].mtu,
           tr  |-> {e.d : e \in tdir[v]}]]

(* "pull_any" (a pull-list item without mount_uuid) is explored by TLC only: in the code as it is,  *)
(* pullItemAndProcess passes a nil *VolumeMount as a non-nil Volume interface and the pull worker  *)
(* dies of a nil dereference (proposed_fixes/C04-3.diff), so the behaviour cannot be replayed.      *)
(* Gen configurations restrict the (large) product of configuration dimensions to three families: *)
(* everything on one volume; two volumes; a third actor (untrash / EmptyTrash) on one volume.     *)
(* Lock probes (nl): schedules in which an actor is told to go on although the model knows the     *)
(* flock is held by the other one.  The real code blocks there (the driver notices and moves on), *)
(* so the run is safe; code that lost a flock does not block and the contract sees the race.       *)
GenFilter(n, ser, life, wk, tk, xk, pre, pretr, ro, nl, tr) ==
    LET notr == \A v \in 1 .. n : pretr[v] = "none"
        probe == n = 1 /\ xk = "none" /\ wk \in {"put", "touch"} /\ tk \in {"delete", "list_eq"} /\ ~ser /\ life = 2
                 /\ pre[1] \in {"intact_old", "corrupt_old"} /\ notr IN
    IF nl THEN Filter \in {"quick", "thorough"} /\ probe /\ tr ELSE
    \* BlobTrash off ("only when trashing is enabled"): one small family
    IF ~tr THEN (Filter \in {"none", "quick", "thorough"} /\ n = 1 /\ xk = "none" /\ wk \in {"none", "put"}
                 /\ tk \in {"delete", "list_eq"} /\ ~ser /\ life = 2 /\ notr) ELSE
    CASE Filter = "quick" ->
           \/ (n = 1 /\ xk = "none" /\ wk \in {"put", "touch"} /\ tk # "none" /\ notr)
           \/ (n = 2 /\ xk = "none" /\ wk = "put" /\ tk = "delete" /\ ~ser /\ life = 2 /\ ro = {} /\ notr
                 /\ \A v \in 1 .. n : pre[v] \in {"none", "corrupt_old"})
           \/ (n = 1 /\ xk \in {"untrash", "empty"} /\ wk \in {"none", "put", "touch"} /\ ~ser /\ life = 2
                 /\ pre[1] = "intact_old" /\ pretr[1] # "none")
           \/ (n = 1 /\ xk = "index" /\ wk \in {"put", "pull"} /\ tk = "none" /\ ~ser /\ life = 2
                 /\ pre[1] \in {"none", "corrupt_old"} /\ pretr[1] \in {"none", "live"})
           \/ (n = 1 /\ xk = "none" /\ wk = "pull" /\ tk \in {"delete", "list_eq"} /\ ~ser /\ life = 2 /\ notr)
      [] Filter = "c02index" ->       \* GET /index || PUT, for checks/C02.py (index clause of C02)
           n = 1 /\ xk = "index" /\ wk = "put" /\ tk = "none" /\ ~ser /\ life = 2
           /\ pre[1] \in {"none", "corrupt_old"} /\ notr
      [] Filter = "thorough" ->
           \/ (n = 1 /\ xk = "none" /\ wk \in {"put", "touch"} /\ tk # "none" /\ notr)
           \/ (n = 2 /\ xk = "none" /\ wk \in {"put", "touch"} /\ tk \in {"delete", "list_eq"} /\ ~ser /\ life = 2 /\ notr
                 /\ \A v \in 1 .. n : pre[v] \in {"none", "intact_old", "corrupt_old"})
           \/ (n = 1 /\ xk \in {"untrash", "empty"} /\ wk \in {"none", "put", "touch"} /\ ~ser /\ life = 2
                 /\ pre[1] # "intact_young" /\ pretr[1] # "none")
           \/ (n = 1 /\ xk = "index" /\ wk \in {"none", "put", "pull"} /\ tk \in {"none", "delete"} /\ ~ser /\ life = 2
                 /\ \A v \in 1 .. n : pre[v] # "intact_young" /\ pretr[v] # "expired")
           \/ (xk = "none" /\ wk = "pull" /\ tk \in {"delete", "list_eq"}
                 /\ ~ser /\ life = 2 /\ notr
                 /\ \A v \in 1 .. n : pre[v] # "intact_young")
      [] OTHER -> TRUE

PreIno(p, v) == IF p = "intact_old" THEN [mt |-> v, mtu |-> 0 - (TTL + 1), ok |-> TRUE, lock |-> "none"]
                ELSE IF p = "intact_young" THEN [mt |-> v, mtu |-> 0 - (TTL - 1), ok |-> TRUE, lock |-> "none"]
                ELSE IF p = "corrupt_old" THEN [mt |-> v, mtu |-> 0 - (TTL + 1), ok |-> FALSE, lock |-> "none"]
                ELSE FreeIno

Init ==
    \E n \in MinVols .. MaxVols, ser \in Serial, life \in Lives, tr \in Trashing,
       wk \in WKinds, tk \in TKinds, xk \in XKinds, ro \in ROSets, nl \in NoLockSet :
    \E pre \in [1 .. n -> PreSet], pretr \in [1 .. n -> PreTrash], rv \in 1 .. n :
        /\ ro \subseteq 1 .. n /\ ro # 1 .. n
        /\ GenFilter(n, ser, life, wk, tk, xk, pre, pretr, ro, nl, tr)
        /\ (wk # "none" \/ tk # "none" \/ xk # "none")
        /\ Cardinality({a \in {<<1, wk>>, <<2, tk>>, <<3, xk>>} : a[2] # "none"}) <= MaxActors
        \* a trash-list item names the timestamp of the copy on volume rv (or a stale one)
        /\ IF tk \in {"list_eq", "list_stale"} THEN pre[rv] # "none"
           ELSE IF wk = "pull" THEN rv \notin ro ELSE rv = 1
        /\ ~(wk = "pull" /\ tk \in {"list_eq", "list_stale"} /\ rv \in ro)
        /\ cf = [n |-> n, ro |-> ro, ser |-> ser, life |-> life, trash |-> tr, wk |-> wk, tk |-> tk,
                 xk |-> xk, pre |-> pre, pretr |-> pretr, rv |-> rv, nl |-> nl,
                 req |-> IF tk = "list_eq" THEN [mt |-> rv, mtu |-> PreIno(pre[rv], rv).mtu]
                         ELSE IF tk = "list_stale" THEN [mt |-> 99, mtu |-> PreIno(pre[rv], rv).mtu]
                         ELSE [mt |-> 0, mtu |-> 0]]
        /\ dir = [v \in 1 .. n |-> IF pre[v] = "none" THEN 0 ELSE v]
        /\ ino = [i \in Inodes |-> IF i \in 1 .. n THEN PreIno(pre[i], i)
                                   ELSE IF i \in 4 .. 3 + n /\ pretr[i - 3] # "none"
                                        THEN [mt |-> i, mtu |-> 0 - (TTL + 1), ok |-> TRUE, lock |-> "none"]
                                   ELSE FreeIno]
        /\ tdir = [v \in 1 .. n |-> IF pretr[v] = "live" THEN {[d |-> 1, i |-> 3 + v]}
                                    ELSE IF pretr[v] = "expired" THEN {[d |-> 0 - 1, i |-> 3 + v]}
                                    ELSE {}]
        /\ mux = [v \in 1 .. n |-> "none"]
        /\ stamp = 10
        /\ w = [Idle EXCEPT !.pc = IF wk = "none" THEN "done" ELSE "start"]
        /\ t = [Idle EXCEPT !.pc = IF tk = "none" THEN "done" ELSE "start"]
        /\ x = [Idle EXCEPT !.pc = IF xk = "none" THEN "done" ELSE "start"]
        /\ ticks = 0 /\ viol = FALSE /\ kf = FALSE /\ kf2 = FALSE /\ scanned = FALSE /\ hist = <<>>
        /\ C!CInit([n |-> n, ro |-> ro, trash |-> tr, life |-> life, ttl |-> TTL],
                   [v \in 1 .. n |->
                      [st  |-> IF pre[v] = "none" THEN "absent"
                               ELSE IF pre[v] = "corrupt_old" THEN "corrupt" ELSE "intact",
                       mt  |-> IF pre[v] = "none" THEN 0 ELSE v,
                       mtu |-> PreIno(pre[v], v).mtu,
                       tr  |-> IF pretr[v] = "live" THEN {1} ELSE IF pretr[v] = "expired" THEN {0 - 1} ELSE {}]])

Log(a, l, v) == hist' = IF Len(hist) < MaxHist THEN Append(hist, [a |-> a, l |-> l, v |-> v]) ELSE hist

(* an actor record changes; if it finishes, the request returns *)
Finish(id, old, new) ==
    IF new.pc = "done" /\ old.pc # "done"
    THEN /\ C!RetEff(id, new.st)
         /\ viol' = (viol \/ ~C!RetOk(id, new.st))
    ELSE UNCHANGED <<cvars, viol>>

Unlock(inodes, i) == IF i = 0 THEN inodes ELSE [inodes EXCEPT ![i].lock = "none"]
MuxFree(v)  == ~cf.ser \/ mux[v] = "none"
MuxTake(v, a) == IF cf.ser THEN [mux EXCEPT ![v] = a] ELSE mux
MuxDrop(v)  == IF cf.ser THEN [mux EXCEPT ![v] = "none"] ELSE mux

-----------------------------------------------------------------------------
(* w: PUT / TOUCH *)

WVol == IF w.pc \in {"WriteBlock.IsFull", "WriteBlock.MkdirAll", "WriteBlock.TempFile", "WriteBlock.lock",
                     "WriteBlock.Copy", "WriteBlock.Write#1", "WriteBlock.tmpfile.Close",
                     "WriteBlock.Chtimes", "WriteBlock.OpenFile", "WriteBlock.lockfile", "WriteBlock.Rename"}
        THEN w.v ELSE IF w.vi \in 1 .. Len(Wr) THEN Wr[w.vi] ELSE 0

PutLike == cf.wk \in {"put", "pull_any"}
WHead == IF PutLike THEN "Compare.stat" ELSE "Touch.OpenFile"

(* this volume did not yield a success: next volume, or the write, or give up *)
WAdvance(ww, status) ==
    IF ww.vi < Len(Wr) THEN [ww EXCEPT !.vi = @ + 1, !.pc = WHead, !.f = 0]
    ELSE IF PutLike THEN [ww EXCEPT !.pc = "WriteBlock.IsFull", !.v = NextWr, !.f = 0]
    ELSE [ww EXCEPT !.pc = "done", !.st = status, !.f = 0]

WStart ==
    /\ w.pc = "start"
    /\ C!CallEff(1, IF cf.wk = "pull_any" THEN "pull" ELSE cf.wk, 0, 0)
    /\ w' = IF cf.wk = "pull" THEN [w EXCEPT !.pc = "WriteBlock.IsFull", !.v = cf.rv, !.vi = Len(Wr)]
            ELSE [w EXCEPT !.pc = WHead, !.vi = 1]
    /\ Log("w", "start", 0)
    /\ UNCHANGED <<cf, disk, t, x, ticks, viol, kf, kf2, scanned>>

WStep ==
    LET v == WVol IN
    /\ w.pc \notin {"idle", "start", "done"}
    /\ Log("w", w.pc, v)
    /\ UNCHANGED <<cf, t, x, ticks, scanned>>
    /\ CASE w.pc = "Compare.stat" ->
              /\ w' = IF dir[v] = 0 THEN WAdvance(w, 404) ELSE [w EXCEPT !.pc = "Compare.getFunc"]
              /\ Finish(1, w, w')
              /\ UNCHANGED <<disk, kf, kf2>>
         [] w.pc = "Compare.getFunc" ->
              /\ MuxFree(v)
              /\ w' = IF dir[v] = 0 \/ ~ino[dir[v]].ok THEN WAdvance(w, 404)
                      ELSE [w EXCEPT !.pc = "Touch.OpenFile"]
              /\ Finish(1, w, w')
              /\ UNCHANGED <<disk, kf, kf2>>
         [] w.pc = "Touch.OpenFile" ->
              /\ w' = IF dir[v] = 0 THEN WAdvance(w, 404) ELSE [w EXCEPT !.pc = "Touch.lock", !.f = dir[v]]
              /\ Finish(1, w, w')
              /\ UNCHANGED <<disk, kf, kf2>>
         [] w.pc = "Touch.lock" ->
              /\ MuxFree(v)
              /\ mux' = MuxTake(v, "w")
              /\ w' = [w EXCEPT !.pc = "Touch.lockfile"]
              /\ UNCHANGED <<cvars, viol, dir, ino, tdir, stamp, kf, kf2>>
         [] w.pc = "Touch.lockfile" ->
              /\ (cf.nl \/ ino[w.f].lock = "none")
              /\ ino' = [ino EXCEPT ![w.f].lock = "w"]
              /\ w' = [w EXCEPT !.pc = "Touch.Chtimes"]
              /\ UNCHANGED <<cvars, viol, dir, tdir, mux, stamp, kf, kf2>>
         [] w.pc = "Touch.Chtimes" ->
              \* os.Chtimes(p, ..) by PATH: whatever is at the path now; then the deferred unlocks
              /\ ino' = LET u == Unlock(ino, w.f) IN
                        IF dir[v] = 0 THEN u ELSE [u EXCEPT ![dir[v]].mt = stamp + 1, ![dir[v]].mtu = now]
              /\ stamp' = stamp + 1
              /\ mux' = MuxDrop(v)
              /\ w' = IF dir[v] = 0 THEN WAdvance(w, 404) ELSE [w EXCEPT !.pc = "done", !.st = 200, !.f = 0]
              /\ Finish(1, w, w')
              /\ UNCHANGED <<dir, tdir, kf, kf2>>
         [] w.pc \in {"WriteBlock.IsFull", "WriteBlock.MkdirAll", "WriteBlock.Copy", "WriteBlock.tmpfile.Close"} ->
              /\ w' = [w EXCEPT !.pc = CASE w.pc = "WriteBlock.IsFull" -> "WriteBlock.MkdirAll"
                                        [] w.pc = "WriteBlock.MkdirAll" -> "WriteBlock.TempFile"
                                        [] w.pc = "WriteBlock.Copy" -> "WriteBlock.Write#1"
                                        [] OTHER -> "WriteBlock.Chtimes"]
              /\ UNCHANGED <<cvars, viol, disk, kf, kf2>>
         [] w.pc = "WriteBlock.TempFile" ->
              /\ ino' = [ino EXCEPT ![3] = [mt |-> 0, mtu |-> now, ok |-> FALSE, lock |-> "none"]]
              /\ w' = [w EXCEPT !.pc = "WriteBlock.lock", !.f = 3]
              /\ UNCHANGED <<cvars, viol, dir, tdir, mux, stamp, kf, kf2>>
         [] w.pc = "WriteBlock.lock" ->
              /\ MuxFree(v)
              /\ mux' = MuxTake(v, "w")
              /\ w' = [w EXCEPT !.pc = "WriteBlock.Copy"]
              /\ UNCHANGED <<cvars, viol, dir, ino, tdir, stamp, kf, kf2>>
         [] w.pc = "WriteBlock.Write#1" ->
              /\ ino' = [ino EXCEPT ![3].ok = TRUE]
              /\ w' = [w EXCEPT !.pc = "WriteBlock.tmpfile.Close"]
              /\ UNCHANGED <<cvars, viol, dir, tdir, mux, stamp, kf, kf2>>
         [] w.pc = "WriteBlock.Chtimes" ->
              /\ ino' = [ino EXCEPT ![3].mt = stamp + 1, ![3].mtu = now]
              /\ stamp' = stamp + 1
              /\ w' = [w EXCEPT !.pc = IF WBFlock THEN "WriteBlock.OpenFile" ELSE "WriteBlock.Rename", !.f = 0]
              /\ UNCHANGED <<cvars, viol, dir, tdir, mux, kf, kf2>>
         [] w.pc = "WriteBlock.OpenFile" ->
              \* open the file being replaced, if there is one (w.f = its inode)
              /\ w' = IF dir[v] = 0 THEN [w EXCEPT !.pc = "WriteBlock.Rename", !.f = 0]
                      ELSE [w EXCEPT !.pc = "WriteBlock.lockfile", !.f = dir[v]]
              /\ UNCHANGED <<cvars, viol, disk, kf, kf2>>
         [] w.pc = "WriteBlock.lockfile" ->
              /\ (cf.nl \/ ino[w.f].lock = "none")
              /\ ino' = [ino EXCEPT ![w.f].lock = "w"]
              /\ w' = [w EXCEPT !.pc = "WriteBlock.Rename"]
              /\ UNCHANGED <<cvars, viol, dir, tdir, mux, stamp, kf, kf2>>
         [] w.pc = "WriteBlock.Rename" ->
              \* rename(tmp, block path): replaces whatever is there; then the deferred unlock / close
              /\ dir' = [dir EXCEPT ![v] = 3]
              /\ ino' = Unlock(ino, w.f)
              /\ mux' = MuxDrop(v)
              /\ kf' = (kf \/ (t.pc \in {"Trash.Rename", "Trash.Remove"} /\ t.v = v))
              /\ UNCHANGED kf2
              /\ w' = [w EXCEPT !.pc = "done", !.st = 200, !.f = 0]
              /\ Finish(1, w, w')
              /\ UNCHANGED <<tdir, stamp>>

-----------------------------------------------------------------------------
(* t: DELETE / one trash-list item *)

TTargets == IF cf.tk = "delete" THEN Wr ELSE Wr     \* mount_uuid "" = every writable volume
THead == IF cf.tk = "delete" THEN "Trash.lock" ELSE "Mtime.Stat"

TAdvance(tt) ==
    IF tt.vi < Len(TTargets) THEN [tt EXCEPT !.vi = @ + 1, !.v = TTargets[tt.vi + 1], !.pc = THead, !.f = 0]
    ELSE [tt EXCEPT !.pc = "done", !.st = 200, !.f = 0]

TStart ==
    /\ t.pc = "start"
    /\ C!CallEff(2, IF cf.tk = "delete" THEN "delete" ELSE "trashlist", 0, cf.req.mt)
    /\ t' = IF cf.tk = "delete" /\ ~cf.trash THEN [t EXCEPT !.pc = "done0", !.st = 405]
            ELSE IF cf.tk # "delete" /\ now - cf.req.mtu < TTL THEN [t EXCEPT !.pc = "done0", !.st = 200]
            ELSE IF Len(TTargets) = 0 THEN [t EXCEPT !.pc = "done0", !.st = 200]
            ELSE [t EXCEPT !.pc = THead, !.vi = 1, !.v = TTargets[1]]
    /\ Log("t", "start", 0)
    /\ UNCHANGED <<cf, disk, w, x, ticks, viol, kf, kf2, scanned>>

(* the request returned without reaching any yield point *)
TReturn0 ==
    /\ t.pc = "done0"
    /\ t' = [t EXCEPT !.pc = "done"]
    /\ Finish(2, t, t')
    /\ UNCHANGED <<cf, disk, w, x, ticks, kf, kf2, scanned, hist>>

TStep ==
    LET v == t.v IN
    /\ t.pc \notin {"idle", "start", "done", "done0"}
    /\ Log("t", t.pc, v)
    /\ UNCHANGED <<cf, w, x, ticks, scanned, kf, kf2>>
    /\ CASE t.pc = "Mtime.Stat" ->
              /\ t' = IF dir[v] = 0 \/ ino[dir[v]].mt # cf.req.mt \/ ~cf.trash THEN TAdvance(t)
                      ELSE [t EXCEPT !.pc = "Trash.lock"]
              /\ Finish(2, t, t')
              /\ UNCHANGED disk
         [] t.pc = "Trash.lock" ->
              /\ MuxFree(v)
              /\ mux' = MuxTake(v, "t")
              /\ t' = [t EXCEPT !.pc = "Trash.OpenFile"]
              /\ UNCHANGED <<cvars, viol, dir, ino, tdir, stamp>>
         [] t.pc = "Trash.OpenFile" ->
              /\ t' = IF dir[v] = 0 THEN TAdvance(t) ELSE [t EXCEPT !.pc = "Trash.lockfile", !.f = dir[v]]
              /\ mux' = IF dir[v] = 0 THEN MuxDrop(v) ELSE mux
              /\ Finish(2, t, t')
              /\ UNCHANGED <<dir, ino, tdir, stamp>>
         [] t.pc = "Trash.lockfile" ->
              /\ (cf.nl \/ ino[t.f].lock = "none")
              /\ ino' = [ino EXCEPT ![t.f].lock = "t"]
              /\ t' = [t EXCEPT !.pc = "Trash.Stat"]
              /\ UNCHANGED <<cvars, viol, dir, tdir, mux, stamp>>
         [] t.pc = "Trash.Stat" ->
              \* os.Stat(p) by PATH; younger than the TTL -> return nil without trashing
              LET keep == dir[v] = 0 \/ now - ino[dir[v]].mtu < TTL IN
              /\ t' = IF keep THEN TAdvance(t)
                      ELSE [t EXCEPT !.pc = IF cf.life = 0 THEN "Trash.Remove" ELSE "Trash.Rename"]
              /\ ino' = IF keep THEN Unlock(ino, t.f) ELSE ino
              /\ mux' = IF keep THEN MuxDrop(v) ELSE mux
              /\ Finish(2, t, t')
              /\ UNCHANGED <<dir, tdir, stamp>>
         [] t.pc = "Trash.Remove" ->
              /\ dir' = [dir EXCEPT ![v] = 0]
              /\ ino' = Unlock(ino, t.f)
              /\ mux' = MuxDrop(v)
              /\ t' = TAdvance(t)
              /\ Finish(2, t, t')
              /\ UNCHANGED <<tdir, stamp>>
         [] t.pc = "Trash.Rename" ->
              \* rename(p, p.trash.<now+lifetime>) by PATH
              /\ dir' = [dir EXCEPT ![v] = 0]
              /\ tdir' = IF dir[v] = 0 THEN tdir
                         ELSE [tdir EXCEPT ![v] = {e \in @ : e.d # now + cf.life}
                                                   \cup {[d |-> now + cf.life, i |-> dir[v]]}]
              /\ ino' = Unlock(ino, t.f)
              /\ mux' = MuxDrop(v)
              /\ t' = TAdvance(t)
              /\ Finish(2, t, t')
              /\ UNCHANGED stamp

-----------------------------------------------------------------------------
(* x: untrash request / EmptyTrash sweep *)

MinD(S) == CHOOSE e \in S : \A g \in S : e.d <= g.d

XAdvance(xx) ==
    IF xx.vi < Len(Wr) THEN [xx EXCEPT !.vi = @ + 1, !.v = Wr[xx.vi + 1], !.snap = {},
                                       !.pc = IF cf.xk = "untrash" THEN "Untrash.ReadDir" ELSE "EmptyTrash.Walk"]
    ELSE [xx EXCEPT !.pc = "done", !.snap = {},
                    !.st = IF cf.xk = "empty" THEN 200
                           ELSE IF xx.nf = Len(Wr) THEN 404
                           ELSE IF xx.nfail > 0 THEN 500 ELSE 200]

XStart ==
    /\ x.pc = "start" /\ cf.xk # "index"
    /\ C!CallEff(3, cf.xk, 0, 0)
    /\ x' = IF Len(Wr) = 0 THEN [x EXCEPT !.pc = "done0", !.st = 404]
            ELSE [x EXCEPT !.vi = 1, !.v = Wr[1],
                           !.pc = IF cf.xk = "untrash" THEN "Untrash.ReadDir" ELSE "EmptyTrash.Walk"]
    /\ Log("x", "start", 0)
    /\ UNCHANGED <<cf, disk, w, t, ticks, viol, kf, kf2, scanned>>

XReturn0 ==
    /\ x.pc = "done0"
    /\ x' = [x EXCEPT !.pc = "done"]
    /\ Finish(3, x, x')
    /\ UNCHANGED <<cf, disk, w, t, ticks, kf, kf2, scanned, hist>>

(* EmptyTrash worker: skip the entries of the snapshot that have not expired (or vanished) *)
Expired(S) == {e \in S : e.d <= now}

XStep ==
    LET v == x.v IN
    /\ cf.xk # "index"
    /\ x.pc \notin {"idle", "start", "done", "done0"}
    /\ Log("x", x.pc, v)
    /\ UNCHANGED <<cf, w, t, ticks, scanned, kf>>
    /\ CASE x.pc = "Untrash.ReadDir" ->
              \* ioutil.ReadDir(blockDir): sorted snapshot of the names
              /\ x' = IF tdir[v] = {} THEN XAdvance([x EXCEPT !.nf = @ + 1])
                      ELSE [x EXCEPT !.pc = "Untrash.Rename", !.snap = tdir[v]]
              /\ Finish(3, x, x')
              /\ UNCHANGED <<disk, kf2>>
         [] x.pc = "Untrash.Rename" ->
              \* rename(<H>.trash.<d>, <H>) REPLACES whatever is at the block path
              LET e == MinD(x.snap) IN
              IF e \in tdir[v]
              THEN /\ dir' = [dir EXCEPT ![v] = e.i]
                   /\ tdir' = [tdir EXCEPT ![v] = @ \ {e}]
                   /\ kf2' = (kf2 \/ dir[v] # 0)      \* a block file was there and is replaced
                   /\ x' = XAdvance(x)
                   /\ Finish(3, x, x')
                   /\ UNCHANGED <<ino, mux, stamp>>
              ELSE /\ x' = IF x.snap = {e} THEN XAdvance([x EXCEPT !.nfail = @ + 1])
                           ELSE [x EXCEPT !.snap = @ \ {e}]
                   /\ Finish(3, x, x')
                   /\ UNCHANGED <<disk, kf2>>
         [] x.pc = "EmptyTrash.Walk" ->
              /\ x' = IF Expired(tdir[v]) = {} THEN XAdvance(x)
                      ELSE [x EXCEPT !.pc = "EmptyTrash.Remove", !.snap = tdir[v]]
              /\ Finish(3, x, x')
              /\ UNCHANGED <<disk, kf2>>
         [] x.pc = "EmptyTrash.Remove" ->
              LET e == MinD(Expired(x.snap))
                  rest == x.snap \ {e} IN
              /\ tdir' = [tdir EXCEPT ![v] = @ \ {e}]
              /\ x' = IF Expired(rest) = {} THEN XAdvance(x) ELSE [x EXCEPT !.snap = rest]
              /\ Finish(3, x, x')
              /\ UNCHANGED <<dir, ino, mux, stamp, kf2>>

-----------------------------------------------------------------------------
(* x: GET /index (IndexTo on every volume, in mount order) *)

TmpOn(v) == w.v = v /\ w.pc \in {"WriteBlock.lock", "WriteBlock.Copy", "WriteBlock.Write#1", "WriteBlock.tmpfile.Close",
                                  "WriteBlock.Chtimes", "WriteBlock.OpenFile", "WriteBlock.lockfile", "WriteBlock.Rename"}
IdxNames(v) == (IF dir[v] # 0 THEN {[k |-> "H", d |-> 0]} ELSE {})
               \cup {[k |-> "tr", d |-> e.d] : e \in tdir[v]}
               \cup (IF TmpOn(v) THEN {[k |-> "tmp", d |-> 0]} ELSE {})
IdxAlive(v, nm) == CASE nm.k = "H" -> dir[v] # 0
                     [] nm.k = "tmp" -> TmpOn(v)
                     [] OTHER -> \E e \in tdir[v] : e.d = nm.d
IdxLabel(pc) == IF pc = "IndexTo.Open2" THEN "IndexTo.Open"
                ELSE IF pc = "IndexTo.rootdir.Readdirnames2" THEN "IndexTo.rootdir.Readdirnames" ELSE pc
(* the lines of the response that name H: x.nf of them, x.nfail of which are not a complete block *)
IdxEntries(xx) == [i \in 1 .. xx.nf |-> IF i <= xx.nfail THEN "other" ELSE "complete"]

IStart ==
    /\ x.pc = "start" /\ cf.xk = "index"
    /\ C!CallEff(3, "index", 0, 0)
    /\ x' = [x EXCEPT !.pc = "IndexTo.Open", !.vi = 1, !.v = 1, !.f = 0]
    /\ Log("x", "start", 0)
    /\ UNCHANGED <<cf, disk, w, t, ticks, viol, kf, kf2, scanned>>

IStep ==
    LET v == x.v IN
    /\ cf.xk = "index"
    /\ x.pc \notin {"idle", "start", "done", "done0"}
    /\ Log("x", IdxLabel(x.pc), v)
    /\ UNCHANGED <<cf, disk, w, t, ticks, scanned, kf, kf2>>
    /\ CASE x.pc \in {"IndexTo.Open", "IndexTo.rootdir.Readdirnames", "IndexTo.Open2", "IndexTo.blockdir.Close"} ->
              /\ x' = [x EXCEPT !.pc = CASE x.pc = "IndexTo.Open" -> "IndexTo.rootdir.Readdirnames"
                                        [] x.pc = "IndexTo.rootdir.Readdirnames" -> "IndexTo.Open2"
                                        [] x.pc = "IndexTo.Open2" -> "IndexTo.blockdir.Readdir"
                                        [] OTHER -> "IndexTo.rootdir.Readdirnames2",
                                 !.f = 0, !.snap = {}]
              /\ UNCHANGED <<cvars, viol>>
         [] x.pc = "IndexTo.blockdir.Readdir" ->
              \* The first call takes the snapshot of names.  Each call takes the next name and lstat's it
              \* by path.  os.File.Readdir(1) returns an EMPTY slice and a nil error when that name has
              \* vanished meanwhile (temp file renamed or removed, block trashed, trash emptied), and IndexTo
              \* indexes fileInfo[0] without looking: the handler panics (net/http recovers it, the response
              \* ends there, without the terminating blank line).  Modelled as the code is: status 500.
              LET snap0 == IF x.f = 0 THEN IdxNames(v) ELSE x.snap IN
              IF snap0 = {}
              THEN /\ x' = [x EXCEPT !.pc = "IndexTo.blockdir.Close", !.snap = {}, !.f = 1]
                   /\ UNCHANGED <<cvars, viol>>
              ELSE \E nm \in snap0 :
                     IF IdxAlive(v, nm)
                     THEN /\ x' = [x EXCEPT !.f = 1, !.snap = snap0 \ {nm},
                                            !.nf = IF nm.k = "H" THEN @ + 1 ELSE @,
                                            \* lstat by path: the size listed is that of whatever is there now
                                            !.nfail = IF nm.k = "H" /\ dir[v] = 3 /\ ~ino[3].ok THEN @ + 1 ELSE @]
                          /\ UNCHANGED <<cvars, viol>>
                     ELSE /\ x' = [x EXCEPT !.pc = "done", !.st = 500, !.snap = {}, !.f = 1]
                          /\ C!RetEff(3, 500)
                          /\ viol' = (viol \/ ~C!RetOk(3, 500) \/ ~C!IndexOk(IdxEntries(x)))
         [] x.pc = "IndexTo.rootdir.Readdirnames2" ->
              IF v < cf.n
              THEN /\ x' = [x EXCEPT !.pc = "IndexTo.Open", !.v = v + 1, !.f = 0]
                   /\ UNCHANGED <<cvars, viol>>
              ELSE /\ x' = [x EXCEPT !.pc = "done", !.st = 200]
                   /\ C!RetEff(3, 200)
                   /\ viol' = (viol \/ ~C!RetOk(3, 200) \/ ~C!IndexOk(IdxEntries(x)))

-----------------------------------------------------------------------------
AllDone == w.pc = "done" /\ t.pc = "done" /\ x.pc = "done"

Tick(d) ==
    /\ ticks < MaxTicks /\ ~scanned
    /\ \/ TickInList
       \/ /\ (cf.tk \notin {"list_eq", "list_stale"} \/ t.pc \in {"start", "done"})
          /\ x.pc \in {"start", "done"}
    /\ C!TickEff(d)
    /\ ticks' = ticks + 1
    /\ Log("tick", "tick", d)
    /\ UNCHANGED <<cf, disk, w, t, x, viol, kf, kf2, scanned>>

FinalScan ==
    /\ AllDone /\ ~scanned
    /\ C!ScanEff(Abs)
    /\ viol' = (viol \/ ~C!ScanOk(Abs))
    /\ scanned' = TRUE
    /\ UNCHANGED <<cf, disk, w, t, x, ticks, kf, kf2, hist>>

(* Partial-order reduction for scenario generation: a step that neither reads nor writes anything *)
(* another actor or the clock can see is taken at once.                                           *)
Invisible(pc) ==
    \/ pc \in {"WriteBlock.IsFull", "WriteBlock.MkdirAll", "done0"}
    \* the temp file and what has been written to it are invisible to everybody but a directory listing
    \* (for the code as it is the listing only sees one more name, but a write path that puts partial data
    \* under the block's name is exposed exactly between these steps)
    \/ (cf.xk # "index" /\ pc \in {"WriteBlock.TempFile", "WriteBlock.Copy", "WriteBlock.Write#1",
                                    "WriteBlock.tmpfile.Close"})
    \/ pc \in {"IndexTo.Open", "IndexTo.rootdir.Readdirnames", "IndexTo.Open2", "IndexTo.blockdir.Close",
               "IndexTo.rootdir.Readdirnames2"}
    \/ (~cf.ser /\ pc \in {"WriteBlock.lock", "Touch.lock", "Trash.lock"})
    \/ (ticks >= MaxTicks /\ pc \in {"start", "WriteBlock.Chtimes"})

Forced == IF Invisible(w.pc) THEN "w" ELSE IF Invisible(t.pc) THEN "t" ELSE IF Invisible(x.pc) THEN "x" ELSE "-"

May(a) == ~POR \/ Forced \in {"-", a}

Next == \/ (May("w") /\ (WStart \/ WStep))
        \/ (May("t") /\ (TStart \/ TReturn0 \/ TStep))
        \/ (May("x") /\ (XStart \/ XReturn0 \/ XStep \/ IStart \/ IStep))
        \/ (May("-") /\ \E d \in TickSizes : Tick(d))
        \/ FinalScan

Spec == Init /\ [][Next]_vars

-----------------------------------------------------------------------------
(* Design-level checks *)

TypeOK == /\ \A v \in Vols : dir[v] \in 0 .. 5 /\ mux[v] \in {"none", "w", "t"}
          /\ w.pc \notin {"idle"} /\ viol \in BOOLEAN

(* The model satisfies the contract except in behaviours of the known class KF-C04-1 *)
ContractHolds == viol => kf2
(* without an untrash request the contract holds outright (since 6f6002f); with WBFlock = FALSE   *)
(* (the code before it) this is refuted: MC_C04_nofix.cfg, checked to FAIL in checks/C04.py         *)
NoViolation == ~viol
(* the step order of KF-C04-1 is now possible only when an untrash replaced the file in between     *)
RaceNeedsUntrash == kf => kf2

(* AckedSurvives at step granularity: while the block is protected and no PUT is replacing it,    *)
(* some volume has a directory entry for it (the contract's clause (a) in every state).          *)
AckedSurvives == (now < prot /\ ~kf2) => \E v \in Vols : dir[v] # 0

(* lock discipline: a flock is held only by an actor inside Touch / Trash on that inode *)
LockDiscipline ==
    \A i \in Inodes : /\ ino[i].lock = "w" => (w.f = i /\ w.pc \in {"Touch.Chtimes", "WriteBlock.Rename"})
                      /\ ino[i].lock = "t" => (t.f = i /\ t.pc \in {"Trash.Stat", "Trash.Remove", "Trash.Rename"})
MutexDiscipline ==
    \A v \in Vols : /\ mux[v] = "w" => w.pc \in {"Touch.lockfile", "Touch.Chtimes", "WriteBlock.Copy",
                                                 "WriteBlock.Write#1", "WriteBlock.tmpfile.Close",
                                                 "WriteBlock.Chtimes", "WriteBlock.OpenFile", "WriteBlock.lockfile",
                                                 "WriteBlock.Rename"}
                    /\ mux[v] = "t" => t.pc \in {"Trash.OpenFile", "Trash.lockfile", "Trash.Stat",
                                                 "Trash.Remove", "Trash.Rename"}

(* GET /index lists only complete blocks, whatever runs concurrently *)
IndexComplete == x.nfail = 0 \/ cf.xk # "index"
(* ... but it does not always finish: checked to FAIL (MC_C04_idxabort.cfg), the counterexample is the   *)
(* panic described in IStep                                                                            *)
IndexNeverAborts == ~(cf.xk = "index" /\ x.pc = "done" /\ x.st = 500)

(* no deadlock: unless everything is finished some step is possible *)
Progress == scanned \/ ENABLED Next

-----------------------------------------------------------------------------
(* Scenario emission (Gen configurations) *)
SeqOfSet(S) == [i \in 1 .. MaxVols |-> i \in S]
Emit == scanned =>
          Serialize(<<[id |-> 0, n |-> cf.n, ro |-> SeqOfSet(cf.ro), ser |-> cf.ser,
                       life |-> cf.life, trash |-> cf.trash, wk |-> cf.wk, tk |-> cf.tk, xk |-> cf.xk,
                       pre |-> cf.pre, pretr |-> cf.pretr, rv |-> cf.rv, nl |-> cf.nl,
                       steps |-> hist, viol |-> viol, kf |-> kf, kf2 |-> kf2]>>,
                    IOEnv.VERIF_OUT,
                    [format |-> "NDJSON", charset |-> "UTF-8",
                     openOptions |-> <<"WRITE", "CREATE", "APPEND">>])
=============================================================================
