SPECIFICATION GenSpec
CONSTANTS
  MaxVol = 3
INVARIANTS Emit
CHECK_DEADLOCK FALSE
