-------------------------- MODULE KeepstorePutTrace --------------------------
(***************************************************************************)
(* Judge for C02: validates ndjson traces recorded from the real keepstore *)
(* (harness/C02_keepstore/c02_driver_test.go) against KeepstorePutContract.*)
(* Events:                                                                 *)
(*   {"ev":"reset","scn":id,"pre":..,"n":..,"mode":..,"point":..,...}      *)
(*   {"ev":"start","pre":pre}                                              *)
(*   {"ev":"outcome","kind":"reply"|"crash","st":status}                   *)
(*   {"ev":"rivalack"}      an overlapping PUT of the same block got 2xx   *)
(*   {"ev":"restart"}                                                      *)
(*   {"ev":"get","class":"complete"|"error"|"partial"}                     *)
(*   {"ev":"index","entries":["complete"|"pre"|"other"..]}                 *)
(*   {"ev":"dirscan","blk":..,"tmpblk":bool}                               *)
(*   {"ev":"indexduring","entries":[..]}   GET /index concurrent with the  *)
(*                                         PUT (schedules of KeepVolume)   *)
(***************************************************************************)
EXTENDS KeepstorePutContract, TraceIO

TraceInit == l = 1 /\ PInit

TraceReset   == IsEvent("reset") /\ phase' = "idle" /\ pre' = "none" /\ acked' = FALSE
TraceStart   == IsEvent("start") /\ PutStart(Ev.pre)
TraceOutcome == IsEvent("outcome") /\ Outcome(Ev.kind, Ev.st)
TraceRivalAck == IsEvent("rivalack") /\ RivalAck
TraceRestart == IsEvent("restart") /\ Restart
TraceGet     == IsEvent("get") /\ Get(Ev.class)
TraceIndex   == IsEvent("index") /\ Index(Ev.entries)
TraceDirScan == IsEvent("dirscan") /\ DirScan(Ev.blk, Ev.tmpblk)
TraceIndexDuring == IsEvent("indexduring") /\ IndexDuring(Ev.entries)

TraceNext == TraceReset \/ TraceStart \/ TraceOutcome \/ TraceRivalAck \/ TraceRestart \/ TraceGet \/ TraceIndex \/ TraceDirScan \/ TraceIndexDuring

TraceSpec == TraceInit /\ [][TraceNext]_<<pvars, l>>
=============================================================================
