SPECIFICATION JSpec
CONSTRAINT Mark
POSTCONDITION Accepted
CHECK_DEADLOCK FALSE
