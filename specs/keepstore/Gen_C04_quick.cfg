SPECIFICATION Spec
CONSTANTS
  MinVols = 1
  MaxVols = 1
  TTL = 2
  Lives = {0, 2}
  Serial = {FALSE, TRUE}
  Trashing = {TRUE}
  WKinds = {"put", "touch"}
  TKinds = {"delete", "list_eq", "list_stale"}
  XKinds = {"none"}
  MaxActors = 2
  PreSet = {"none", "intact_old", "intact_young", "corrupt_old"}
  PreTrash = {"none"}
  ROSets = {{}}
  TickSizes = {1}
  MaxTicks = 0
  POR = TRUE
  MaxHist = 60
INVARIANTS Emit
CHECK_DEADLOCK FALSE
