SPECIFICATION Spec
CONSTANTS
  MinVols = 1
  MaxVols = 2
  TTL = 2
  Lives = {0, 2}
  Serial = {FALSE, TRUE}
  Trashing = {TRUE, FALSE}
  WKinds = {"none", "put", "touch", "pull"}
  TKinds = {"none", "delete", "list_eq", "list_stale"}
  XKinds = {"none", "untrash", "empty", "index"}
  MaxActors = 2
  PreSet = {"none", "intact_old", "intact_young", "corrupt_old"}
  PreTrash = {"none", "live", "expired"}
  ROSets = {{}, {2}}
  TickSizes = {1}
  MaxTicks = 0
  Filter = "quick"
  NoLockSet = {FALSE, TRUE}
  TickInList = FALSE
  WBFlock = TRUE
  POR = TRUE
  MaxHist = 80
INVARIANTS Emit
CHECK_DEADLOCK FALSE
