SPECIFICATION Spec
CONSTANTS
  MinVols = 2
  MaxVols = 2
  TTL = 2
  Lives = {2}
  Serial = {FALSE}
  Trashing = {TRUE}
  WKinds = {"put", "touch"}
  TKinds = {"delete", "list_eq"}
  XKinds = {"none"}
  MaxActors = 2
  PreSet = {"none", "intact_old", "corrupt_old"}
  PreTrash = {"none"}
  ROSets = {{}, {2}}
  TickSizes = {1}
  MaxTicks = 0
  POR = TRUE
  MaxHist = 80
INVARIANTS Emit
CHECK_DEADLOCK FALSE
