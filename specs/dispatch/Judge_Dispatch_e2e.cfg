SPECIFICATION TraceSpec
CONSTANTS
  Ctrs <- BigCtrs
  Wk <- BigWk
CONSTRAINT Mark
POSTCONDITION Accepted
CHECK_DEADLOCK FALSE
