SPECIFICATION Spec
CONSTANTS
  MaxTypes = 2
  Prices = {1, 2}
  Rams <- QRams
  Vcpus = {1, 2}
  Scratches <- QScratches
  RamTriples <- QTriples
  NeedVcpus = {1, 2, 3}
  TmpChoices <- QTmps
  ImgNs <- QImgNs
  Scales = {1, 95}
INVARIANTS TypeOK LoopInv NoneMissed ExactImpliesStatement
PROPERTIES Refines
CHECK_DEADLOCK FALSE
