SPECIFICATION Spec
CONSTANTS
  N = 4
  NT = 2
  Prios = {1, 2}
  InRuns = {"no"}
  Lates = {FALSE}
  MaxIdle = 1
  BootVals = {0, 1}
  QLefts = {0, 1, 9}
  CreateOKs <- AllTrue
  StartOKs <- AllTrue
  Readies = 1
VIEW view
INVARIANTS TypeOK UnlockSuffix
PROPERTIES Refines
CHECK_DEADLOCK FALSE
