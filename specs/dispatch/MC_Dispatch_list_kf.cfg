SPECIFICATION SpecAtomic
CONSTANTS
  NC = 1
  NW = 2
  Mode = "exact"
  AtomicQueue = TRUE
  StaleTimeout = FALSE
  StaleLists = TRUE
  ThresholdBefore = FALSE
  ProbeCheckUpdated = TRUE
  QuotaErrors = FALSE
  InitStates = {"Queued"}
  B <- BNone
  MaxHist = 0
VIEW view
INVARIANTS TypeOK AtMostOneProcAll
PROPERTIES RefinesAll
CHECK_DEADLOCK FALSE
