SPECIFICATION LiveSpec
CONSTANTS
  NC = 1
  NW = 1
  Mode = "exact"
  AtomicQueue = TRUE
  StaleTimeout = TRUE
  StaleLists = FALSE
  ThresholdBefore = TRUE
  ProbeCheckUpdated = TRUE
  QuotaErrors = TRUE
  InitStates = {"Queued"}
  B <- BLive2
  MaxHist = 0
VIEW view
PROPERTIES Converges Released NotStuck BrokenGoes ReportedGoes
INVARIANTS NoWorkForDraining
CHECK_DEADLOCK FALSE
