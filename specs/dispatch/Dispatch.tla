------------------------------ MODULE Dispatch ------------------------------
(***************************************************************************)
(* Implementation-shaped model of the cloud dispatcher                     *)
(* (lib/dispatchcloud: scheduler/{scheduler,run_queue,sync,fix_stale_locks}.go, *)
(*  worker/{pool,worker,runner}.go, container/queue.go).                   *)
(*                                                                         *)
(* API truth vs queue cache                                                *)
(*   api[c]           what the API server holds (contract variable)        *)
(*   q[c]             the dispatcher's cache entry [in, state, prio]       *)
(*   UpdStart/UpdEnd  container.Queue.Update: poll, then apply to the      *)
(*                    cache except entries changed by a lock/unlock/cancel *)
(*                    response meanwhile (dontupd); `updated` is the time  *)
(*                    the poll STARTED (updMark / exitedP "fresh")         *)
(* Pool bookkeeping                                                        *)
(*   wk[w]            [st, starting, running] per worker; st in absent,    *)
(*                    unknown, booting, idle, running, shutdown            *)
(*   exitedP[c]       pool.exited placeholder: "none" | "stale" | "fresh"  *)
(*                    (fresh = a queue poll started after the exit)        *)
(*   ProbeStart/End   worker.probeAndUpdate (result discarded when         *)
(*                    wkr.updated changed meanwhile: dirty; the constant   *)
(*                    ProbeCheckUpdated = FALSE shows why: an answer taken *)
(*                    before a start and applied after it reaps the live   *)
(*                    runner, MC_Dispatch_probe_kf.cfg)                    *)
(*   StartExec        remoteRunner.Start on the VM + starting -> running   *)
(*   KillTick         remoteRunner.Kill loop: SIGTERM, onKilled            *)
(*   IdleShutdown, DestroyOK, InstanceGone   shutdown / Destroy / pool.sync *)
(*   ListStart, ListApply   a list call that takes time (sync threshold)   *)
(* Scheduler                                                               *)
(*   Fix*             fixStaleLocks (incl. the timeout)                    *)
(*   RQBegin, RQVisit, RQStart, RQEnd, RQTail*   runQueue as the code      *)
(*                    orders its tests (one instance type)                 *)
(*   Sync             sync (decisions on its snapshots, goroutines spawned)*)
(*   GoStart, ApiCommit, ApiFail, ApiResp   lockContainer / cancel /       *)
(*                    requeue / kill under the per-container latch uuidOp  *)
(* Environment                                                             *)
(*   UserCancel, UserHold, ProcSetRunning, ProcFinalize, ProcEnd,          *)
(*   ProcCrash, VMBoot, VMBreak, VMReportBroken, SyncFail, OpSetIB (management API hold / drain /    *)
(*   run), OpKillInstance (management API kill), Restart.  Not modelled:   *)
(*   the instance tags through which idle behaviour survives a restart are *)
(*   written asynchronously; here the idle behaviour simply persists.      *)
(*                                                                         *)
(* The contract's variables (api, procs, ib, ibv, lk, lkNext, pass, ever, pend, mode) are carried as   *)
(* ghost state; model actions apply the contract's *Eff operators (never   *)
(* its guards) and the action property Refines states that every step is a *)
(* guarded contract step - except in behaviours of the known class kf      *)
(* (restart + fixStaleLocks timing out while a worker is still unknown).   *)
(***************************************************************************)
EXTENDS Naturals, Sequences, FiniteSets, TLC, Json, IOUtils

CONSTANTS NC, NW,            \* containers 1..NC, instance slots 1..NW
          Mode,              \* the contract's mode: "exact" | "sound" | "async"
          AtomicQueue,       \* BOOLEAN: API calls and queue refreshes are atomic (test.Queue) or not (container.Queue)
          StaleTimeout,      \* BOOLEAN: fixStaleLocks may time out
          StaleLists,        \* BOOLEAN: the cloud's list call takes time (ListStart .. ListApply are separate steps)
          ThresholdBefore,   \* BOOLEAN: pool.sync's threshold is taken before the list call (the code) or after it
          ProbeCheckUpdated, \* BOOLEAN: a probe answer is discarded when wkr.updated changed meanwhile (the code) or only while a start is pending
          QuotaErrors,       \* BOOLEAN: the cloud may answer a Create call with a quota error (once)
          InitStates,        \* initial API states of containers
          B,                 \* budgets [restart, crash, user, brk, apifail, opib]
          MaxHist

VARIABLES api, procs, ib, ibv, lk, lkNext, pass, ever, pend, mode, \* contract
          q, upd, dontupd, nextq, updMark,                   \* queue cache
          wk, exitedP, probing, dirty, killing, broken, vmx, \* pool; VM truth [exists, booted], unresponsive VMs
          rb,                                                \* VMs whose probe answers say "broken"
          atq,                                               \* "no" | "on" (hold-off after a quota error) | "used"
          lsnap, born,                                       \* list call in flight: instances it saw (or <<>> = none in flight); workers created since
          phase, stale, rqE, rqRun, rqTodo, rqCur, unalloc, dontstart, overq,   \* scheduler
          op, spawn,                                         \* per-container operations
          bud, kf, last, hist

Ctrs == 1 .. NC
Wk == 1 .. NW
C == INSTANCE DispatchContract

dcvars == <<api, procs, ib, ibv, lk, lkNext, pass, ever, pend, mode>>
qv == <<q, upd, dontupd, nextq, updMark>>
pv == <<wk, exitedP, probing, dirty, killing, broken, vmx, rb, lsnap, born, atq>>
sv == <<phase, stale, rqE, rqRun, rqTodo, rqCur, unalloc, dontstart, overq>>
ov == <<op, spawn>>
vars == <<dcvars, qv, pv, sv, ov, bud, kf, last, hist>>
view == <<dcvars, qv, pv, sv, ov, bud, kf>>

NoEnt == [in |-> FALSE, state |-> "Queued", prio |-> 0]
NoWk == [st |-> "absent", starting |-> {}, running |-> {}]
NoVm == [exists |-> FALSE, booted |-> FALSE]
NoProbe == [on |-> FALSE, booted |-> FALSE, ok |-> FALSE, list |-> {}, rb |-> FALSE]
NoOp == [k |-> "none", st |-> "none", rs |-> "Queued", rp |-> 0, age |-> 0]
NoLast == [e |-> "none", c |-> 0, w |-> 0, s |-> "", p |-> 0]

\* `last` names the contract event of the step just taken (read by Refines through last')
Ev(e, c, w) == last' = [NoLast EXCEPT !.e = e, !.c = c, !.w = w]
H(a, c, w, x) == hist' = IF Len(hist) < MaxHist THEN Append(hist, [a |-> a, c |-> c, w |-> w, x |-> x]) ELSE hist

Init ==
    /\ \E a \in [Ctrs -> [state : InitStates, prio : {1}]] :
           C!DCInit(a, Mode)
    /\ q = [c \in Ctrs |-> NoEnt] /\ upd = "idle" /\ dontupd = {} /\ nextq = [c \in Ctrs |-> NoEnt]
    /\ updMark = {}
    /\ wk = [w \in Wk |-> NoWk] /\ exitedP = [c \in Ctrs |-> "none"]
    /\ probing = [w \in Wk |-> NoProbe] /\ dirty = {} /\ killing = [w \in Wk |-> {}] /\ broken = {} /\ vmx = [w \in Wk |-> NoVm] /\ rb = {} /\ lsnap = <<>> /\ born = {} /\ atq = "no"
    /\ phase = "boot" /\ stale = {} /\ rqE = [c \in Ctrs |-> NoEnt] /\ rqRun = {} /\ rqTodo = {}
    /\ rqCur = 0 /\ unalloc = 0 /\ dontstart = FALSE /\ overq = FALSE
    /\ op = [c \in Ctrs |-> NoOp] /\ spawn = [c \in Ctrs |-> {}]
    /\ bud = B @@ [init |-> [c \in Ctrs |-> api[c].state]]      \* budgets + the initial states (for Emit)
    /\ kf = FALSE /\ last = NoLast /\ hist = <<>>

------------------------------------------------------------------------------
(* helpers *)
Reach(w) == vmx[w].exists /\ vmx[w].booted /\ w \notin broken
Runners(w) == wk[w].running \cup wk[w].starting
HasRunner(c) == \E w \in Wk : c \in Runners(w)
RunningKeys == {c \in Ctrs : HasRunner(c) \/ exitedP[c] # "none"}
AnyUnknown == \E w \in Wk : wk[w].st = "unknown"
FreeSlots == {w \in Wk : wk[w].st = "absent" /\ ~vmx[w].exists}
AtQuota == FreeSlots = {} \/ atq = "on"
Ours(c) == api[c].state \in {"Locked", "Running"}

ShutdownWk(w) == [wk EXCEPT ![w].st = "shutdown"]

\* pool.KillContainer's side effect: rr.Kill on the runner of c (the goroutine is `killing`)
KillSide(c) == [w \in Wk |-> IF c \in Runners(w) THEN killing[w] \cup {c} ELSE killing[w]]

\* worker.closeRunner(c) on w: running -> exited placeholder, worker idle when empty
CloseRunner(w, cs) ==
    [wk EXCEPT ![w] = [st |-> IF @.st = "running" /\ (@.running \ cs) \cup @.starting = {} THEN "idle" ELSE @.st,
                       starting |-> @.starting, running |-> @.running \ cs]]

\* queue.updateWithResp: a lock/unlock/cancel response is applied to the cache
RespToCache(c, s, p) ==
    /\ q' = [q EXCEPT ![c] = IF @.in THEN [in |-> TRUE, state |-> s, prio |-> p] ELSE @]
    /\ dontupd' = IF upd # "idle" THEN dontupd \cup {c} ELSE dontupd

------------------------------------------------------------------------------
(* Environment: users, crunch-run, VMs *)

UserCancel(c) ==
    /\ bud.user > 0 /\ api[c].state \in {"Queued", "Locked", "Running"}
    /\ C!ApiSetEff(c, "Cancelled", api[c].prio)
    /\ bud' = [bud EXCEPT !.user = @ - 1]
    /\ Ev("api", c, 0) /\ H("usercancel", c, 0, "")
    /\ UNCHANGED <<qv, pv, sv, ov, kf>>

UserHold(c) ==
    /\ bud.user > 0 /\ api[c].prio > 0 /\ api[c].state \in {"Queued", "Locked", "Running"}
    /\ C!ApiSetEff(c, api[c].state, 0)
    /\ bud' = [bud EXCEPT !.user = @ - 1]
    /\ Ev("api", c, 0) /\ H("userhold", c, 0, "")
    /\ UNCHANGED <<qv, pv, sv, ov, kf>>

\* crunch-run announces itself: Locked -> Running
ProcSetRunning(w, c) ==
    /\ c \in procs[w] /\ api[c].state = "Locked"
    /\ C!ApiSetEff(c, "Running", api[c].prio)
    /\ Ev("api", c, 0) /\ H("procrunning", c, w, "")
    /\ UNCHANGED <<qv, pv, sv, ov, bud, kf>>

\* crunch-run finalises: Running -> Complete (the process ends in a later step)
ProcFinalize(w, c) ==
    /\ c \in procs[w] /\ api[c].state = "Running"
    /\ C!ApiSetEff(c, "Complete", api[c].prio)
    /\ Ev("api", c, 0) /\ H("procfinalize", c, w, "")
    /\ UNCHANGED <<qv, pv, sv, ov, bud, kf>>

\* crunch-run ends because its container is final, or was never / is no longer Locked
ProcEnd(w, c) ==
    /\ c \in procs[w] /\ api[c].state \notin {"Locked", "Running"}
    /\ C!ProcExitEff(c, w)
    /\ Ev("exit", c, w) /\ H("procend", c, w, "")
    /\ UNCHANGED <<qv, pv, sv, ov, bud, kf>>

\* crunch-run dies without finalising
ProcCrash(w, c) ==
    /\ bud.crash > 0 /\ c \in procs[w]
    /\ C!ProcExitEff(c, w)
    /\ bud' = [bud EXCEPT !.crash = @ - 1]
    /\ Ev("exit", c, w) /\ H("proccrash", c, w, "")
    /\ UNCHANGED <<qv, pv, sv, ov, kf>>

VMBoot(w) ==
    /\ vmx[w].exists /\ ~vmx[w].booted
    /\ vmx' = [vmx EXCEPT ![w].booted = TRUE]
    /\ Ev("none", 0, w) /\ H("vmboot", 0, w, "")
    /\ UNCHANGED <<dcvars, qv, wk, exitedP, probing, dirty, killing, broken, rb, lsnap, born, atq, sv, ov, bud, kf>>

\* the VM stops answering (its processes go on)
VMBreak(w) ==
    /\ bud.brk > 0 /\ vmx[w].exists /\ w \notin broken
    /\ broken' = broken \cup {w}
    /\ bud' = [bud EXCEPT !.brk = @ - 1]
    /\ Ev("none", 0, w) /\ H("vmbreak", 0, w, "")
    /\ UNCHANGED <<dcvars, qv, wk, exitedP, probing, dirty, killing, vmx, rb, lsnap, born, atq, sv, ov, kf>>

\* the VM starts answering "broken" to probes (it keeps working)
VMReportBroken(w) ==
    /\ bud.brk > 0 /\ vmx[w].exists /\ w \notin rb
    /\ rb' = rb \cup {w} /\ UNCHANGED <<lsnap, born, atq>>
    /\ bud' = [bud EXCEPT !.brk = @ - 1]
    /\ Ev("none", 0, w) /\ H("vmreportbroken", 0, w, "")
    /\ UNCHANGED <<dcvars, qv, wk, exitedP, probing, dirty, killing, broken, vmx, sv, ov, kf>>

\* operator: management API hold / drain / run
OpSetIB(w, b) ==
    /\ bud.opib > 0 /\ wk[w].st \notin {"absent"} /\ ib[w] # b
    /\ C!SetIBEff(w, b)
    /\ bud' = [bud EXCEPT !.opib = @ - 1]
    /\ last' = [NoLast EXCEPT !.e = "setib", !.w = w, !.s = b] /\ H("opsetib", 0, w, b)
    /\ UNCHANGED <<qv, pv, sv, ov, kf>>

\* operator: management API "kill instance": the worker is shut down whatever it is doing
\* (Pool.KillInstance -> wkr.shutdown(); its crunch-run processes die when the instance is destroyed)
OpKillInstance(w) ==
    /\ bud.opib > 0 /\ wk[w].st \notin {"absent", "shutdown"}
    /\ wk' = ShutdownWk(w) /\ dirty' = dirty \cup {w}
    /\ bud' = [bud EXCEPT !.opib = @ - 1]
    /\ Ev("none", 0, w) /\ H("opkill", 0, w, "")
    /\ UNCHANGED <<dcvars, qv, exitedP, probing, killing, broken, vmx, rb, lsnap, born, atq, sv, ov, kf>>

------------------------------------------------------------------------------
(* Queue cache: container.Queue.Update *)

\* what a poll returns for c: ours, or Queued with priority > 0, or cached and not yet final there (fetched by UUID)
Polled(c) == IF Ours(c) \/ (api[c].state = "Queued" /\ api[c].prio > 0)
                \/ (q[c].in /\ q[c].state \notin {"Complete", "Cancelled"})      \* final entries are not re-fetched: dropped
             THEN [in |-> TRUE, state |-> api[c].state, prio |-> api[c].prio] ELSE NoEnt

\* Timing assumption (the only one): the answer to an API call of the dispatcher is delivered
\* before the second queue poll after the call was performed begins (HTTP latency < PollInterval);
\* op[c].age counts the polls begun since.  Without it an arbitrarily late answer to a lock call
\* overwrites newer cache contents (updateWithResp is unconditional) and a container cancelled
\* long ago is started once more - no double run, crunch-run gives up at once; reported as a
\* weakness of the design, not judged.
UpdStart ==
    /\ upd = "idle" /\ ~AtomicQueue
    /\ \A c \in Ctrs : op[c].st = "committed" => op[c].age = 0
    /\ op' = [c \in Ctrs |-> IF op[c].st = "committed" THEN [op[c] EXCEPT !.age = 1] ELSE op[c]]
    /\ upd' = "polled"
    /\ dontupd' = {}
    /\ nextq' = [c \in Ctrs |-> Polled(c)]
    /\ updMark' = {c \in Ctrs : exitedP[c] # "none"}
    /\ C!UpdPollEff
    /\ Ev("updpoll", 0, 0) /\ H("updstart", 0, 0, "")
    /\ UNCHANGED <<q, pv, sv, spawn, bud, kf>>

UpdEnd ==
    /\ upd = "polled" /\ ~AtomicQueue
    /\ q' = [c \in Ctrs |-> IF c \in dontupd THEN q[c] ELSE nextq[c]]
    /\ upd' = "idle" /\ dontupd' = {}
    /\ exitedP' = [c \in Ctrs |-> IF c \in updMark /\ exitedP[c] = "stale" THEN "fresh" ELSE exitedP[c]]
    /\ phase' = IF phase = "boot" THEN "fix" ELSE phase
    /\ C!UpdApplyEff
    /\ Ev("updapply", 0, 0) /\ H("updend", 0, 0, "")
    /\ UNCHANGED <<nextq, updMark, wk, probing, dirty, killing, broken, vmx, rb, lsnap, born, atq,
                   stale, rqE, rqRun, rqTodo, rqCur, unalloc, dontstart, overq, ov, bud, kf>>

\* test.Queue.Update: poll and apply in one step
UpdAtomic ==
    /\ upd = "idle" /\ AtomicQueue
    /\ q' = [c \in Ctrs |-> Polled(c)]
    /\ exitedP' = [c \in Ctrs |-> IF exitedP[c] = "stale" THEN "fresh" ELSE exitedP[c]]
    /\ phase' = IF phase = "boot" THEN "fix" ELSE phase
    /\ C!UpdAtomicEff
    /\ Ev("updatomic", 0, 0) /\ H("update", 0, 0, "")
    /\ UNCHANGED <<upd, dontupd, nextq, updMark, wk, probing, dirty, killing, broken, vmx, rb, lsnap, born, atq,
                   stale, rqE, rqRun, rqTodo, rqCur, unalloc, dontstart, overq, ov, bud, kf>>

------------------------------------------------------------------------------
(* Pool *)


ProbeStart(w) ==
    /\ wk[w].st \in {"unknown", "booting", "idle", "running"} /\ ~probing[w].on
    /\ LET b0 == wk[w].st \in {"idle", "running"}
           bt == b0 \/ Reach(w)
           okk == (bt \/ wk[w].st = "unknown") /\ Reach(w)
       IN probing' = [probing EXCEPT ![w] = [on |-> TRUE, booted |-> bt, ok |-> okk,
                                              list |-> IF okk THEN procs[w] ELSE {}, rb |-> okk /\ w \in rb]]
    /\ dirty' = dirty \ {w}
    /\ Ev("none", 0, w) /\ H("probestart", 0, w, "")
    /\ UNCHANGED <<dcvars, qv, wk, exitedP, killing, broken, vmx, rb, lsnap, born, atq, sv, ov, bud, kf>>

\* first thing probeAndUpdate does with an answer that says "broken": drain the worker (unless the
\* operator has set another idle behaviour); a separate step here, under the same lock in the code
MustDrain(w) == probing[w].on /\ probing[w].rb /\ ib[w] = "run" /\ wk[w].st \notin {"absent", "shutdown"}
ProbeDrain(w) ==
    /\ MustDrain(w)
    /\ C!SetIBEff(w, "drain")
    /\ last' = [NoLast EXCEPT !.e = "setib", !.w = w, !.s = "drain"] /\ H("probedrain", 0, w, "")
    /\ UNCHANGED <<qv, pv, sv, ov, bud, kf>>

\* tmo: the boot / probe timeout has been reached (shutdownIfBroken)
ProbeEnd(w, tmo) ==
    /\ probing[w].on /\ ~MustDrain(w)
    /\ probing' = [probing EXCEPT ![w] = NoProbe]
    /\ LET p == probing[w]
           failure == ~p.ok \/ (~p.booted /\ p.list = {} /\ wk[w].running = {})
       IN IF wk[w].st \in {"absent", "shutdown"}
          THEN ~tmo /\ UNCHANGED <<wk, exitedP, updMark, dirty, killing>>
          ELSE IF failure
          THEN /\ IF tmo /\ ib[w] # "hold"
                  THEN wk' = ShutdownWk(w) /\ dirty' = dirty \cup {w}
                  ELSE ~tmo /\ UNCHANGED <<wk, dirty>>
               /\ UNCHANGED <<exitedP, updMark, killing>>
          ELSE IF (IF ProbeCheckUpdated THEN w \in dirty ELSE wk[w].starting # {})
          THEN ~tmo /\ UNCHANGED <<wk, exitedP, updMark, dirty, killing>>      \* stale answer discarded
          ELSE LET gone == wk[w].running \ p.list
                   st1 == IF p.booted /\ wk[w].st \in {"unknown", "booting"} THEN "idle" ELSE wk[w].st
                   nstart == wk[w].starting \ p.list
                   changed == wk[w].running # p.list \/ st1 # wk[w].st
                   st2 == IF ~changed THEN wk[w].st
                          ELSE IF st1 = "idle" /\ nstart \cup p.list # {} THEN "running"
                          ELSE IF st1 = "running" /\ nstart \cup p.list = {} THEN "idle" ELSE st1
               IN /\ ~tmo
                  /\ wk' = [wk EXCEPT ![w] = [st |-> st2, starting |-> nstart, running |-> p.list]]
                  /\ exitedP' = [c \in Ctrs |-> IF c \in gone THEN "stale" ELSE exitedP[c]]
                  /\ updMark' = updMark \ gone
                  /\ killing' = [killing EXCEPT ![w] = @ \ gone]
                  /\ dirty' = IF gone # {} THEN dirty \cup {w} ELSE dirty
    /\ Ev(IF tmo THEN "probetimeout" ELSE "none", 0, w) /\ H("probeend", 0, w, IF tmo THEN "timeout" ELSE "")
    /\ UNCHANGED <<dcvars, q, upd, dontupd, nextq, broken, vmx, rb, lsnap, born, atq, sv, ov, bud, kf>>

\* remoteRunner.Start executes on the VM, then starting -> running under the pool lock
StartExec(w, c) ==
    /\ c \in wk[w].starting
    /\ IF Reach(w)
       THEN C!ProcStartEff(c, w) /\ Ev("procstart", c, w)
       ELSE C!StartFailedEff(c) /\ Ev("startfailed", c, w)
    /\ wk' = [wk EXCEPT ![w].starting = @ \ {c}, ![w].running = @ \cup {c}]
    /\ dirty' = dirty \cup {w}
    /\ H("startexec", c, w, IF Reach(w) THEN "ok" ELSE "fail")
    /\ UNCHANGED <<qv, exitedP, probing, killing, broken, vmx, rb, lsnap, born, atq, sv, ov, bud, kf>>

\* one round of the remoteRunner.Kill loop for the runner of c on w
KillTick(w, c) ==
    /\ c \in killing[w]
    /\ IF c \notin Runners(w)
       THEN /\ killing' = [killing EXCEPT ![w] = @ \ {c}]              \* runner closed: loop ends
            /\ UNCHANGED <<dcvars, wk, exitedP, updMark, dirty>> /\ Ev("none", c, w)
       ELSE /\ Reach(w)
            /\ IF c \in procs[w]
               THEN /\ C!ProcExitEff(c, w) /\ Ev("exit", c, w)            \* SIGTERM: the process ends
                    /\ UNCHANGED <<wk, exitedP, updMark, dirty, killing>>
               ELSE /\ c \in wk[w].running                                \* "--kill" says not running: onKilled
                    /\ wk' = CloseRunner(w, {c})
                    /\ exitedP' = [exitedP EXCEPT ![c] = "stale"]
                    /\ updMark' = updMark \ {c}
                    /\ dirty' = dirty \cup {w}
                    /\ killing' = [killing EXCEPT ![w] = @ \ {c}]
                    /\ UNCHANGED dcvars /\ Ev("none", c, w)
    /\ H("killtick", c, w, "")
    /\ UNCHANGED <<q, upd, dontupd, nextq, probing, broken, vmx, rb, lsnap, born, atq, sv, ov, bud, kf>>

\* runProbes: shutdownIfIdle (idle timeout or drain)
IdleShutdown(w) ==
    /\ ib[w] # "hold"
    /\ \/ wk[w].st = "idle"
       \/ wk[w].st = "booting" /\ ib[w] = "drain"
    /\ wk' = ShutdownWk(w) /\ dirty' = dirty \cup {w}
    /\ Ev("idleshutdown", 0, w) /\ H("idleshutdown", 0, w, "")
    /\ UNCHANGED <<dcvars, qv, exitedP, probing, killing, broken, vmx, rb, lsnap, born, atq, sv, ov, bud, kf>>

\* instance.Destroy succeeds (failures are the steps where it does not happen)
DestroyOK(w) ==
    /\ wk[w].st = "shutdown" /\ vmx[w].exists
    /\ vmx' = [vmx EXCEPT ![w] = NoVm]
    /\ C!VmGoneEff(w)
    /\ broken' = broken \ {w} /\ rb' = rb \ {w} /\ UNCHANGED <<lsnap, born, atq>>
    /\ Ev("vmgone", 0, w) /\ H("destroyok", 0, w, "")
    /\ UNCHANGED <<qv, wk, exitedP, probing, dirty, killing, sv, ov, bud, kf>>

\* the hold-off after a quota error ends (quotaErrorTTL) - capacity has returned
QuotaExpire ==
    /\ atq = "on" /\ atq' = "used"
    /\ Ev("none", 0, 0) /\ H("quotaexpire", 0, 0, "")
    /\ UNCHANGED <<dcvars, qv, wk, exitedP, probing, dirty, killing, broken, vmx, rb, lsnap, born, sv, ov, bud, kf>>

\* pool.runSync: the cloud's list call fails (rate limit, error): nothing changes, the timer is set
\* again; that InstanceGone / DestroyOK are weakly fair says that some later sync succeeds
SyncFail ==
    /\ Ev("none", 0, 0) /\ H("syncfail", 0, 0, "")
    /\ UNCHANGED <<dcvars, qv, pv, sv, ov, bud, kf>>

\* pool.getInstancesAndSync when the cloud's list call takes time.  ListStart: the request is sent and
\* the cloud takes its snapshot; ListApply: the answer arrives and pool.sync(threshold, instances)
\* runs: a listed instance without worker becomes an Unknown worker; a worker that is not listed is
\* dropped as "disappeared" UNLESS it was updated after `threshold`.  The code takes the threshold
\* BEFORE the call (ThresholdBefore), so a worker created while the call was in flight (born) - which
\* the snapshot cannot contain - is kept.  With the threshold taken after the call it would be dropped
\* with its live container, the container started elsewhere, and the instance found again by the
\* next list: two processes (MC_Dispatch_list_kf.cfg shows exactly that).
ListStart ==
    /\ StaleLists /\ lsnap = <<>> /\ phase # "boot"
    /\ lsnap' = <<{w \in Wk : vmx[w].exists}>> /\ born' = {}
    /\ Ev("none", 0, 0) /\ H("liststart", 0, 0, "")
    /\ UNCHANGED <<dcvars, qv, wk, exitedP, probing, dirty, killing, broken, vmx, rb, atq, sv, ov, bud, kf>>

ListApply ==
    /\ lsnap # <<>>
    /\ LET seen == lsnap[1]
           gone == {w \in Wk : wk[w].st # "absent" /\ w \notin seen /\ (ThresholdBefore => w \notin born)}
       IN /\ wk' = [w \in Wk |-> IF w \in gone THEN NoWk
                                  ELSE IF w \in seen /\ wk[w].st = "absent" /\ vmx[w].exists
                                  THEN [st |-> "unknown", starting |-> {}, running |-> {}] ELSE wk[w]]
          /\ killing' = [w \in Wk |-> IF w \in gone THEN {} ELSE killing[w]]
          /\ probing' = [w \in Wk |-> IF w \in gone THEN NoProbe ELSE probing[w]]
    /\ lsnap' = <<>> /\ born' = {}
    /\ Ev("none", 0, 0) /\ H("listapply", 0, 0, "")
    /\ UNCHANGED <<dcvars, qv, exitedP, dirty, broken, vmx, rb, atq, sv, ov, bud, kf>>

\* pool.sync: the instance is no longer listed; its runners are abandoned (no exited placeholder)
InstanceGone(w) ==
    /\ wk[w].st # "absent" /\ ~vmx[w].exists
    /\ wk' = [wk EXCEPT ![w] = NoWk]
    /\ killing' = [killing EXCEPT ![w] = {}]
    /\ probing' = [probing EXCEPT ![w] = NoProbe]
    /\ broken' = broken \ {w}
    /\ Ev("none", 0, w) /\ H("instancegone", 0, w, "")
    /\ UNCHANGED <<dcvars, qv, exitedP, dirty, vmx, rb, lsnap, born, atq, sv, ov, bud, kf>>

------------------------------------------------------------------------------
(* Scheduler *)

\* the dispatcher process is replaced: all of its memory is lost, VMs and processes go on
Restart ==
    /\ bud.restart > 0
    /\ bud' = [bud EXCEPT !.restart = @ - 1]
    /\ q' = [c \in Ctrs |-> NoEnt] /\ upd' = "idle" /\ dontupd' = {} /\ nextq' = [c \in Ctrs |-> NoEnt]
    /\ updMark' = {}
    /\ wk' = [w \in Wk |-> IF vmx[w].exists THEN [st |-> "unknown", starting |-> {}, running |-> {}] ELSE NoWk]
    /\ exitedP' = [c \in Ctrs |-> "none"] /\ probing' = [w \in Wk |-> NoProbe] /\ dirty' = {}
    /\ killing' = [w \in Wk |-> {}]
    /\ phase' = "boot" /\ stale' = {} /\ rqE' = [c \in Ctrs |-> NoEnt] /\ rqRun' = {} /\ rqTodo' = {}
    /\ rqCur' = 0 /\ unalloc' = 0 /\ dontstart' = FALSE /\ overq' = FALSE
    /\ op' = [c \in Ctrs |-> NoOp] /\ spawn' = [c \in Ctrs |-> {}]
    /\ C!RestartEff
    /\ Ev("restart", 0, 0) /\ H("restart", 0, 0, "")
    /\ UNCHANGED <<broken, vmx, rb, lsnap, born, atq, kf>>

\* fixStaleLocks: one evaluation of the loop condition and body
FixIter ==
    /\ phase = "fix"
    /\ IF ~AnyUnknown
       THEN phase' = "fixunlock" /\ UNCHANGED stale          \* loop ends; `stale` is the last one computed
       ELSE LET s == {c \in Ctrs : q[c].in /\ q[c].state = "Locked" /\ c \notin RunningKeys}
            IN stale' = s /\ phase' = IF s = {} THEN "idle" ELSE "fixwait"
    /\ Ev("none", 0, 0) /\ H("fixiter", 0, 0, "")
    /\ UNCHANGED <<dcvars, qv, pv, rqE, rqRun, rqTodo, rqCur, unalloc, dontstart, overq, ov, bud, kf>>

FixWake ==
    /\ phase = "fixwait" /\ phase' = "fix"
    /\ Ev("none", 0, 0) /\ H("fixwake", 0, 0, "")
    /\ UNCHANGED <<dcvars, qv, pv, stale, rqE, rqRun, rqTodo, rqCur, unalloc, dontstart, overq, ov, bud, kf>>

FixTimeout ==
    /\ StaleTimeout /\ phase = "fixwait"
    /\ phase' = "fixunlock"
    /\ kf' = (kf \/ AnyUnknown)
    /\ Ev("none", 0, 0) /\ H("fixtimeout", 0, 0, IF AnyUnknown THEN "unknown" ELSE "")
    /\ UNCHANGED <<dcvars, qv, pv, stale, rqE, rqRun, rqTodo, rqCur, unalloc, dontstart, overq, ov, bud>>

\* queue.Unlock(c), synchronous: API unlock + response into the cache
UnlockNow(c) ==
    IF api[c].state = "Locked"
    THEN /\ C!ApiSetEff(c, "Queued", api[c].prio) /\ Ev("api", c, 0)
         /\ RespToCache(c, "Queued", api[c].prio)
    ELSE /\ UNCHANGED <<dcvars, q, dontupd>> /\ Ev("none", c, 0)

FixUnlock(c) ==
    /\ phase = "fixunlock" /\ c \in stale
    /\ UnlockNow(c)
    /\ stale' = stale \ {c}
    /\ H("fixunlock", c, 0, "")
    /\ UNCHANGED <<upd, nextq, updMark, pv, phase, rqE, rqRun, rqTodo, rqCur, unalloc, dontstart, overq, ov, bud, kf>>

FixDone ==
    /\ phase = "fixunlock" /\ stale = {}
    /\ phase' = "idle"
    /\ Ev("none", 0, 0) /\ H("fixdone", 0, 0, "")
    /\ UNCHANGED <<dcvars, qv, pv, stale, rqE, rqRun, rqTodo, rqCur, unalloc, dontstart, overq, ov, bud, kf>>

\* runQueue: Entries(), Running(), Unallocated()
RQBegin ==
    /\ phase = "idle"
    /\ phase' = "rq"
    /\ rqE' = q /\ rqRun' = RunningKeys
    /\ rqTodo' = {c \in Ctrs : q[c].in}
    /\ unalloc' = Cardinality({w \in Wk : wk[w].st \in {"unknown", "booting", "idle"} /\ ib[w] = "run"
                                          /\ wk[w].running = {}})
    /\ rqCur' = 0 /\ dontstart' = FALSE /\ overq' = FALSE
    /\ C!EntriesEff
    /\ Ev("entries", 0, 0) /\ H("rq", 0, 0, "")
    /\ UNCHANGED <<qv, pv, stale, ov, bud, kf>>

\* one container of the sorted list, up to (not including) the start attempt
RQVisit(c) ==
    /\ phase = "rq" /\ ~overq /\ rqCur = 0 /\ c \in rqTodo
    /\ \A c2 \in rqTodo : rqE[c2].prio <= rqE[c].prio
    /\ LET e == rqE[c] IN
       IF c \in rqRun \/ e.prio < 1 \/ e.state \notin {"Queued", "Locked"}
       THEN /\ rqTodo' = rqTodo \ {c}
            /\ UNCHANGED <<dcvars, q, dontupd, wk, vmx, rb, lsnap, born, atq, killing, rqCur, unalloc, overq, spawn>> /\ Ev("none", c, 0)
       ELSE IF e.state = "Queued"
       THEN IF unalloc < 1 /\ AtQuota
            THEN /\ overq' = TRUE
                 /\ UNCHANGED <<dcvars, q, dontupd, wk, vmx, rb, lsnap, born, atq, killing, rqTodo, rqCur, unalloc, spawn>> /\ Ev("none", c, 0)
            ELSE IF HasRunner(c)
            THEN /\ killing' = KillSide(c)
                 /\ rqTodo' = rqTodo \ {c}
                 /\ UNCHANGED <<dcvars, q, dontupd, wk, vmx, rb, lsnap, born, atq, rqCur, unalloc, overq, spawn>> /\ Ev("none", c, 0)
            ELSE /\ spawn' = [spawn EXCEPT ![c] = @ \cup {"lock"}]
                 /\ unalloc' = IF unalloc > 0 THEN unalloc - 1 ELSE 0      \* may go negative in Go; floor is equivalent
                 /\ rqTodo' = rqTodo \ {c}
                 /\ UNCHANGED <<dcvars, q, dontupd, wk, vmx, rb, lsnap, born, atq, killing, rqCur, overq>> /\ Ev("none", c, 0)
       ELSE IF unalloc > 0
            THEN /\ unalloc' = unalloc - 1 /\ rqCur' = c /\ rqTodo' = rqTodo \ {c}
                 /\ UNCHANGED <<dcvars, q, dontupd, wk, vmx, rb, lsnap, born, atq, killing, overq, spawn>> /\ Ev("none", c, 0)
            ELSE IF AtQuota
            THEN /\ UnlockNow(c)
                 /\ overq' = TRUE
                 /\ UNCHANGED <<wk, vmx, rb, lsnap, born, atq, killing, rqTodo, rqCur, unalloc, spawn>>
            ELSE \/ /\ QuotaErrors /\ atq = "no"                              \* pool.Create accepted, the cloud says: quota
                    /\ atq' = "on"                                           \* (hold-off: AtQuota() until QuotaExpire)
                    /\ rqCur' = c /\ rqTodo' = rqTodo \ {c}
                    /\ UNCHANGED <<dcvars, q, dontupd, wk, vmx, rb, lsnap, born, killing, unalloc, overq, spawn>> /\ Ev("none", c, 0)
                 \/ \E w \in FreeSlots :                                     \* pool.Create
                      /\ vmx' = [vmx EXCEPT ![w] = [exists |-> TRUE, booted |-> FALSE]]
                      /\ UNCHANGED dcvars /\ Ev("none", 0, w)
                      /\ wk' = [wk EXCEPT ![w] = [st |-> "booting", starting |-> {}, running |-> {}]]
                      /\ born' = born \cup {w}
                      /\ rqCur' = c /\ rqTodo' = rqTodo \ {c}
                      /\ UNCHANGED <<q, dontupd, killing, unalloc, overq, spawn, lsnap, atq>>
    /\ H("rqvisit", c, IF \E w \in Wk : wk'[w].st = "booting" /\ wk[w].st = "absent"
                       THEN CHOOSE w \in Wk : wk'[w].st = "booting" /\ wk[w].st = "absent" ELSE 0, "")
    /\ UNCHANGED <<upd, nextq, updMark, exitedP, probing, dirty, broken, rb, phase, stale, rqE, rqRun, dontstart,
                   op, bud, kf>>

\* the start attempt for the Locked container rqCur
RQStart ==
    /\ phase = "rq" /\ rqCur # 0
    /\ LET c == rqCur
           idleW == {w \in Wk : wk[w].st = "idle" /\ ib[w] = "run"}
       IN IF dontstart
          THEN UNCHANGED <<dcvars, wk, killing, dontstart>> /\ Ev("none", c, 0)
          ELSE IF HasRunner(c)
          THEN killing' = KillSide(c) /\ UNCHANGED <<dcvars, wk, dontstart>> /\ Ev("none", c, 0)
          ELSE IF idleW # {}
          THEN \E w \in idleW :
                 /\ wk' = [wk EXCEPT ![w].st = "running", ![w].starting = @ \cup {c}]
                 /\ C!StartCallEff(c, C!Bad)
                 /\ last' = [NoLast EXCEPT !.e = "startcall", !.c = c, !.w = w,
                                           !.s = IF q[c].in THEN q[c].state ELSE "absent",
                                           !.p = IF q[c].in THEN q[c].prio ELSE 0]
                 /\ UNCHANGED <<killing, dontstart>>
          ELSE dontstart' = TRUE /\ UNCHANGED <<dcvars, wk, killing>> /\ Ev("none", c, 0)
    /\ rqCur' = 0
    /\ H("rqstart", rqCur, last'.w, "")
    /\ UNCHANGED <<qv, exitedP, probing, dirty, broken, vmx, rb, lsnap, born, atq, phase, stale, rqE, rqRun, rqTodo, unalloc, overq, ov, bud, kf>>

RQEnd ==
    /\ phase = "rq" /\ rqCur = 0 /\ (rqTodo = {} \/ overq)
    /\ IF overq
       THEN phase' = "rqtail" /\ rqTodo' = {c \in rqTodo : rqE[c].state = "Locked"}
       ELSE phase' = "sync" /\ UNCHANGED rqTodo
    /\ Ev("none", 0, 0) /\ H("rqend", 0, 0, "")
    /\ UNCHANGED <<dcvars, qv, pv, stale, rqE, rqRun, rqCur, unalloc, dontstart, overq, ov, bud, kf>>

\* overquota tail: unlock the remaining Locked entries
RQTail(c) ==
    /\ phase = "rqtail" /\ c \in rqTodo
    /\ UnlockNow(c)
    /\ rqTodo' = rqTodo \ {c}
    /\ H("rqtail", c, 0, "")
    /\ UNCHANGED <<upd, nextq, updMark, pv, phase, stale, rqE, rqRun, rqCur, unalloc, dontstart, overq, ov, bud, kf>>

\* ... and shut down an unallocated worker (one instance type: pool.Shutdown once)
RQTailEnd ==
    /\ phase = "rqtail" /\ rqTodo = {}
    /\ LET cand == IF \E w \in Wk : wk[w].st = "booting" /\ ib[w] # "hold"
                   THEN {w \in Wk : wk[w].st = "booting" /\ ib[w] # "hold"}
                   ELSE {w \in Wk : wk[w].st = "idle" /\ ib[w] # "hold"}
       IN IF unalloc >= 1 /\ cand # {}
          THEN \E w \in cand : wk' = ShutdownWk(w) /\ dirty' = dirty \cup {w}
          ELSE UNCHANGED <<wk, dirty>>
    /\ phase' = "sync"
    /\ Ev("none", 0, 0) /\ H("rqtailend", 0, 0, "")
    /\ UNCHANGED <<dcvars, qv, exitedP, probing, killing, broken, vmx, rb, lsnap, born, atq, stale, rqE, rqRun, rqTodo, rqCur, unalloc,
                   dontstart, overq, ov, bud, kf>>

\* sync: decisions on its own snapshots; goroutines are spawned, Forget is done inline
SyncWant(c) ==
    LET e == q[c]
        run == c \in RunningKeys
        ex == exitedP[c] # "none"
        fresh == exitedP[c] = "fresh"
    IN IF ~e.in THEN (IF run THEN {"kill"} ELSE {})
       ELSE CASE e.state = "Running" ->
                   IF ~run THEN (IF ~AnyUnknown THEN {"cancel"} ELSE {})
                   ELSE IF ex /\ fresh THEN {"cancel"}
                   ELSE IF e.prio = 0 THEN {"kill"} ELSE {}
              [] e.state \in {"Complete", "Cancelled"} -> IF run THEN {"kill"} ELSE {"forget"}
              [] e.state = "Queued" -> IF run THEN {"kill"} ELSE IF e.prio = 0 THEN {"forget"} ELSE {}
              [] e.state = "Locked" ->
                   IF run /\ ex /\ fresh THEN {"requeue"}
                   ELSE IF run /\ ~ex /\ e.prio = 0 THEN {"kill"}
                   ELSE IF ~run /\ e.prio = 0 THEN {"requeue"} ELSE {}
              [] OTHER -> {}

Sync ==
    /\ phase = "sync"
    /\ spawn' = [c \in Ctrs |-> spawn[c] \cup (SyncWant(c) \ {"forget"})]
    /\ q' = [c \in Ctrs |-> IF "forget" \in SyncWant(c) THEN NoEnt ELSE q[c]]
    /\ phase' = "idle"
    /\ Ev("none", 0, 0) /\ H("sync", 0, 0, "")
    /\ UNCHANGED <<dcvars, upd, dontupd, nextq, updMark, pv, stale, rqE, rqRun, rqTodo, rqCur, unalloc,
                   dontstart, overq, op, bud, kf>>

------------------------------------------------------------------------------
(* Per-container operations (goroutines) under the uuidOp latch *)

GoStart(c, k) ==
    /\ k \in spawn[c]
    /\ spawn' = [spawn EXCEPT ![c] = @ \ {k}]
    /\ IF op[c].k # "none"
       THEN UNCHANGED <<op, killing, exitedP>>                               \* uuidLock refused: dropped
       ELSE IF k = "kill"
       THEN /\ killing' = KillSide(c)                                        \* pool.KillContainer
            /\ exitedP' = [exitedP EXCEPT ![c] = "none"]                      \* pool.ForgetContainer
            /\ UNCHANGED op
       ELSE IF k = "lock" /\ ~(q[c].in /\ q[c].state = "Queued")
       THEN UNCHANGED <<op, killing, exitedP>>                               \* no longer Queued: nothing
       ELSE /\ op' = [op EXCEPT ![c] = [NoOp EXCEPT !.k = k, !.st = "latched"]]
            /\ UNCHANGED <<killing, exitedP>>
    /\ Ev("none", c, 0) /\ H("gostart", c, 0, k)
    /\ UNCHANGED <<dcvars, qv, wk, probing, dirty, broken, vmx, rb, lsnap, born, atq, sv, bud, kf>>

\* the API server performs the call
ApiCommit(c) ==
    /\ op[c].st = "latched"
    /\ LET k == op[c].k
           can == CASE k = "lock" -> api[c].state = "Queued" /\ api[c].prio > 0
                    [] k = "requeue" -> api[c].state = "Locked"
                    [] k = "cancel" -> api[c].state \in {"Queued", "Locked", "Running"}
                    [] OTHER -> FALSE
           ns == CASE k = "lock" -> "Locked" [] k = "requeue" -> "Queued" [] OTHER -> "Cancelled"
       IN IF can
          THEN /\ C!ApiSetEff(c, ns, api[c].prio) /\ Ev("api", c, 0)
               /\ IF AtomicQueue
                  THEN /\ op' = [op EXCEPT ![c] = NoOp]
                       /\ RespToCache(c, ns, api[c].prio)
                  ELSE /\ op' = [op EXCEPT ![c] = [@ EXCEPT !.st = "committed", !.rs = ns, !.rp = api[c].prio]]
                       /\ UNCHANGED <<q, dontupd>>
          ELSE /\ UNCHANGED <<dcvars, q, dontupd>> /\ Ev("none", c, 0)
               /\ op' = [op EXCEPT ![c] = NoOp]                               \* error response
    /\ H("apicommit", c, 0, op[c].k)
    /\ UNCHANGED <<upd, nextq, updMark, pv, sv, spawn, bud, kf>>

\* the call fails without effect (network, 5xx)
ApiFail(c) ==
    /\ bud.apifail > 0 /\ op[c].st = "latched"
    /\ op' = [op EXCEPT ![c] = NoOp]
    /\ bud' = [bud EXCEPT !.apifail = @ - 1]
    /\ Ev("none", c, 0) /\ H("apifail", c, 0, op[c].k)
    /\ UNCHANGED <<dcvars, qv, pv, sv, spawn, kf>>

\* the response arrives: cache updated, latch released
ApiResp(c) ==
    /\ op[c].st = "committed"
    /\ RespToCache(c, op[c].rs, op[c].rp)
    /\ op' = [op EXCEPT ![c] = NoOp]
    /\ Ev("none", c, 0) /\ H("apiresp", c, 0, op[c].k)
    /\ UNCHANGED <<dcvars, upd, nextq, updMark, pv, sv, spawn, bud, kf>>

------------------------------------------------------------------------------
EnvNext == \/ \E c \in Ctrs : UserCancel(c) \/ UserHold(c)
           \/ \E w \in Wk, c \in Ctrs : ProcSetRunning(w, c) \/ ProcFinalize(w, c) \/ ProcEnd(w, c) \/ ProcCrash(w, c)
           \/ \E w \in Wk : VMBoot(w) \/ VMBreak(w) \/ VMReportBroken(w) \/ OpSetIB(w, "hold") \/ OpSetIB(w, "drain") \/ OpSetIB(w, "run")
                            \/ OpKillInstance(w)
           \/ Restart

PoolNext == \/ UpdStart \/ UpdEnd \/ UpdAtomic \/ SyncFail \/ ListStart \/ ListApply \/ QuotaExpire
            \/ \E w \in Wk : ProbeStart(w) \/ ProbeDrain(w) \/ ProbeEnd(w, FALSE) \/ ProbeEnd(w, TRUE) \/ IdleShutdown(w)
                             \/ DestroyOK(w) \/ InstanceGone(w)
            \/ \E w \in Wk, c \in Ctrs : StartExec(w, c) \/ KillTick(w, c)
            \/ \E c \in Ctrs : ApiCommit(c) \/ ApiFail(c) \/ ApiResp(c)
            \/ \E c \in Ctrs, k \in {"lock", "cancel", "kill", "requeue"} : GoStart(c, k)

PassNext == \/ (\E c \in Ctrs : RQVisit(c)) \/ RQStart \/ RQEnd \/ (\E c \in Ctrs : RQTail(c)) \/ RQTailEnd \/ Sync

SchedNext == FixIter \/ FixWake \/ FixTimeout \/ (\E c \in Ctrs : FixUnlock(c)) \/ FixDone \/ RQBegin \/ PassNext

InPass == phase \in {"rq", "rqtail", "sync"}

\* all interleavings
Next == EnvNext \/ PoolNext \/ SchedNext
\* a scheduling pass (runQueue + sync) is not interleaved with anything else, and the goroutines
\* it spawns reach their latch at once: how the scheduler-level driver executes behaviours
GoNext == \E c \in Ctrs, k \in {"lock", "cancel", "kill", "requeue"} : GoStart(c, k)
NextAtomic == IF InPass THEN PassNext
              ELSE IF \E c \in Ctrs : spawn[c] # {} THEN GoNext
              ELSE Next

\* scenario generation (random walks): as NextAtomic, but faults only once some container has been
\* locked, and no queue refresh that would change nothing - so that walks of bounded length get
\* somewhere
NextGen == /\ NextAtomic
           /\ (ever = {}) => bud' = bud
           /\ (last'.e = "updatomic") => (q' # q \/ exitedP' # exitedP \/ phase' # phase)

Spec == Init /\ [][Next]_vars
SpecAtomic == Init /\ [][NextAtomic]_vars
SpecGen == Init /\ [][NextGen]_vars

------------------------------------------------------------------------------
(* C15: fairness and liveness.  The scheduler loop, the queue refresh, probes, the start and kill  *)
(* goroutines, API calls, Destroy and the instance list make progress (weak fairness); VMs boot     *)
(* and crunch-run proceeds (the statement's "a cloud that eventually supplies working instances");  *)
(* an instance that keeps failing its probes eventually reaches its timeout (strong fairness on the *)
(* timeout branch of ProbeEnd); idle instances eventually reach TimeoutIdle.                        *)
Wanted == \E c \in Ctrs : q[c].in /\ q[c].state \in {"Queued", "Locked"} /\ q[c].prio > 0 /\ c \notin RunningKeys
Fairness ==
    /\ WF_vars(SchedNext)
    /\ WF_vars(UpdAtomic) /\ WF_vars(UpdStart) /\ WF_vars(UpdEnd) /\ WF_vars(QuotaExpire)
    /\ \A w \in Wk : /\ WF_vars(ProbeStart(w)) /\ WF_vars(ProbeEnd(w, FALSE)) /\ SF_vars(ProbeEnd(w, TRUE))
                     /\ WF_vars(IdleShutdown(w) /\ (~Wanted \/ ib[w] = "drain")) /\ WF_vars(DestroyOK(w)) /\ WF_vars(InstanceGone(w))
                     /\ WF_vars(ProbeDrain(w))
                     /\ SF_vars(VMBoot(w))     \* "a cloud that eventually supplies working instances"
    /\ \A w \in Wk, c \in Ctrs : /\ WF_vars(StartExec(w, c)) /\ WF_vars(KillTick(w, c))
                                 /\ WF_vars(ProcSetRunning(w, c)) /\ WF_vars(ProcFinalize(w, c)) /\ WF_vars(ProcEnd(w, c))
    /\ \A c \in Ctrs : /\ WF_vars(ApiCommit(c)) /\ WF_vars(ApiResp(c))
                       /\ \A k \in {"lock", "cancel", "kill", "requeue"} : WF_vars(GoStart(c, k))

\* Timing assumption of the liveness configurations: TimeoutIdle is longer than the scheduler needs
\* to hand a waiting container to an idle instance (no idle shutdown while something is waiting).
\* ... and TimeoutBooting / TimeoutProbe are longer than a working instance needs to boot / answer
\* (only instances that have stopped answering run into them).
NextLive == /\ NextAtomic
            /\ (last'.e = "idleshutdown" => (~Wanted \/ ib[last'.w] = "drain"))
            /\ (last'.e = "probetimeout" => last'.w \in broken)
            /\ (last'.e = "setib" => last'.s # "hold")      \* an instance the operator holds is never shut down, by design
LiveSpec == Init /\ [][NextLive]_vars /\ Fairness

Final(c) == api[c].state \in {"Complete", "Cancelled"}
\* every container with positive priority ends Complete or Cancelled
Converges == <>[](\A c \in Ctrs : api[c].prio > 0 => Final(c))
\* once nothing is left to run every instance is destroyed (no operator hold in these configurations)
Released == <>[]((\A c \in Ctrs : api[c].prio = 0 \/ Final(c)) => \A w \in Wk : ~vmx[w].exists)
\* a container left Running or Locked whose process has died does not stay like that
NotStuck == \A c \in Ctrs : (api[c].state \in {"Locked", "Running"} /\ C!NoProc(c)) ~> (api[c].state \notin {"Locked", "Running"} \/ ~C!NoProc(c))
\* an instance that does not answer is shut down
BrokenGoes == \A w \in Wk : (w \in broken) ~> (w \notin broken)
\* an instance that reports itself broken is drained and shut down ...
ReportedGoes == \A w \in Wk : (w \in rb) ~> (w \notin rb)
\* ... instead of receiving more work: once the dispatcher has processed such an answer (the worker is
\* draining) no container is handed to it (safety, checked as an invariant)
NoWorkForDraining == \A w \in Wk : (last.e = "startcall" /\ last.w = w) => ib[w] = "run"

------------------------------------------------------------------------------
(* Design-level checks *)

ContractStep ==
    LET e == last' IN
    CASE e.e = "api" -> C!ApiSet(e.c, api'[e.c].state, api'[e.c].prio)
      [] e.e = "updpoll" -> C!UpdPoll
      [] e.e = "updapply" -> C!UpdApply
      [] e.e = "updatomic" -> C!UpdAtomic
      [] e.e = "entries" -> C!Entries
      [] e.e = "setib" -> C!SetIB(e.w, e.s)
      [] e.e = "startcall" -> C!StartCall(e.c, C!Bad, e.s, e.p)
      [] e.e = "procstart" -> C!ProcStart(e.c, e.w)
      [] e.e = "startfailed" -> C!StartFailed(e.c)
      [] e.e = "exit" -> C!ProcExit(e.c, e.w)
      [] e.e = "vmgone" -> C!VmGone(e.w)
      [] e.e = "restart" -> C!Restart
      [] OTHER -> UNCHANGED dcvars

\* every step is a contract step, outside the known class
Refines == [][kf' \/ ContractStep]_vars
\* without the exclusion (expected to fail when StaleTimeout = TRUE: the known finding)
RefinesAll == [][ContractStep]_vars

AtMostOneProc == kf \/ C!AtMostOneProc
AtMostOneProcAll == C!AtMostOneProc

TypeOK ==
    /\ phase \in {"boot", "fix", "fixwait", "fixunlock", "idle", "rq", "rqtail", "sync"}
    /\ \A w \in Wk : wk[w].st \in {"absent", "unknown", "booting", "idle", "running", "shutdown"}
    /\ \A c \in Ctrs : api[c].state \in C!States
    /\ unalloc \in 0 .. NW

\* bookkeeping sanity: a container is in at most one runner set unless the class kf is entered
OneRunner == kf \/ \A c \in Ctrs : Cardinality({w \in Wk : c \in Runners(w)}) <= 1

------------------------------------------------------------------------------
(* Named budgets for the configuration files (cfg: B <- Name) *)
Bud(r, cr, u, bk, af, oi) == [restart |-> r, crash |-> cr, user |-> u, brk |-> bk, apifail |-> af, opib |-> oi]
BNone    == Bud(0, 0, 0, 0, 0, 0)
BCrash   == Bud(0, 1, 1, 0, 0, 0)
BRestart == Bud(1, 1, 0, 0, 0, 0)
BSmall   == Bud(1, 1, 1, 0, 0, 0)
BFaults  == Bud(1, 1, 1, 1, 1, 1)
BLive2   == Bud(1, 1, 0, 1, 0, 0)
BLive3   == Bud(0, 1, 0, 1, 0, 1)      \* two faults on one instance: operator drain / hold, then the VM goes deaf or reports broken

------------------------------------------------------------------------------
(* Scenario emission: the sequence of steps of a behaviour *)
Emit == (Len(hist) = MaxHist) =>
          Serialize(<<[id |-> 0, nc |-> NC, nw |-> NW,
                       init |-> bud.init, steps |-> hist, kf |-> kf]>>,
                    IOEnv.VERIF_OUT,
                    [format |-> "NDJSON", charset |-> "UTF-8",
                     openOptions |-> <<"WRITE", "CREATE", "APPEND">>])
=============================================================================
