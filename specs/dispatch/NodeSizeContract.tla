-------------------------- MODULE NodeSizeContract --------------------------
(***************************************************************************)
(* C16 (a) - contract of dispatchcloud.ChooseInstanceType, over its input  *)
(* and its return value only.                                              *)
(*                                                                         *)
(* Input (variable inp), all quantities are plain integers:                *)
(*   types    sequence of [price, ram, vcpus, scratch, pre]                *)
(*   ram, kc, reserve   RuntimeConstraints.RAM, .KeepCacheRAM,             *)
(*                      Containers.ReserveExtraRAM                         *)
(*   vcpus, pre         RuntimeConstraints.VCPUs, SchedulingParameters.Preemptible *)
(*   tmps     sequence of capacities of the container's "tmp" mounts       *)
(*   imgn     the size field of the container image PDH (0 = not a PDH)    *)
(*   scale    unit of the RAM quantities: the real byte count is           *)
(*            x * scale (scale = 1: literal small byte counts, the         *)
(*            truncating division is visible; scale = 95: the real code    *)
(*            gets x * 95 * 2^20 bytes, where the division is exact and    *)
(*            the common factor 2^20 cancels).  Scratch quantities are     *)
(*            real byte counts (they fit in TLC's 32-bit integers).        *)
(*                                                                         *)
(* Statement clauses and where they are:                                   *)
(*  (a) the chosen type satisfies every constraint: VCPUs, RAM + keep      *)
(*      cache RAM + reserve after the 5 percent discount, scratch for tmp  *)
(*      mounts and for loading the Docker image, preemptibility            *)
(*                                   Choose: ok => pick \in May(inp)       *)
(*  (b) no other configured type satisfying them is cheaper                *)
(*                                   Choose: ok => no Must type is cheaper *)
(*  (c) an unsatisfiable container gets an error listing the available     *)
(*      types, never an arbitrary type                                     *)
(*                                   Choose: ~ok => Must = {} /\ listed = all *)
(*      and (a) excludes an arbitrary type.                                *)
(*                                                                         *)
(* Where the statement is silent, both readings are allowed (a type that   *)
(* is adequate under the most demanding reading is in Must, one that is    *)
(* adequate under the least demanding reading is in May; the result has to *)
(* be in May and no cheaper type may be in Must):                          *)
(*  - the rounding of the 5 percent discount: exact arithmetic             *)
(*    95 * it.RAM >= 100 * need (MustRam) or the truncating division the   *)
(*    code uses (MayRam);                                                  *)
(*  - how much scratch "loading the Docker image" takes.  The statement    *)
(*    says tmp mounts AND the image.  The only notion of the image's size  *)
(*    there is without reading the image is the documented estimate of     *)
(*    node_size.go (manifest size n -> ((n - 80) div 42) blocks of 64 MiB, *)
(*    none for a non-PDH or tiny manifest); it is used here as the         *)
(*    REFERENCE for "the image", nothing more.  Least demanding reading    *)
(*    (the floor a pick must reach): the tmp mounts plus that estimate     *)
(*    once (NeedLow = tmp + img: the load buffer shares space with tmp or  *)
(*    is not needed); where the estimate is 0 (not a PDH, tiny manifest)   *)
(*    the floor is tmp alone.  Most demanding reading (a type is CERTAINLY *)
(*    adequate, so that "a cheaper adequate type exists" or "it was not    *)
(*    unsatisfiable" may be claimed, only above it): tmp + 4 * img, and    *)
(*    tmp + 1 GiB where the estimate is 0 - another estimator (real size,  *)
(*    rounded up, a flat reservation for unknown images) stays below it.   *)
(*    The code's own figure max(tmp, img) + img lies between the two.      *)
(*  - preemptibility is required to MATCH (a non-preemptible container is  *)
(*    not put on a preemptible type and vice versa): the statement says    *)
(*    the type "satisfies ... preemptibility"; running a preemption-       *)
(*    tolerant container on an on-demand type changes what the user pays   *)
(*    for, so the code's equality is taken as the meaning.                 *)
(* Which of several cheapest adequate types is returned is not specified.  *)
(*                                                                         *)
(* The code's exact arithmetic (ChooseExact: scratch need max(tmp, img) +  *)
(* img to the byte) is what the implementation-shaped model NodeSize.tla   *)
(* is checked against; for the real code a deviation from it that stays    *)
(* within Choose is reported as DRIFT, not as a violation.                 *)
(***************************************************************************)
EXTENDS Integers, Sequences, FiniteSets

VARIABLES inp,     \* the input record (see above)
          res      \* number of results judged for this input

ncvars == <<inp, res>>

MiB64 == 67108864

ImgSize(n) == IF n < 122 THEN 0 ELSE ((n - 80) \div 42) * MiB64

RECURSIVE SumSeq(_)
SumSeq(s) == IF s = <<>> THEN 0 ELSE Head(s) + SumSeq(Tail(s))

NeedScratch(i) == LET img == ImgSize(i.imgn)               \* the code's figure
                      tmp == SumSeq(i.tmps)
                  IN  (IF tmp < img THEN img ELSE tmp) + img
NeedLow(i)  == SumSeq(i.tmps) + ImgSize(i.imgn)
Allowance == 1073741824            \* 1 GiB
NeedHigh(i) == SumSeq(i.tmps) + (IF ImgSize(i.imgn) = 0 THEN Allowance ELSE 4 * ImgSize(i.imgn))

NeedSum(i) == i.ram + i.kc + i.reserve

\* the code's arithmetic: needRAM = (sum * 100) / 95 on real byte counts
MayRam(t, i)  == t.ram * i.scale >= (NeedSum(i) * i.scale * 100) \div 95
\* exact arithmetic
MustRam(t, i) == t.ram * 95 >= NeedSum(i) * 100

Other(t, i, need) == /\ t.vcpus >= i.vcpus
                     /\ t.scratch >= need
                     /\ t.pre = i.pre

\* statement level
May(i)  == {k \in DOMAIN i.types : Other(i.types[k], i, NeedLow(i)) /\ MayRam(i.types[k], i)}
Must(i) == {k \in DOMAIN i.types : Other(i.types[k], i, NeedHigh(i)) /\ MustRam(i.types[k], i)}
\* the code's scratch figure to the byte (RAM rounding still free)
MayX(i)  == {k \in DOMAIN i.types : Other(i.types[k], i, NeedScratch(i)) /\ MayRam(i.types[k], i)}
MustX(i) == {k \in DOMAIN i.types : Other(i.types[k], i, NeedScratch(i)) /\ MustRam(i.types[k], i)}

NCInit(i) == inp = i /\ res = 0

(* ChooseInstanceType returned.  ok: no error; pick: index of the returned *)
(* type in inp.types (0 if it is not one of the configured types);         *)
(* listed: the set of indices of the types listed in the error.            *)
ChooseEff == res' = res + 1 /\ UNCHANGED inp        \* effect only (used by the impl-shaped model)

Allowed(ok, pick, listed, may, must) ==
    IF ok
    THEN /\ pick \in may                                                \* (a)
         /\ \A k \in must : inp.types[k].price >= inp.types[pick].price   \* (b)
    ELSE /\ must = {}                                                    \* (c)
         /\ listed = DOMAIN inp.types                                    \* (c)

Choose(ok, pick, listed) == Allowed(ok, pick, listed, May(inp), Must(inp)) /\ ChooseEff
ChooseExact(ok, pick, listed) == Allowed(ok, pick, listed, MayX(inp), MustX(inp)) /\ ChooseEff
=============================================================================
