-------------------------- MODULE NodeSizeContract --------------------------
(***************************************************************************)
(* C16 (a) - contract of dispatchcloud.ChooseInstanceType, over its input  *)
(* and its return value only.                                              *)
(*                                                                         *)
(* Input (variable inp), all quantities are plain integers:                *)
(*   types    sequence of [price, ram, vcpus, scratch, pre]                *)
(*   ram, kc, reserve   RuntimeConstraints.RAM, .KeepCacheRAM,             *)
(*                      Containers.ReserveExtraRAM                         *)
(*   vcpus, pre         RuntimeConstraints.VCPUs, SchedulingParameters.Preemptible *)
(*   tmps     sequence of capacities of the container's "tmp" mounts       *)
(*   imgn     the size field of the container image PDH (0 = not a PDH)    *)
(*   scale    unit of the RAM quantities: the real byte count is           *)
(*            x * scale (scale = 1: literal small byte counts, the         *)
(*            truncating division is visible; scale = 95: the real code    *)
(*            gets x * 95 * 2^20 bytes, where the division is exact and    *)
(*            the common factor 2^20 cancels).  Scratch quantities are     *)
(*            real byte counts (they fit in TLC's 32-bit integers).        *)
(*                                                                         *)
(* Statement clauses and where they are:                                   *)
(*  (a) the chosen type satisfies every constraint: VCPUs, RAM + keep      *)
(*      cache RAM + reserve after the 5 percent discount, scratch for tmp  *)
(*      mounts and for loading the Docker image, preemptibility            *)
(*                                   Choose: ok => pick \in May(inp)       *)
(*  (b) no other configured type satisfying them is cheaper                *)
(*                                   Choose: ok => no Must type is cheaper *)
(*  (c) an unsatisfiable container gets an error listing the available     *)
(*      types, never an arbitrary type                                     *)
(*                                   Choose: ~ok => Must = {} /\ listed = all *)
(*      and (a) excludes an arbitrary type.                                *)
(*                                                                         *)
(* Where the statement is silent: the rounding of the 5 percent discount.  *)
(* "it.RAM discounted by 5% covers the need" is, in exact arithmetic,      *)
(* 95 * it.RAM >= 100 * need (MustRam); the code computes                  *)
(* need * 100 \div 95 with truncation and compares (MayRam), which accepts *)
(* a type that is short by a fraction of one byte.  Both roundings are     *)
(* allowed: a type in May \ Must may be chosen or not.  The image-size     *)
(* estimate is the documented heuristic of node_size.go (manifest size     *)
(* n -> ((n - 80) \div 42) blocks of 64 MiB, nothing below 122), needed    *)
(* once as load buffer (shared with tmp space) and once extracted.         *)
(* Which of several cheapest adequate types is returned is not specified.  *)
(***************************************************************************)
EXTENDS Integers, Sequences, FiniteSets

VARIABLES inp,     \* the input record (see above)
          res      \* number of results judged for this input

ncvars == <<inp, res>>

MiB64 == 67108864

ImgSize(n) == IF n < 122 THEN 0 ELSE ((n - 80) \div 42) * MiB64

RECURSIVE SumSeq(_)
SumSeq(s) == IF s = <<>> THEN 0 ELSE Head(s) + SumSeq(Tail(s))

NeedScratch(i) == LET img == ImgSize(i.imgn)
                      tmp == SumSeq(i.tmps)
                  IN  (IF tmp < img THEN img ELSE tmp) + img

NeedSum(i) == i.ram + i.kc + i.reserve

\* the code's arithmetic: needRAM = (sum * 100) / 95 on real byte counts
MayRam(t, i)  == t.ram * i.scale >= (NeedSum(i) * i.scale * 100) \div 95
\* exact arithmetic
MustRam(t, i) == t.ram * 95 >= NeedSum(i) * 100

Other(t, i) == /\ t.vcpus >= i.vcpus
               /\ t.scratch >= NeedScratch(i)
               /\ t.pre = i.pre

May(i)  == {k \in DOMAIN i.types : Other(i.types[k], i) /\ MayRam(i.types[k], i)}
Must(i) == {k \in DOMAIN i.types : Other(i.types[k], i) /\ MustRam(i.types[k], i)}

NCInit(i) == inp = i /\ res = 0

(* ChooseInstanceType returned.  ok: no error; pick: index of the returned *)
(* type in inp.types (0 if it is not one of the configured types);         *)
(* listed: the set of indices of the types listed in the error.            *)
ChooseEff == res' = res + 1 /\ UNCHANGED inp        \* effect only (used by the impl-shaped model)

Choose(ok, pick, listed) ==
    /\ IF ok
       THEN /\ pick \in May(inp)                                          \* (a)
            /\ \A k \in Must(inp) : inp.types[k].price >= inp.types[pick].price   \* (b)
       ELSE /\ Must(inp) = {}                                             \* (c)
            /\ listed = DOMAIN inp.types                                  \* (c)
    /\ res' = res + 1
    /\ UNCHANGED inp
=============================================================================
