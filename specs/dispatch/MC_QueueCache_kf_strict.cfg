SPECIFICATION Spec
CONSTANTS
  MaxOps = 2
  MaxEnv = 2
  MaxUpd = 3
  MaxHist = 0
  Fix = FALSE
VIEW view
PROPERTIES RefinesStrictAll
CHECK_DEADLOCK FALSE
