SPECIFICATION TraceSpec
CONSTANTS
  Level = "statement"
CONSTRAINT Mark
POSTCONDITION Accepted
CHECK_DEADLOCK FALSE
