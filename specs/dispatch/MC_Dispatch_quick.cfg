SPECIFICATION SpecAtomic
CONSTANTS
  NC = 1
  NW = 1
  Mode = "exact"
  AtomicQueue = TRUE
  StaleTimeout = FALSE
  StaleLists = FALSE
  ThresholdBefore = TRUE
  ProbeCheckUpdated = TRUE
  QuotaErrors = FALSE
  InitStates = {"Queued"}
  B <- BCrash
  MaxHist = 0
VIEW view
INVARIANTS TypeOK AtMostOneProc OneRunner
PROPERTIES Refines
CHECK_DEADLOCK FALSE
