SPECIFICATION TraceSpec
CONSTANTS
  Level = "exact"
CONSTRAINT Mark
POSTCONDITION Accepted
CHECK_DEADLOCK FALSE
