SPECIFICATION TraceSpec
CONSTANTS
  Ctrs = {1, 2, 3, 4, 5, 6}
  Wk = {1, 2, 3, 4}
CONSTRAINT Mark
POSTCONDITION Accepted
INVARIANT AtMostOneProc
CHECK_DEADLOCK FALSE
