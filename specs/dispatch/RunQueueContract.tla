-------------------------- MODULE RunQueueContract --------------------------
(***************************************************************************)
(* C16 (b) - contract of ONE scheduling pass (scheduler.runQueue), over    *)
(* the queue snapshot the pass started from and the calls it made to the   *)
(* worker pool and the queue.                                              *)
(*                                                                         *)
(* snap : sequence of [prio, state ("Queued"|"Locked"), type,              *)
(*                     inrun ("no" | "live" | "exited")]                   *)
(*        - the queue entries and, per container, whether pool.Running()   *)
(*        reported a process for it at the beginning of the pass.          *)
(* qleft: how many more instances the cloud accepts before the pool        *)
(*        reports AtQuota (0 = at quota now).                              *)
(*                                                                         *)
(* A container is "waiting locked" (WL) when the snapshot has it Locked    *)
(* with priority >= 1, no process was reported for it (neither by          *)
(* Running() nor by a KillContainer call answering "still alive"), and the *)
(* pass has neither started nor unlocked it so far.                        *)
(*                                                                         *)
(* Statement clauses and where they are:                                   *)
(*  (d) "Among containers that need the same instance type a lower-        *)
(*      priority one is never started while a higher-priority Locked one   *)
(*      is still waiting for a worker"                                     *)
(*           Start(c, TRUE): no c2 in WL with the type of c and a strictly *)
(*           higher priority                                               *)
(*  (e) "when the cloud is at quota a waiting locked container is never    *)
(*      unlocked while a strictly lower-priority waiting one keeps its     *)
(*      lock"                                                              *)
(*           Unlock(c) while qleft = 0 of a WL container is remembered in  *)
(*           uq; PassDone: every WL container of strictly lower priority   *)
(*           than some member of uq has been unlocked by the end of the    *)
(*           pass (the order of the Unlock calls inside the pass is free)  *)
(* Everything else (which instances are created or shut down, Lock calls,  *)
(* failed start attempts, repeated Unlock calls, starting containers whose *)
(* priority is zero - that is C14's business) is unconstrained.  Equal     *)
(* priorities impose nothing ("strictly").                                 *)
(***************************************************************************)
EXTENDS Integers, Sequences, FiniteSets

VARIABLES snap, qleft,
          started,    \* containers started successfully in this pass
          unlocked,   \* containers for which Unlock was called in this pass
          hasproc,    \* containers for which KillContainer answered TRUE in this pass
          uq,         \* waiting locked containers unlocked while the cloud was at quota
          phase       \* "pass" | "done"

rcvars == <<snap, qleft, started, unlocked, hasproc, uq, phase>>

Ctrs == DOMAIN snap

WL(c) == /\ snap[c].state = "Locked"
         /\ snap[c].prio >= 1
         /\ snap[c].inrun = "no"
         /\ c \notin hasproc
         /\ c \notin started
         /\ c \notin unlocked

RCInit(s, q) == /\ snap = s /\ qleft = q
                /\ started = {} /\ unlocked = {} /\ hasproc = {} /\ uq = {}
                /\ phase = "pass"

StartEff(c, ok) ==
    /\ started' = IF ok THEN started \cup {c} ELSE started
    /\ UNCHANGED <<snap, qleft, unlocked, hasproc, uq, phase>>

Start(c, ok) ==
    /\ phase = "pass"
    /\ c \in Ctrs
    /\ ok => ~ \E c2 \in Ctrs : /\ c2 # c
                                /\ snap[c2].type = snap[c].type
                                /\ snap[c2].prio > snap[c].prio
                                /\ WL(c2)                                   \* (d)
    /\ StartEff(c, ok)

Kill(c, r) ==
    /\ phase = "pass"
    /\ hasproc' = IF r /\ c \in Ctrs THEN hasproc \cup {c} ELSE hasproc
    /\ UNCHANGED <<snap, qleft, started, unlocked, uq, phase>>

Create(ok) ==
    /\ phase = "pass"
    /\ qleft' = IF ok /\ qleft > 0 THEN qleft - 1 ELSE qleft
    /\ UNCHANGED <<snap, started, unlocked, hasproc, uq, phase>>

Unlock(c) ==
    /\ phase = "pass"
    /\ c \in Ctrs
    /\ uq' = IF qleft = 0 /\ WL(c) THEN uq \cup {c} ELSE uq
    /\ unlocked' = unlocked \cup {c}
    /\ UNCHANGED <<snap, qleft, started, hasproc, phase>>

Other == phase = "pass" /\ UNCHANGED rcvars        \* Shutdown, AtQuota, Lock, ... : unconstrained

PassDoneEff == phase' = "done" /\ UNCHANGED <<snap, qleft, started, unlocked, hasproc, uq>>

PassDone ==
    /\ phase = "pass"
    /\ \A c \in uq : \A c2 \in Ctrs : (snap[c2].prio < snap[c].prio /\ WL(c2)) => FALSE   \* (e)
    /\ PassDoneEff

(* The Eff operators are the state changes without the guards: the implementation-shaped model  *)
(* uses them so that none of its steps is blocked by the contract, and the refinement property  *)
(* checks that every step is a guarded contract step.                                           *)
=============================================================================
