SPECIFICATION Spec
CONSTANTS
  MaxTypes = 3
  Prices = {1, 2}
  Rams <- QRams
  Vcpus = {2}
  Scratches <- QScratches
  RamTriples <- QTriples
  NeedVcpus = {2, 3}
  TmpChoices <- STmps
  ImgNs <- SImgNs
  Scales = {1, 95}
INVARIANTS TypeOK LoopInv NoneMissed ExactImpliesStatement
PROPERTIES Refines
CHECK_DEADLOCK FALSE
