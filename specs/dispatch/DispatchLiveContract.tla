------------------------ MODULE DispatchLiveContract ------------------------
(***************************************************************************)
(* C15 - bounded-liveness contract for runs of the real dispatcher against *)
(* the stub cloud.  (The unbounded property - every runnable container     *)
(* eventually Complete or Cancelled, instances eventually released,        *)
(* nothing stuck Locked/Running without a process, unresponsive instances  *)
(* shut down - is checked on the model: Dispatch.tla, LiveSpec,            *)
(* MC_Dispatch_live*.cfg, under explicit fairness assumptions.)            *)
(*                                                                         *)
(* One run = fault injection, user/operator actions and a dispatcher       *)
(* restart at random moments, then Quiesce (no more injected actions;      *)
(* holds released) and waiting until everything has drained or a deadline  *)
(* of at least 100 x the fault-free completion time measured in the same   *)
(* test process has passed.  Observables:                                  *)
(*   Final(timedout, notfinal, instances)                                  *)
(*       notfinal  = containers with priority > 0 that are neither         *)
(*                   Complete nor Cancelled in the API truth               *)
(*       instances = number of instances still existing in the cloud       *)
(*   Crashed       the dispatcher process died (panic)                     *)
(*                                                                         *)
(* Statement clauses and where they are:                                   *)
(*  "every queued container with positive priority and a satisfiable       *)
(*   instance type eventually becomes Complete or Cancelled despite ...    *)
(*   including across a dispatcher restart; a container left Running or    *)
(*   Locked whose process has died is cancelled or re-queued rather than   *)
(*   stuck"                              Final: timedout => notfinal = {}  *)
(*  "Once the queue is empty every instance the dispatcher created is      *)
(*   eventually destroyed, and instances that fail to boot or report       *)
(*   themselves broken are drained and shut down"                          *)
(*                                       Final: timedout => instances = 0  *)
(*  "instances that ... report themselves broken are drained and shut down  *)
(*   instead of receiving more work"                                       *)
(*       Broken(w): a probe answer of instance w said "broken";            *)
(*       ProcStartOn(w): after that at most ONE more crunch-run is started *)
(*       on w by the same dispatcher (a start decided before the answer    *)
(*       could be processed cannot be excluded; a second one needs the     *)
(*       instance to have become idle again, i.e. a later probe); that it  *)
(*       is shut down is part of "instances = 0" at the end                *)
(*  A dispatcher that dies under the faults it is meant to survive makes   *)
(*  no progress at all: Crashed is never allowed.  (The drivers record     *)
(*  Crashed only for a Go panic whose first frame outside the runtime is   *)
(*  in non-test code of lib/dispatchcloud; timeouts, kills, failed set-up  *)
(*  and panics in harness or test-support code are infrastructure: such    *)
(*  runs are dropped and counted, exit 2 if there are more than two.)      *)
(* A run that drained before the deadline satisfies the contract by        *)
(* construction (that is what "drained" means).                            *)
(***************************************************************************)
EXTENDS Naturals, FiniteSets

VARIABLES lst,      \* "run" | "done"
          brk,      \* instances that have reported themselves broken
          used      \* those of them that got a crunch-run since (from the present dispatcher)
lcvars == <<lst, brk, used>>

LCInit == lst = "run" /\ brk = {} /\ used = {}

Broken(w) == brk' = brk \cup {w} /\ UNCHANGED <<lst, used>>

ProcStartOn(w) ==
    /\ w \in brk => w \notin used
    /\ used' = IF w \in brk THEN used \cup {w} ELSE used
    /\ UNCHANGED <<lst, brk>>

\* the operator changes the instance's idle behaviour (management API); the request is recorded
\* BEFORE it is made ("any") and again when it has been carried out: from the first of the two on the
\* dispatcher may have been told to use the instance, one more start may follow before the next probe
\* drains it again
OperatorRun(w) == used' = used \ {w} /\ UNCHANGED <<lst, brk>>

\* the dispatcher is replaced: the new one learns "broken" from its own first probe
Restarted == used' = {} /\ UNCHANGED <<lst, brk>>

Final(timedout, notfinal, instances) ==
    /\ lst = "run"
    /\ timedout => (notfinal = {} /\ instances = 0)
    /\ lst' = "done"
    /\ UNCHANGED <<brk, used>>

Crashed == FALSE /\ UNCHANGED lcvars

Other == UNCHANGED lcvars
=============================================================================
