------------------------ MODULE DispatchLiveContract ------------------------
(***************************************************************************)
(* C15 - bounded-liveness contract for runs of the real dispatcher against *)
(* the stub cloud.  (The unbounded property - every runnable container     *)
(* eventually Complete or Cancelled, instances eventually released,        *)
(* nothing stuck Locked/Running without a process, unresponsive instances  *)
(* shut down - is checked on the model: Dispatch.tla, LiveSpec,            *)
(* MC_Dispatch_live*.cfg, under explicit fairness assumptions.)            *)
(*                                                                         *)
(* One run = fault injection, user/operator actions and a dispatcher       *)
(* restart at random moments, then Quiesce (no more injected actions;      *)
(* holds released) and waiting until everything has drained or a deadline  *)
(* of at least 100 x the fault-free completion time measured in the same   *)
(* test process has passed.  Observables:                                  *)
(*   Final(timedout, notfinal, instances)                                  *)
(*       notfinal  = containers with priority > 0 that are neither         *)
(*                   Complete nor Cancelled in the API truth               *)
(*       instances = number of instances still existing in the cloud       *)
(*   Crashed       the dispatcher process died (panic)                     *)
(*                                                                         *)
(* Statement clauses and where they are:                                   *)
(*  "every queued container with positive priority and a satisfiable       *)
(*   instance type eventually becomes Complete or Cancelled despite ...    *)
(*   including across a dispatcher restart; a container left Running or    *)
(*   Locked whose process has died is cancelled or re-queued rather than   *)
(*   stuck"                              Final: timedout => notfinal = {}  *)
(*  "Once the queue is empty every instance the dispatcher created is      *)
(*   eventually destroyed, and instances that fail to boot or report       *)
(*   themselves broken are drained and shut down"                          *)
(*                                       Final: timedout => instances = 0  *)
(*  A dispatcher that dies under the faults it is meant to survive makes   *)
(*  no progress at all: Crashed is never allowed.                          *)
(* A run that drained before the deadline satisfies the contract by        *)
(* construction (that is what "drained" means).                            *)
(***************************************************************************)
EXTENDS Naturals, FiniteSets

VARIABLE lst        \* "run" | "done"
lcvars == <<lst>>

LCInit == lst = "run"

Final(timedout, notfinal, instances) ==
    /\ lst = "run"
    /\ timedout => (notfinal = {} /\ instances = 0)
    /\ lst' = "done"

Crashed == FALSE /\ UNCHANGED lst

Other == UNCHANGED lst
=============================================================================
