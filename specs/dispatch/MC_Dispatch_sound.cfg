SPECIFICATION Spec
CONSTANTS
  NC = 1
  NW = 1
  Mode = "sound"
  AtomicQueue = TRUE
  StaleTimeout = FALSE
  StaleLists = FALSE
  ThresholdBefore = TRUE
  ProbeCheckUpdated = TRUE
  QuotaErrors = FALSE
  InitStates = {"Queued"}
  B <- BSmall
  MaxHist = 0
VIEW view
INVARIANTS TypeOK AtMostOneProc OneRunner
PROPERTIES Refines
CHECK_DEADLOCK FALSE
