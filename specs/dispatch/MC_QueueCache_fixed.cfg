SPECIFICATION Spec
CONSTANTS
  MaxOps = 2
  MaxEnv = 2
  MaxUpd = 3
  MaxHist = 0
  Fix = TRUE
VIEW view
PROPERTIES RefinesAll
CHECK_DEADLOCK FALSE
