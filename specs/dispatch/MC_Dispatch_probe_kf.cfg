SPECIFICATION SpecAtomic
CONSTANTS
  NC = 1
  NW = 1
  Mode = "exact"
  AtomicQueue = TRUE
  StaleTimeout = FALSE
  StaleLists = FALSE
  ThresholdBefore = TRUE
  ProbeCheckUpdated = FALSE
  QuotaErrors = FALSE
  InitStates = {"Queued"}
  B <- BNone
  MaxHist = 0
VIEW view
INVARIANTS TypeOK AtMostOneProcAll
PROPERTIES RefinesAll
CHECK_DEADLOCK FALSE
