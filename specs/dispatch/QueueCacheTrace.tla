--------------------------- MODULE QueueCacheTrace ---------------------------
(***************************************************************************)
(* Judge for the queue-level binding of C14 (harness/C14_container: the    *)
(* real container.Queue against a gated fake APIClient).  Events:          *)
(*  {"ev":"reset","scn":id}                                                *)
(*  {"ev":"truth","s":state,"v":n}       the server's record changed       *)
(*  {"ev":"cache","in":bool,"v":n,"s":state,"fresh":bool,"by":step,"late":bool} *)
(*  {"ev":"note",..}                                                        *)
(***************************************************************************)
EXTENDS QueueCacheContract, TraceIO

CONSTANT Level      \* "strict": the judged clause; "full": also NoRegress and Fresh (reported as drift)

TraceInit == l = 1 /\ QCInit
TraceNext ==
    \/ IsEvent("reset") /\ tv' = 0 /\ seen' = 0 /\ nsv' = 0
    \/ IsEvent("truth") /\ Truth
    \/ IsEvent("cache") /\ (IF Level = "full" THEN CacheObsFull(Ev.in, Ev.v, Ev.s, Ev.fresh)
                                               ELSE CacheObs(Ev.in, Ev.v, Ev.s, Ev.fresh))
    \/ IsEvent("note") /\ Other
TraceSpec == TraceInit /\ [][TraceNext]_<<qcvars, l>>
=============================================================================
