--------------------------- MODULE QueueCacheTrace ---------------------------
(***************************************************************************)
(* Judge for the queue-level binding of C14 (harness/C14_container: the    *)
(* real container.Queue against a gated fake APIClient).  Events:          *)
(*  {"ev":"reset","scn":id}                                                *)
(*  {"ev":"truth","s":state,"v":n}       the server's record changed       *)
(*  {"ev":"cache","in":bool,"v":n,"s":state,"fresh":bool,"by":step,"late":bool} *)
(*  {"ev":"note",..}                                                        *)
(***************************************************************************)
EXTENDS QueueCacheContract, TraceIO

TraceInit == l = 1 /\ QCInit
TraceNext ==
    \/ IsEvent("reset") /\ tv' = 0 /\ seen' = 0
    \/ IsEvent("truth") /\ Truth
    \/ IsEvent("cache") /\ CacheObs(Ev.in, Ev.v, Ev.fresh)
    \/ IsEvent("note") /\ Other
TraceSpec == TraceInit /\ [][TraceNext]_<<qcvars, l>>
=============================================================================
