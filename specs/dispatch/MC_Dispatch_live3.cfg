SPECIFICATION LiveSpec
CONSTANTS
  NC = 1
  NW = 1
  Mode = "exact"
  AtomicQueue = TRUE
  StaleTimeout = FALSE
  StaleLists = FALSE
  ThresholdBefore = TRUE
  ProbeCheckUpdated = TRUE
  QuotaErrors = TRUE
  InitStates = {"Queued"}
  B <- BLive3
  MaxHist = 0
VIEW view
PROPERTIES Converges Released NotStuck BrokenGoes ReportedGoes
INVARIANTS NoWorkForDraining
CHECK_DEADLOCK FALSE
