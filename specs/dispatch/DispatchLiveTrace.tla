-------------------------- MODULE DispatchLiveTrace --------------------------
(***************************************************************************)
(* Judge for C15: the end-to-end traces of harness/C14_dispatchcloud, of   *)
(* which only the "final" and "crashed" events matter here.                *)
(*  {"ev":"final","timedout":bool,"notfinal":[c..],"instances":n,...}      *)
(*  {"ev":"crashed","msg","where"}                                          *)
(***************************************************************************)
EXTENDS DispatchLiveContract, TraceIO

Range(s) == {s[i] : i \in DOMAIN s}

TraceInit == l = 1 /\ LCInit

TraceNext ==
    \/ IsEvent("reset") /\ lst' = "run"
    \/ IsEvent("final") /\ Final(Ev.timedout, Range(Ev.notfinal), Ev.instances)
    \/ IsEvent("crashed") /\ Crashed
    \/ /\ l <= Len(Trace) /\ Trace[l].ev \notin {"reset", "final", "crashed"}
       /\ l' = l + 1 /\ Other

TraceSpec == TraceInit /\ [][TraceNext]_<<lcvars, l>>
=============================================================================
