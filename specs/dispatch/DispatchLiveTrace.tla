-------------------------- MODULE DispatchLiveTrace --------------------------
(***************************************************************************)
(* Judge for C15: the end-to-end traces of harness/C14_dispatchcloud, of   *)
(* which only the "final" and "crashed" events matter here.                *)
(*  {"ev":"final","timedout":bool,"notfinal":[c..],"instances":n,...}      *)
(*  {"ev":"crashed","msg","where"}                                          *)
(*  {"ev":"broken","w"}   a probe answer of instance w said "broken" (first) *)
(*  {"ev":"procsnap","c","w",..}  a crunch-run was started on w; {"ev":"restart"} *)
(***************************************************************************)
EXTENDS DispatchLiveContract, TraceIO

Range(s) == {s[i] : i \in DOMAIN s}

TraceInit == l = 1 /\ LCInit

TraceNext ==
    \/ IsEvent("reset") /\ lst' = "run" /\ brk' = {} /\ used' = {}
    \/ IsEvent("broken") /\ Broken(Ev.w)
    \/ IsEvent("procsnap") /\ ProcStartOn(Ev.w)
    \/ IsEvent("restart") /\ Restarted
    \/ IsEvent("setib") /\ (IF Ev.b \in {"run", "any"} THEN OperatorRun(Ev.w) ELSE Other)
    \/ IsEvent("final") /\ Final(Ev.timedout, Range(Ev.notfinal), Ev.instances)
    \/ IsEvent("crashed") /\ Crashed
    \/ /\ l <= Len(Trace) /\ Trace[l].ev \notin {"reset", "final", "crashed", "broken", "procsnap", "restart", "setib"}
       /\ l' = l + 1 /\ Other

TraceSpec == TraceInit /\ [][TraceNext]_<<lcvars, l>>
=============================================================================
