----------------------------- MODULE QueueCache -----------------------------
(***************************************************************************)
(* Implementation-shaped model of container.Queue for one container        *)
(* (lib/dispatchcloud/container/queue.go): Lock / Unlock / Cancel as       *)
(* request - server commit - answer (apiUpdate, updateWithResp), Update as *)
(* start (dontupdate := {}) and end (poll results applied except for       *)
(* entries in dontupdate; the poll sees the server's state at its end),    *)
(* Forget; environment: user cancel, crunch-run Running / Complete.  The   *)
(* scheduler's per-container latch allows one call in flight.              *)
(*                                                                         *)
(* updateWithResp applies an answer unconditionally.  TLC therefore finds  *)
(* NoRegress violated (RefinesAll): call; commit; the record changes;      *)
(* a complete Update; the late answer overwrites the newer cache entry.    *)
(* `late` marks exactly that class (a poll taken after the server performed *)
(* the call has been applied before the answer arrives); Refines excludes   *)
(* it and holds.                                                            *)
(***************************************************************************)
EXTENDS Naturals, Sequences, TLC, Json, IOUtils

CONSTANTS MaxOps, MaxEnv, MaxUpd, MaxHist,
          Fix        \* BOOLEAN: model the proposed repair (an answer is dropped when a poll has been applied since its request was sent)

VARIABLES tv, seen, nsv,                  \* contract
          ts,                             \* API server's state of the container
          cin, cs, cv,                    \* cache entry: present, state, version
          op,                             \* call in flight [k, st, rs, rv, late]
          upd, dontupd, uafter,           \* Update in progress; c in dontupdate; an op was in flight when it began
          ndone,                          \* number of completed Updates (the repair's updateSeq)
          taint,                          \* a late answer has been applied and no clean poll since
          nops, nenv, nupd, last, hist

C == INSTANCE QueueCacheContract
qcvars == <<tv, seen, nsv>>
vars == <<tv, seen, nsv, ts, cin, cs, cv, op, upd, dontupd, uafter, taint, ndone, nops, nenv, nupd, last, hist>>
view == <<tv, seen, nsv, ts, cin, cs, cv, op, upd, dontupd, uafter, taint, ndone, nops, nenv, nupd>>

NoOp == [k |-> "none", st |-> "none", rs |-> "", rv |-> 0, late |-> FALSE, seq |-> 0]
NoLast == [e |-> "none", in |-> FALSE, v |-> 0, s |-> "", fresh |-> FALSE, late |-> FALSE]
H(a, x) == hist' = IF Len(hist) < MaxHist THEN Append(hist, [a |-> a, x |-> x]) ELSE hist

Init == /\ C!QCInit /\ ts = "Queued"
        /\ cin = FALSE /\ cs = "" /\ cv = 0
        /\ op = NoOp /\ upd = FALSE /\ dontupd = FALSE /\ uafter = FALSE /\ taint = FALSE /\ ndone = 0
        /\ nops = 0 /\ nenv = 0 /\ nupd = 0 /\ last = NoLast /\ hist = <<>>

Obs(in, v, s, fresh, late) == last' = [e |-> "cache", in |-> in, v |-> v, s |-> s, fresh |-> fresh, late |-> late]
NoObs(e) == last' = [NoLast EXCEPT !.e = e]

SetTruth(s) == ts' = s /\ C!TruthEff

\* environment
Env(a, from, to) ==
    /\ nenv < MaxEnv /\ ts \in from
    /\ SetTruth(to) /\ nenv' = nenv + 1
    /\ NoObs("truth") /\ H(a, "")
    /\ UNCHANGED <<cin, cs, cv, op, upd, dontupd, uafter, taint, ndone, nops, nupd>>
UserCancel == Env("usercancel", {"Queued", "Locked", "Running"}, "Cancelled")
Running == Env("running", {"Locked"}, "Running")
Complete == Env("complete", {"Running"}, "Complete")

\* the dispatcher calls Lock / Unlock / Cancel (request sent)
Call(k) ==
    /\ op.k = "none" /\ nops < MaxOps
    /\ op' = [NoOp EXCEPT !.k = k, !.st = "sent", !.seq = ndone]
    /\ nops' = nops + 1
    /\ NoObs("none") /\ H("call", k)
    /\ UNCHANGED <<qcvars, ts, cin, cs, cv, upd, dontupd, uafter, taint, ndone, nenv, nupd>>

\* the API server performs it
Commit ==
    /\ op.st = "sent"
    /\ LET k == op.k
           can == CASE k = "lock" -> ts = "Queued" [] k = "unlock" -> ts = "Locked"
                    [] OTHER -> ts \in {"Queued", "Locked", "Running"}
           ns == CASE k = "lock" -> "Locked" [] k = "unlock" -> "Queued" [] OTHER -> "Cancelled"
       IN IF can
          THEN /\ SetTruth(ns) /\ NoObs("truth")
               /\ op' = [op EXCEPT !.st = "committed", !.rs = ns, !.rv = tv + 1]
          ELSE /\ UNCHANGED <<qcvars, ts>> /\ NoObs("none")
               /\ op' = [op EXCEPT !.st = "failed"]
    /\ H("commit", op.k)
    /\ UNCHANGED <<cin, cs, cv, upd, dontupd, uafter, taint, ndone, nops, nenv, nupd>>

\* the answer arrives: updateWithResp
Deliver ==
    /\ op.st \in {"committed", "failed"}
    /\ IF op.st = "committed" /\ ~(Fix /\ op.seq # ndone)
       THEN /\ dontupd' = (dontupd \/ upd)
            /\ IF cin THEN cs' = op.rs /\ cv' = op.rv ELSE UNCHANGED <<cs, cv>>
            /\ C!CacheObsEff(cin, IF cin THEN op.rv ELSE 0, IF cin THEN op.rs ELSE "")
            /\ Obs(cin, IF cin THEN op.rv ELSE 0, IF cin THEN op.rs ELSE "", FALSE, op.late)
       ELSE /\ UNCHANGED <<qcvars, cs, cv, dontupd>> /\ NoObs("none")
    /\ op' = NoOp
    /\ taint' = (taint \/ (op.st = "committed" /\ op.late /\ cin /\ ~Fix))
    /\ H("deliver", op.k)
    /\ UNCHANGED <<ts, cin, upd, uafter, ndone, nops, nenv, nupd>>

UpdStart ==
    /\ ~upd /\ nupd < MaxUpd
    /\ upd' = TRUE /\ dontupd' = FALSE /\ uafter' = (op.st # "none")
    /\ nupd' = nupd + 1
    /\ NoObs("none") /\ H("updstart", "")
    /\ UNCHANGED <<qcvars, ts, cin, cs, cv, op, taint, ndone, nops, nenv>>

\* the poll sees the server's state now; applied unless the entry is in dontupdate
UpdEnd ==
    /\ upd
    /\ ndone' = ndone + 1
    /\ LET listed == ts \in {"Queued", "Locked", "Running"} \/ (cin /\ cs \notin {"Complete", "Cancelled"}) IN
       IF dontupd
       THEN UNCHANGED <<cin, cs, cv>>
       ELSE cin' = listed /\ cs' = (IF listed THEN ts ELSE "") /\ cv' = (IF listed THEN tv ELSE 0)
    /\ upd' = FALSE /\ dontupd' = FALSE /\ uafter' = FALSE
    /\ op' = IF op.st = "committed" /\ ~dontupd THEN [op EXCEPT !.late = TRUE] ELSE op
    /\ C!CacheObsEff(cin', cv', cs')
    /\ Obs(cin', cv', cs', ~dontupd, FALSE)
    /\ taint' = (taint /\ dontupd)
    /\ H("updend", "")
    /\ UNCHANGED <<ts, nops, nenv, nupd>>

\* sync drops a finished container from the queue
Forget ==
    /\ cin /\ cs \in {"Complete", "Cancelled"}
    /\ cin' = FALSE /\ cs' = "" /\ cv' = 0
    /\ NoObs("none") /\ H("forget", "")
    /\ UNCHANGED <<qcvars, ts, op, upd, dontupd, uafter, taint, ndone, nops, nenv, nupd>>

Next == UserCancel \/ Running \/ Complete \/ (\E k \in {"lock", "unlock", "cancel"} : Call(k)) \/ Commit \/ Deliver
        \/ UpdStart \/ UpdEnd \/ Forget

Spec == Init /\ [][Next]_vars

ContractStep == CASE last'.e = "truth" -> C!Truth
                  [] last'.e = "cache" -> C!CacheObsFull(last'.in, last'.v, last'.s, last'.fresh)
                  [] OTHER -> UNCHANGED qcvars
\* expected to FAIL: the late answer (known finding KF-C14-2)
RefinesAll == [][ContractStep]_vars
\* holds: everything outside that class
Refines == [][taint \/ taint' \/ ContractStep]_vars
\* the judged clause alone (StaleStartable), no exclusion: also expected to FAIL for the code as it is
StrictStep == CASE last'.e = "truth" -> C!Truth
                [] last'.e = "cache" -> C!CacheObs(last'.in, last'.v, last'.s, last'.fresh)
                [] OTHER -> UNCHANGED qcvars
RefinesStrictAll == [][StrictStep]_vars

Emit == (Len(hist) = MaxHist) =>
          Serialize(<<[id |-> 0, steps |-> hist]>>, IOEnv.VERIF_OUT,
                    [format |-> "NDJSON", charset |-> "UTF-8", openOptions |-> <<"WRITE", "CREATE", "APPEND">>])
=============================================================================
