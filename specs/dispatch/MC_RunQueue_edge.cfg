SPECIFICATION Spec
CONSTANTS
  N = 2
  NT = 2
  Prios = {0, 1, 2}
  InRuns = {"no", "live", "exited"}
  Lates = {FALSE, TRUE}
  MaxIdle = 1
  BootVals = {0}
  QLefts = {0, 9}
  CreateOKs <- FirstOff
  StartOKs <- FirstOff
  Readies = 0
VIEW view
INVARIANTS TypeOK UnlockSuffix
PROPERTIES Refines Terminates
CHECK_DEADLOCK FALSE
