SPECIFICATION TraceSpec
CONSTANTS
  Ctrs <- BigCtrs
  Wk <- HugeWk
CONSTRAINT Mark
POSTCONDITION Accepted
CHECK_DEADLOCK FALSE
