SPECIFICATION SpecAtomic
CONSTANTS
  NC = 1
  NW = 2
  Mode = "exact"
  AtomicQueue = TRUE
  StaleTimeout = TRUE
  StaleLists = FALSE
  ThresholdBefore = TRUE
  ProbeCheckUpdated = TRUE
  QuotaErrors = FALSE
  InitStates = {"Queued"}
  B <- BRestart
  MaxHist = 0
VIEW view
INVARIANTS TypeOK AtMostOneProcAll
PROPERTIES RefinesAll
CHECK_DEADLOCK FALSE
