SPECIFICATION SpecGen
CONSTANTS
  NC = 2
  NW = 2
  Mode = "exact"
  AtomicQueue = TRUE
  StaleTimeout = FALSE
  StaleLists = FALSE
  ThresholdBefore = TRUE
  ProbeCheckUpdated = TRUE
  QuotaErrors = FALSE
  InitStates = {"Queued", "Locked"}
  B <- BCrash
  MaxHist = 120
INVARIANTS Emit
CHECK_DEADLOCK FALSE
