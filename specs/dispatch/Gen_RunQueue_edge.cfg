SPECIFICATION Spec
CONSTANTS
  N = 2
  NT = 2
  Prios = {0, 1, 2}
  InRuns = {"no", "live", "exited"}
  Lates = {FALSE, TRUE}
  MaxIdle = 1
  BootVals = {0}
  QLefts = {0, 9}
  CreateOKs <- FirstOff
  StartOKs <- FirstOff
  Readies = 0
INVARIANTS Emit
CHECK_DEADLOCK FALSE
