------------------------- MODULE QueueCacheContract -------------------------
(***************************************************************************)
(* C14, queue level - contract of the dispatcher's container queue cache   *)
(* (lib/dispatchcloud/container.Queue) for ONE container, over observable  *)
(* events: changes of the API server's record (each gets the next version  *)
(* number) and the cache entry the queue exposes through Get/Entries after *)
(* each of its own steps.                                                  *)
(*                                                                         *)
(* The dispatcher starts crunch-run for what Entries() reports Locked.     *)
(* C14 demands that "a process is started only for a container that is     *)
(* currently Locked by this dispatcher" and that a cancelled / re-queued   *)
(* container is not restarted.  A cache that lags behind the API server    *)
(* by the time since the last poll is unavoidable; what must not happen is *)
(* that the cache goes BACK to information older than what it already      *)
(* held (then a container the dispatcher has already seen Cancelled is     *)
(* Locked again in its eyes and gets started), nor that a completed poll   *)
(* which nothing interfered with leaves the cache behind the server.       *)
(*   NoRegress  CacheObs(in, v, fresh): in => v >= seen                    *)
(*   Fresh      CacheObs(in, v, fresh): fresh /\ in => v = tv              *)
(* Nothing else is constrained (which calls are made, errors, absence).    *)
(***************************************************************************)
EXTENDS Naturals

VARIABLES tv,     \* version of the API server's record (number of changes so far)
          seen    \* highest version the cache has shown

qcvars == <<tv, seen>>

QCInit == tv = 0 /\ seen = 0

(* The API server's record changes (by anybody). *)
TruthEff == tv' = tv + 1 /\ UNCHANGED seen
Truth == TruthEff

(* The queue finished a step; its cache entry for the container is absent  *)
(* (in = FALSE) or shows version v.  fresh: the step was a complete poll   *)
(* during which no answer to a call of the queue arrived.                  *)
CacheObsEff(in, v) == seen' = (IF in /\ v > seen THEN v ELSE seen) /\ UNCHANGED tv
CacheObs(in, v, fresh) ==
    /\ in => v >= seen                     \* NoRegress
    /\ (fresh /\ in) => v = tv             \* Fresh
    /\ CacheObsEff(in, v)

Other == UNCHANGED qcvars
=============================================================================
