------------------------- MODULE QueueCacheContract -------------------------
(***************************************************************************)
(* C14, queue level - contract of the dispatcher's container queue cache   *)
(* (lib/dispatchcloud/container.Queue) for ONE container, over observable  *)
(* events: changes of the API server's record (each gets the next version  *)
(* number) and the cache entry the queue exposes through Get/Entries after *)
(* each of its own steps.                                                  *)
(*                                                                         *)
(* The dispatcher starts crunch-run for what Entries() reports Locked.     *)
(* C14 demands that "a process is started only for a container that is     *)
(* currently Locked by this dispatcher" and that a cancelled / re-queued   *)
(* container is not restarted.  A cache that lags behind the API server by *)
(* ordinary polling latency is unavoidable.  What the statement excludes   *)
(* at this level - the only thing JUDGED - is:                             *)
(*   StaleStartable  the cache shows the container Locked (startable)      *)
(*                   with a version OLDER than a non-startable version it  *)
(*                   has already shown: the dispatcher had learnt that the *)
(*                   container is no longer to be run and then believes    *)
(*                   the opposite again                                    *)
(*                   CacheObs(in, v, s, fresh): ~(in /\ s = "Locked" /\ v < nsv) *)
(* The stronger, implementation-shaped properties are checked on the model *)
(* and reported as DRIFT only for the real code (CacheObsFull):            *)
(*   NoRegress  the cache never goes back to an older version at all       *)
(*   Fresh      a completed poll which no answer interfered with leaves    *)
(*              the cache equal to the server (another correct design may  *)
(*              skip a container while a call for it is in flight)         *)
(***************************************************************************)
EXTENDS Naturals

VARIABLES tv,     \* version of the API server's record (number of changes so far)
          seen,   \* highest version the cache has shown
          nsv     \* highest version the cache has shown with a state other than Locked

qcvars == <<tv, seen, nsv>>

QCInit == tv = 0 /\ seen = 0 /\ nsv = 0

(* The API server's record changes (by anybody). *)
TruthEff == tv' = tv + 1 /\ UNCHANGED <<seen, nsv>>
Truth == TruthEff

(* The queue finished a step; its cache entry for the container is absent  *)
(* (in = FALSE) or shows version v with state s.  fresh: the step was a    *)
(* complete poll during which no answer to a call of the queue arrived.    *)
CacheObsEff(in, v, s) == /\ seen' = (IF in /\ v > seen THEN v ELSE seen)
                         /\ nsv' = (IF in /\ s # "Locked" /\ v > nsv THEN v ELSE nsv)
                         /\ UNCHANGED tv
CacheObs(in, v, s, fresh) ==
    /\ ~(in /\ s = "Locked" /\ v < nsv)      \* StaleStartable
    /\ CacheObsEff(in, v, s)
CacheObsFull(in, v, s, fresh) ==
    /\ in => v >= seen                     \* NoRegress
    /\ (fresh /\ in) => v = tv             \* Fresh
    /\ CacheObs(in, v, s, fresh)

Other == UNCHANGED qcvars
=============================================================================
