SPECIFICATION Spec
CONSTANTS
  MaxOps = 3
  MaxEnv = 2
  MaxUpd = 4
  MaxHist = 16
  Fix = FALSE
INVARIANTS Emit
CHECK_DEADLOCK FALSE
