SPECIFICATION SpecAtomic
CONSTANTS
  NC = 1
  NW = 2
  Mode = "exact"
  AtomicQueue = TRUE
  StaleTimeout = FALSE
  StaleLists = FALSE
  ThresholdBefore = TRUE
  ProbeCheckUpdated = TRUE
  QuotaErrors = TRUE
  InitStates = {"Queued"}
  B <- BNone
  MaxHist = 0
VIEW view
INVARIANTS TypeOK AtMostOneProc OneRunner
PROPERTIES Refines
CHECK_DEADLOCK FALSE
