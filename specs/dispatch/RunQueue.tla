------------------------------ MODULE RunQueue ------------------------------
(***************************************************************************)
(* Implementation-shaped model of ONE pass of scheduler.runQueue           *)
(* (lib/dispatchcloud/scheduler/run_queue.go) against a small              *)
(* deterministic worker pool.                                              *)
(*                                                                         *)
(*   sorted := entries sorted by priority, descending (ties: any order)    *)
(*   running := pool.Running(); unalloc := pool.Unallocated()              *)
(*   for i, ctr := range sorted {                                     Top  *)
(*     if running[ctr] || ctr.Priority < 1 { continue }                    *)
(*     switch ctr.State {                                                  *)
(*     case Queued:                                                        *)
(*       if unalloc[it] < 1 && pool.AtQuota() { overquota = sorted[i:]; break tryrun } *)
(*       if pool.KillContainer(ctr) { continue }                     QKill *)
(*       go lockContainer(ctr); unalloc[it]--                              *)
(*     case Locked:                                                        *)
(*       if unalloc[it] > 0 { unalloc[it]-- }                              *)
(*       else if pool.AtQuota() { queue.Unlock(ctr); overquota = sorted[i:]; break tryrun } *)
(*       else if pool.Create(it) {} else { continue }               Create *)
(*       if dontstart[it] {}                                      PreStart *)
(*       else if pool.KillContainer(ctr) {}                          LKill *)
(*       else if pool.StartContainer(it, ctr) {}                     Start *)
(*       else { dontstart[it] = true }                                     *)
(*     } }                                                                 *)
(*   for ctr in overquota { if ctr.State == Locked { queue.Unlock(ctr) } } Tail *)
(*   if len(overquota) > 0 { for it, n := range unalloc { if n >= 1 { pool.Shutdown(it) } } }  Shut *)
(*                                                                         *)
(* The snapshot (Init) is a sequence of containers in the order the pass   *)
(* visits them, i.e. non-increasing priority; every arrangement of tied    *)
(* containers is a different initial state, which covers the unspecified   *)
(* order of sort.Slice.  The pool answers deterministically from its       *)
(* state: idle / booting workers per type, qleft (instances the cloud      *)
(* still accepts; AtQuota() == qleft = 0), createOK / startOK per type     *)
(* (Create fails although not at quota = throttled; StartContainer fails   *)
(* although a worker is idle).  late[c]: a process of c is discovered      *)
(* after Running() was read, so KillContainer(c) answers TRUE.             *)
(*                                                                         *)
(* TLC checks that every pass refines RunQueueContract.  The Gen           *)
(* configuration emits each snapshot with the predicted call log.          *)
(***************************************************************************)
EXTENDS Integers, Sequences, FiniteSets, TLC, Json, IOUtils

CONSTANTS N,          \* max containers in the snapshot
          NT,         \* instance types 1 .. NT
          Prios,      \* priority values
          InRuns,     \* subset of {"no", "live", "exited"}
          Lates,      \* subset of BOOLEAN
          MaxIdle,
          BootVals,   \* numbers of booting workers per type (3 or more: unallocated workers remain after two
                      \* containers of the type have been handled in the pass)
          QLefts,     \* initial qleft values (0 = at quota; 9 = never reached here)
          CreateOKs, StartOKs,  \* sets of functions 1..NT -> BOOLEAN
          Readies     \* how many booting workers may become idle DURING the pass (0 .. Readies)

VARIABLES snap, qleft, started, unlocked, hasproc, uq, phase,     \* contract ghost state
          late,                                  \* per container: KillContainer answers TRUE
          pool0,                                 \* the initial pool (for the scenario record)
          idle, boot, createOK, startOK,       \* pool state
          ready,                                 \* remaining mid-pass "worker became idle" events
          i, j, unalloc, dontstart, overquota, shutdo, pc,
          hist

C == INSTANCE RunQueueContract
rcvars == <<snap, qleft, started, unlocked, hasproc, uq, phase>>
vars == <<rcvars, late, pool0, idle, boot, createOK, startOK, ready, i, j, unalloc, dontstart, overquota,
          shutdo, pc, hist>>
view == <<rcvars, late, idle, boot, createOK, startOK, ready, i, j, unalloc, dontstart, overquota, shutdo, pc>>

T == 1 .. NT
CtrSpace == [prio : Prios, state : {"Queued", "Locked"}, type : T, inrun : InRuns]

Snapshots == UNION {{s \in [1 .. n -> CtrSpace] : \A k \in 1 .. n - 1 : s[k].prio >= s[k + 1].prio}
                    : n \in 1 .. N}

Init ==
    \E s \in Snapshots, q \in QLefts, id \in [T -> 0 .. MaxIdle], bo \in [T -> BootVals],
       co \in CreateOKs, so \in StartOKs, rd \in 0 .. Readies :
      \E la \in [DOMAIN s -> Lates] :
        /\ C!RCInit(s, q)
        /\ late = la
        /\ pool0 = [idle |-> id, boot |-> bo, qleft |-> q, createok |-> co, startok |-> so]
        /\ idle = id /\ boot = bo /\ createOK = co /\ startOK = so /\ ready = rd
        /\ i = 1 /\ j = 0
        /\ unalloc = [t \in T |-> id[t] + bo[t]]
        /\ dontstart = [t \in T |-> FALSE]
        /\ overquota = 0
        /\ shutdo = {}
        /\ pc = "top"
        /\ hist = <<>>

n == Len(snap)
c == snap[i]
t == snap[i].type

Log(op, cc, tt, r) == hist' = Append(hist, [op |-> op, c |-> cc, t |-> tt, r |-> r])

NextCtr == i' = i + 1 /\ pc' = "top"

Top ==
    /\ pc = "top" /\ i <= n
    /\ IF c.inrun # "no" \/ c.prio < 1
       THEN /\ NextCtr
            /\ UNCHANGED <<rcvars, j, unalloc, overquota, hist>>
       ELSE IF c.state = "Queued"
       THEN IF unalloc[t] < 1 /\ qleft = 0
            THEN /\ overquota' = i /\ j' = i /\ pc' = "tail"
                 /\ UNCHANGED <<rcvars, i, unalloc, hist>>
            ELSE /\ pc' = "qkill"
                 /\ UNCHANGED <<rcvars, i, j, unalloc, overquota, hist>>
       ELSE IF unalloc[t] > 0
            THEN /\ unalloc' = [unalloc EXCEPT ![t] = @ - 1]
                 /\ pc' = "prestart"
                 /\ UNCHANGED <<rcvars, i, j, overquota, hist>>
            ELSE IF qleft = 0
            THEN /\ C!Unlock(i)
                 /\ Log("unlock", i, t, TRUE)
                 /\ overquota' = i /\ j' = i /\ pc' = "tail"
                 /\ UNCHANGED <<i, unalloc>>
            ELSE /\ pc' = "create"
                 /\ UNCHANGED <<rcvars, i, j, unalloc, overquota, hist>>
    /\ UNCHANGED <<late, pool0, idle, boot, createOK, startOK, ready, dontstart, shutdo>>

TopEnd ==
    /\ pc = "top" /\ i > n
    /\ pc' = "fin"
    /\ UNCHANGED <<rcvars, late, pool0, idle, boot, createOK, startOK, ready, i, j, unalloc, dontstart,
                   overquota, shutdo, hist>>

QKill ==
    /\ pc = "qkill"
    /\ C!Kill(i, late[i])
    /\ Log("kill", i, t, late[i])
    /\ unalloc' = IF late[i] THEN unalloc ELSE [unalloc EXCEPT ![t] = @ - 1]    \* go lockContainer
    /\ NextCtr
    /\ UNCHANGED <<late, pool0, idle, boot, createOK, startOK, ready, j, dontstart, overquota, shutdo>>

Create ==
    /\ pc = "create"
    /\ LET ok == createOK[t] /\ qleft > 0 IN
         /\ C!Create(ok)
         /\ Log("create", 0, t, ok)
         /\ boot' = IF ok THEN [boot EXCEPT ![t] = @ + 1] ELSE boot
         /\ IF ok THEN pc' = "prestart" /\ i' = i ELSE NextCtr
    /\ UNCHANGED <<late, pool0, idle, createOK, startOK, ready, j, unalloc, dontstart, overquota, shutdo>>

PreStart ==
    /\ pc = "prestart"
    /\ IF dontstart[t] THEN NextCtr ELSE pc' = "lkill" /\ i' = i
    /\ UNCHANGED <<rcvars, late, pool0, idle, boot, createOK, startOK, ready, j, unalloc, dontstart,
                   overquota, shutdo, hist>>

LKill ==
    /\ pc = "lkill"
    /\ C!Kill(i, late[i])
    /\ Log("kill", i, t, late[i])
    /\ IF late[i] THEN NextCtr ELSE pc' = "start" /\ i' = i
    /\ UNCHANGED <<late, pool0, idle, boot, createOK, startOK, ready, j, unalloc, dontstart, overquota, shutdo>>

Start ==
    /\ pc = "start"
    /\ LET ok == idle[t] > 0 /\ startOK[t] IN
         /\ C!StartEff(i, ok)
         /\ Log("start", i, t, ok)
         /\ idle' = IF ok THEN [idle EXCEPT ![t] = @ - 1] ELSE idle
         /\ dontstart' = IF ok THEN dontstart ELSE [dontstart EXCEPT ![t] = TRUE]
    /\ NextCtr
    /\ UNCHANGED <<late, pool0, boot, createOK, startOK, ready, j, unalloc, overquota, shutdo>>

\* Environment: a booting worker of type tt finishes booting while the pass is under way (the real
\* pool changes concurrently with runQueue; Unallocated() was read before).  Only between two
\* containers, which is equivalent to any point before the next pool call.
Ready(tt) ==
    /\ pc = "top" /\ i <= n /\ ready > 0 /\ boot[tt] > 0
    /\ boot' = [boot EXCEPT ![tt] = @ - 1]
    /\ idle' = [idle EXCEPT ![tt] = @ + 1]
    /\ ready' = ready - 1
    /\ C!Other
    /\ Log("ready", 0, tt, TRUE)
    /\ UNCHANGED <<late, pool0, createOK, startOK, i, j, unalloc, dontstart, overquota, shutdo, pc>>

TailStep ==
    /\ pc = "tail" /\ j <= n
    /\ IF snap[j].state = "Locked"
       THEN C!Unlock(j) /\ Log("unlock", j, snap[j].type, TRUE)
       ELSE UNCHANGED <<rcvars, hist>>
    /\ j' = j + 1
    /\ UNCHANGED <<late, pool0, idle, boot, createOK, startOK, ready, i, unalloc, dontstart, overquota,
                   shutdo, pc>>

TailEnd ==
    /\ pc = "tail" /\ j > n
    /\ shutdo' = {tt \in T : unalloc[tt] >= 1}
    /\ pc' = "shut"
    /\ UNCHANGED <<rcvars, late, pool0, idle, boot, createOK, startOK, ready, i, j, unalloc, dontstart,
                   overquota, hist>>

Shut(tt) ==
    /\ pc = "shut" /\ tt \in shutdo
    /\ C!Other
    /\ Log("shutdown", 0, tt, idle[tt] > 0)
    /\ idle' = IF idle[tt] > 0 THEN [idle EXCEPT ![tt] = @ - 1] ELSE idle
    /\ shutdo' = shutdo \ {tt}
    /\ UNCHANGED <<late, pool0, boot, createOK, startOK, ready, i, j, unalloc, dontstart, overquota, pc>>

ShutEnd ==
    /\ pc = "shut" /\ shutdo = {}
    /\ pc' = "fin"
    /\ UNCHANGED <<rcvars, late, pool0, idle, boot, createOK, startOK, ready, i, j, unalloc, dontstart,
                   overquota, shutdo, hist>>

Fin ==
    /\ pc = "fin"
    /\ C!PassDoneEff
    /\ pc' = "done"
    /\ UNCHANGED <<late, pool0, idle, boot, createOK, startOK, ready, i, j, unalloc, dontstart, overquota,
                   shutdo, hist>>

Next == Top \/ TopEnd \/ QKill \/ Create \/ PreStart \/ LKill \/ Start \/ TailStep \/ TailEnd
        \/ (\E tt \in T : Shut(tt) \/ Ready(tt)) \/ ShutEnd \/ Fin

Spec == Init /\ [][Next]_vars /\ WF_vars(Next)

------------------------------------------------------------------------------
Refines == [][ \/ \E cc \in 1 .. N, b \in BOOLEAN : C!Start(cc, b) \/ C!Kill(cc, b)
               \/ \E b \in BOOLEAN : C!Create(b)
               \/ \E cc \in 1 .. N : C!Unlock(cc)
               \/ C!Other \/ C!PassDone
               \/ UNCHANGED rcvars ]_vars

TypeOK == /\ pc \in {"top", "qkill", "create", "prestart", "lkill", "start", "tail", "shut", "fin", "done"}
          /\ i \in 1 .. N + 1
          /\ qleft >= 0
          /\ \A tt \in T : idle[tt] >= 0

\* every pass ends, and it ends through PassDone (the model never gets stuck on a contract guard)
Terminates == <>(pc = "done")

\* design-level reading of clause (d): a start is preceded, for every higher-priority waiting
\* locked container of the same type, by ... nothing: there is none (checked through Refines);
\* clause (e): the unlocked containers form a priority suffix of the waiting locked ones
UnlockSuffix == pc = "done" =>
    \A a \in uq : \A b \in C!Ctrs : (snap[b].prio < snap[a].prio /\ snap[b].state = "Locked"
                                     /\ snap[b].prio >= 1 /\ snap[b].inrun = "no"
                                     /\ b \notin hasproc /\ b \notin started) => b \in unlocked

------------------------------------------------------------------------------
(* Named values for cfg files *)
AllTrue  == {[tt \in T |-> TRUE]}
AnyBool  == [T -> BOOLEAN]
FirstOff == {[tt \in T |-> TRUE], [tt \in T |-> tt # 1]}

Emit == (pc = "done") =>
          Serialize(<<[id |-> TLCGet("distinct"),
                       ctrs |-> [k \in DOMAIN snap |-> [prio |-> snap[k].prio, state |-> snap[k].state,
                                                        type |-> snap[k].type, inrun |-> snap[k].inrun,
                                                        late |-> late[k]]],
                       pool |-> pool0, log |-> hist]>>,
                    IOEnv.VERIF_OUT,
                    [format |-> "NDJSON", charset |-> "UTF-8",
                     openOptions |-> <<"WRITE", "CREATE", "APPEND">>])
=============================================================================
