SPECIFICATION LiveSpec
CONSTANTS
  NC = 1
  NW = 1
  Mode = "exact"
  AtomicQueue = TRUE
  StaleTimeout = FALSE
  StaleLists = FALSE
  ThresholdBefore = TRUE
  ProbeCheckUpdated = TRUE
  QuotaErrors = FALSE
  InitStates = {"Queued"}
  B <- BCrash
  MaxHist = 0
VIEW view
PROPERTIES Converges Released NotStuck
CHECK_DEADLOCK FALSE
