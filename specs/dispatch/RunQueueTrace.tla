---------------------------- MODULE RunQueueTrace ----------------------------
(***************************************************************************)
(* Judge for C16 (b): validates the call log of one pass of the real       *)
(* scheduler.runQueue (harness/C16_scheduler) against RunQueueContract.    *)
(* Events:                                                                 *)
(*   {"ev":"reset","scn":id,"ctrs":[{"prio","state","type","inrun","late"}..], *)
(*    "pool":{"qleft",..}}                                                 *)
(*   {"ev":"start","c":k,"t":type,"ok":bool}     pool.StartContainer       *)
(*   {"ev":"kill","c":k,"r":bool}                pool.KillContainer        *)
(*   {"ev":"create","t":type,"ok":bool}          pool.Create               *)
(*   {"ev":"unlock","c":k}                       queue.Unlock              *)
(*   {"ev":"shutdown","t":type,"r":bool}, {"ev":"atquota","r":bool},       *)
(*   {"ev":"ready","t":type}                     unconstrained             *)
(*   {"ev":"passdone"}                           runQueue returned         *)
(* c = position of the container in ctrs (0: a UUID not in the snapshot).   *)
(***************************************************************************)
EXTENDS RunQueueContract, TraceIO

TraceInit == /\ l = 1
             /\ RCInit(<<>>, 0)

TraceReset == /\ IsEvent("reset")
              /\ snap' = [k \in DOMAIN Ev.ctrs |-> [prio |-> Ev.ctrs[k].prio, state |-> Ev.ctrs[k].state,
                                                    type |-> Ev.ctrs[k].type, inrun |-> Ev.ctrs[k].inrun]]
              /\ qleft' = Ev.pool.qleft
              /\ started' = {} /\ unlocked' = {} /\ hasproc' = {} /\ uq' = {}
              /\ phase' = "pass"

TraceStart    == IsEvent("start") /\ Start(Ev.c, Ev.ok)
TraceKill     == IsEvent("kill") /\ Kill(Ev.c, Ev.r)
TraceCreate   == IsEvent("create") /\ Create(Ev.ok)
TraceUnlock   == IsEvent("unlock") /\ Unlock(Ev.c)
TraceOther    == (IsEvent("shutdown") \/ IsEvent("atquota") \/ IsEvent("ready")) /\ Other
TracePassDone == IsEvent("passdone") /\ PassDone

TraceNext == TraceReset \/ TraceStart \/ TraceKill \/ TraceCreate \/ TraceUnlock \/ TraceOther
             \/ TracePassDone

TraceSpec == TraceInit /\ [][TraceNext]_<<rcvars, l>>
=============================================================================
