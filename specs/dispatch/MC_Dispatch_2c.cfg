SPECIFICATION SpecAtomic
CONSTANTS
  NC = 2
  NW = 1
  Mode = "exact"
  AtomicQueue = TRUE
  StaleTimeout = FALSE
  StaleLists = FALSE
  ThresholdBefore = TRUE
  InitStates = {"Queued"}
  B <- BCrash
  MaxHist = 0
VIEW view
INVARIANTS TypeOK AtMostOneProc OneRunner
PROPERTIES Refines
CHECK_DEADLOCK FALSE
