---------------------------- MODULE DispatchTrace ----------------------------
(***************************************************************************)
(* Judge for C14: validates event traces recorded from the real scheduler  *)
(* (harness/C14_scheduler, mode "exact") and from the real dispatcher end  *)
(* to end (harness/C14_dispatchcloud, mode "sound") against                *)
(* DispatchContract.  Events:                                              *)
(*  {"ev":"reset","scn":id,"nc","nw","init":[state..],"mode"}              *)
(*  {"ev":"api","c","s":state,"p":prio}       API record of c changed      *)
(*  {"ev":"updatomic"}                         queue refreshed (atomic)     *)
(*  {"ev":"entries"}                           dispatcher read its queue    *)
(*  {"ev":"setib","w","b"}                     operator: hold/drain/run/any *)
(*  {"ev":"startcall","c","w","snap":[ib..],"qs","qp"}  StartContainer ok  *)
(*  {"ev":"procstart","c","w","others":[w..]}  exact: process created       *)
(*  {"ev":"procsnap","c","w","others":[w..]}   sound: process created, the  *)
(*                                             process tables sampled       *)
(*  {"ev":"startfailed","c","w"}, {"ev":"exit","c","w"}, {"ev":"vmgone","w"}, *)
(*  {"ev":"restart"}                                                        *)
(*  {"ev":"kill",..}, {"ev":"create",..}, {"ev":"note",..}  unconstrained  *)
(*  {"ev":"stubbug","c"}   the stub VM noticed two processes of c on one VM *)
(*                         (never allowed)                                  *)
(* Containers beyond nc and instances beyond nw are inert.                 *)
(***************************************************************************)
EXTENDS DispatchContract, TraceIO

Range(s) == {s[i] : i \in DOMAIN s}

TraceInit == /\ l = 1
             /\ DCInit([c \in Ctrs |-> [state |-> "Complete", prio |-> 0]], "exact")

TraceReset ==
    /\ IsEvent("reset")
    /\ api' = [c \in Ctrs |-> IF c <= Len(Ev.init) THEN [state |-> Ev.init[c], prio |-> 1]
                              ELSE [state |-> "Complete", prio |-> 0]]
    /\ procs' = [w \in Wk |-> {}]
    /\ ib' = [w \in Wk |-> "run"]
    /\ lk' = [c \in Ctrs |-> FALSE] /\ lkNext' = [c \in Ctrs |-> FALSE] /\ pass' = [c \in Ctrs |-> FALSE]
    /\ ever' = [c \in Ctrs |-> c <= Len(Ev.init) /\ Ev.init[c] = "Locked"]
    /\ pend' = [c \in Ctrs |-> NoPend]
    /\ mode' = Ev.mode

Snap(s) == [w \in Wk |-> IF w <= Len(s) THEN s[w] ELSE "run"]

TraceNext ==
    \/ TraceReset
    \/ IsEvent("api") /\ ApiSet(Ev.c, Ev.s, Ev.p)
    \/ IsEvent("updatomic") /\ UpdAtomic
    \/ IsEvent("entries") /\ Entries
    \/ IsEvent("setib") /\ SetIB(Ev.w, Ev.b)
    \/ IsEvent("startcall") /\ StartCall(Ev.c, Snap(Ev.snap), Ev.qs, Ev.qp)
    \/ IsEvent("procstart") /\ ProcStart(Ev.c, Ev.w)
    \/ IsEvent("procsnap") /\ ProcStartSnap(Ev.c, Ev.w, Range(Ev.others))
    \/ IsEvent("startfailed") /\ StartFailed(Ev.c)
    \/ IsEvent("exit") /\ ProcExit(Ev.c, Ev.w)
    \/ IsEvent("vmgone") /\ VmGone(Ev.w)
    \/ IsEvent("restart") /\ Restart
    \/ (IsEvent("kill") \/ IsEvent("create") \/ IsEvent("note")) /\ Other

TraceSpec == TraceInit /\ [][TraceNext]_<<dcvars, l>>
=============================================================================
