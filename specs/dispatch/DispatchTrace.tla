---------------------------- MODULE DispatchTrace ----------------------------
(***************************************************************************)
(* Judge for C14: validates event traces recorded from the real scheduler  *)
(* (harness/C14_scheduler, mode "exact") and from the real dispatcher end  *)
(* to end (harness/C14_dispatchcloud, mode "sound") against                *)
(* DispatchContract.  Events:                                              *)
(*  {"ev":"reset","scn":id,"nc","nw","init":[state..],"mode"}              *)
(*  {"ev":"api","c","s":state,"p":prio}       API record of c changed      *)
(*  {"ev":"updatomic"}                         queue refreshed (atomic)     *)
(*  {"ev":"entries"}                           dispatcher read its queue    *)
(*  {"ev":"setib","w","b"}                     operator: hold/drain/run/any *)
(*  {"ev":"startcall","c","w","qs","qp"}  StartContainer is being called    *)
(*        (the held / draining instances are taken from the setib events)   *)
(*  {"ev":"procstart","c","w","others":[w..]}  exact: process created       *)
(*  {"ev":"procsnap","c","w","others":[w..]}   sound: process created, the  *)
(*                                             process tables sampled       *)
(*  {"ev":"startrefused","c"}  (sound) StartContainer answered false: the  *)
(*                         startcall logged just before it is void          *)
(*  {"ev":"startfailed","c","w"}, {"ev":"exit","c","w"}, {"ev":"vmgone","w"}, *)
(*  {"ev":"restart"}                                                        *)
(*  {"ev":"kill",..}, {"ev":"create",..}, {"ev":"note",..}, {"ev":"final",..} *)
(*                                             unconstrained here          *)
(*  {"ev":"crashed","msg","where"}  the dispatcher process died (a panic in *)
(*                         the code under test): the recorded prefix is    *)
(*                         judged, the crash itself is reported separately *)
(*  {"ev":"stubbug","c"}   the stub VM said "StubDriver bug or caller bug"  *)
(*                         (pid mismatch at exit): ambiguous by its own     *)
(*                         words, not judged; a second process on the same  *)
(*                         VM is judged through procsnap (others has w)     *)
(* Containers beyond nc and instances beyond nw are inert.                 *)
(***************************************************************************)
EXTENDS DispatchContract, TraceIO

Range(s) == {s[i] : i \in DOMAIN s}

\* identity sets for the end-to-end judge (cfg: Ctrs <- BigCtrs, Wk <- BigWk)
BigCtrs == 1 .. 520
BigWk == 0 .. 1000
HugeWk == 0 .. 6000
MidCtrs == 1 .. 130
MidWk == 0 .. 300

TraceInit == /\ l = 1
             /\ DCInit([c \in Ctrs |-> [state |-> "Complete", prio |-> 0]], "exact")

TraceReset ==
    /\ IsEvent("reset")
    /\ api' = [c \in Ctrs |-> IF c <= Len(Ev.init) THEN [state |-> Ev.init[c], prio |-> 1]
                              ELSE [state |-> "Complete", prio |-> 0]]
    /\ procs' = [w \in Wk |-> {}]
    /\ ib' = [w \in Wk |-> "run"] /\ ibv' = [w \in Wk |-> 0]
    /\ lk' = {} /\ lkNext' = {} /\ pass' = {}
    /\ ever' = {c \in Ctrs : c <= Len(Ev.init) /\ Ev.init[c] = "Locked"}
    /\ pend' = [c \in Ctrs |-> NoPend]
    /\ mode' = Ev.mode

TraceNext ==
    \/ TraceReset
    \/ IsEvent("api") /\ ApiSet(Ev.c, Ev.s, Ev.p)
    \/ IsEvent("updatomic") /\ UpdAtomic
    \/ IsEvent("entries") /\ Entries
    \/ IsEvent("setib") /\ SetIB(Ev.w, Ev.b)
    \/ IsEvent("startcall") /\ StartCall(Ev.c, Bad, Ev.qs, Ev.qp)
    \/ IsEvent("procstart") /\ ProcStart(Ev.c, Ev.w)
    \/ IsEvent("procsnap") /\ ProcStartSnap(Ev.c, Ev.w, Range(Ev.others))
    \* end to end a failed "crunch-run --detach" does not void the decision (the worker may try
    \* again on the same instance); at scheduler level the simulated exec is the decision's only one
    \/ IsEvent("startfailed") /\ (IF mode = "sound" THEN Other ELSE StartFailed(Ev.c))
    \/ IsEvent("startrefused") /\ StartFailed(Ev.c)
    \/ IsEvent("exit") /\ ProcExit(Ev.c, Ev.w)
    \/ IsEvent("vmgone") /\ VmGone(Ev.w)
    \/ IsEvent("restart") /\ (IF mode = "sound" THEN SoftRestart ELSE Restart)
    \/ (IsEvent("kill") \/ IsEvent("create") \/ IsEvent("note") \/ IsEvent("final") \/ IsEvent("crashed") \/ IsEvent("broken")
        \/ IsEvent("stubbug")) /\ Other

TraceSpec == TraceInit /\ [][TraceNext]_<<dcvars, l>>
=============================================================================
