SPECIFICATION TraceSpec
CONSTANTS
  Ctrs <- MidCtrs
  Wk <- MidWk
CONSTRAINT Mark
POSTCONDITION Accepted
CHECK_DEADLOCK FALSE
