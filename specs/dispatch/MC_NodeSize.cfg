SPECIFICATION Spec
CONSTANTS
  MaxTypes = 2
  Prices = {1, 2}
  Rams <- QRams
  Vcpus = {2}
  Scratches <- QScratches
  RamTriples <- QTriples
  NeedVcpus = {2, 3}
  TmpChoices <- STmps
  ImgNs <- SImgNs
  Scales = {1, 95}
INVARIANTS TypeOK LoopInv NoneMissed ExactImpliesStatement
PROPERTIES Refines Terminates
CHECK_DEADLOCK FALSE
