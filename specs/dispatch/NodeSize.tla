------------------------------ MODULE NodeSize ------------------------------
(***************************************************************************)
(* Implementation-shaped model of dispatchcloud.ChooseInstanceType         *)
(* (lib/dispatchcloud/node_size.go).                                       *)
(*                                                                         *)
(*   needScratch := EstimateScratchSpace(ctr)                              *)
(*   needRAM = (RAM + KeepCacheRAM + ReserveExtraRAM) * 100 / 95           *)
(*   ok := false                                                           *)
(*   for _, it := range cc.InstanceTypes {      -- a MAP: any order  Visit *)
(*     switch {                                                            *)
(*     case ok && it.Price > best.Price:                                   *)
(*     case it.Scratch < needScratch:                                      *)
(*     case it.RAM < needRAM:                                              *)
(*     case it.VCPUs < needVCPUs:                                          *)
(*     case it.Preemptible != ctr.SchedulingParameters.Preemptible:        *)
(*     case it.Price == best.Price && (it.RAM < best.RAM || it.VCPUs < best.VCPUs): *)
(*     default: best = it; ok = true                                       *)
(*     } }                                                                 *)
(*   if !ok { return ConstraintsNotSatisfiableError{all types} }    Return *)
(*   return best                                                           *)
(*                                                                         *)
(* One action per loop iteration; the iteration order is chosen by the     *)
(* environment (Go map order).  Init ranges over the bounded input space:  *)
(* multisets of 1..MaxTypes types over Prices x Rams x Vcpus x Scratches x *)
(* BOOLEAN, and constraint vectors placed at the boundaries of those       *)
(* values.  TLC checks that every run refines NodeSizeContract.  The Gen   *)
(* configuration emits every input once (behaviours of length one).       *)
(***************************************************************************)
EXTENDS Integers, Sequences, FiniteSets, TLC, Json, IOUtils, SequencesExt

CONSTANTS MaxTypes,
          Prices, Rams, Vcpus, Scratches,      \* value sets of the instance-type fields
          RamTriples,                          \* set of <<ram, keep cache ram, reserve>>
          NeedVcpus,                           \* set of RuntimeConstraints.VCPUs values
          TmpChoices,                          \* set of sequences of tmp mount capacities
          ImgNs,                               \* set of PDH size fields
          Scales                               \* subset of {1, 95}

VARIABLES inp, res,                \* contract ghost state
          todo, best, ok, pc,      \* the loop
          ret                      \* the value returned

C == INSTANCE NodeSizeContract
ncvars == <<inp, res>>
vars == <<inp, res, todo, best, ok, pc, ret>>

TypeSpace == [price : Prices, ram : Rams, vcpus : Vcpus, scratch : Scratches, pre : BOOLEAN]
TS == SetToSeq(TypeSpace)
K  == Len(TS)

Tables == UNION {{s \in [1 .. n -> 1 .. K] : \A j \in 1 .. n - 1 : s[j] <= s[j + 1]} : n \in 1 .. MaxTypes}

Init ==
    \E tab \in Tables, rt \in RamTriples, v \in NeedVcpus, tm \in TmpChoices, n \in ImgNs,
       p \in BOOLEAN, sc \in Scales :
        /\ C!NCInit([types |-> [j \in DOMAIN tab |-> TS[tab[j]]],
                     ram |-> rt[1], kc |-> rt[2], reserve |-> rt[3],
                     vcpus |-> v, tmps |-> tm, imgn |-> n, pre |-> p, scale |-> sc])
        /\ todo = DOMAIN tab
        /\ best = 0
        /\ ok = FALSE
        /\ pc = "loop"
        /\ ret = [ok |-> FALSE, pick |-> 0, listed |-> {}]

\* `best` is the zero InstanceType until a type has been accepted
BestPrice == IF best = 0 THEN 0 ELSE inp.types[best].price
BestRam   == IF best = 0 THEN 0 ELSE inp.types[best].ram
BestVcpus == IF best = 0 THEN 0 ELSE inp.types[best].vcpus

NeedRAM == (C!NeedSum(inp) * inp.scale * 100) \div 95        \* in real bytes / 2^20 if scale = 95

Skip(it) == \/ ok /\ it.price > BestPrice
            \/ it.scratch < C!NeedScratch(inp)
            \/ it.ram * inp.scale < NeedRAM
            \/ it.vcpus < inp.vcpus
            \/ it.pre # inp.pre
            \/ it.price = BestPrice /\ (it.ram < BestRam \/ it.vcpus < BestVcpus)

Visit(k) ==
    /\ pc = "loop" /\ k \in todo
    /\ todo' = todo \ {k}
    /\ IF Skip(inp.types[k])
       THEN UNCHANGED <<best, ok>>
       ELSE best' = k /\ ok' = TRUE
    /\ UNCHANGED <<inp, res, pc, ret>>

Return ==
    /\ pc = "loop" /\ todo = {}
    /\ C!ChooseEff             \* unguarded: Refines checks that the step is a legal Choose
    /\ ret' = IF ok THEN [ok |-> TRUE, pick |-> best, listed |-> {}]
                    ELSE [ok |-> FALSE, pick |-> 0, listed |-> DOMAIN inp.types]
    /\ pc' = "done"
    /\ UNCHANGED <<todo, best, ok>>

Next == Return \/ \E k \in 1 .. MaxTypes : Visit(k)

Spec == Init /\ [][Next]_vars /\ WF_vars(Next)

GenSpec == Init /\ [][FALSE]_vars

------------------------------------------------------------------------------
\* the exact contract implies the statement-level one (so the model refines both)
ExactImpliesStatement == /\ C!MayX(inp) \subseteq C!May(inp)
                         /\ C!Must(inp) \subseteq C!MustX(inp)

Refines == [][ \/ C!ChooseExact(ret'.ok, ret'.pick, ret'.listed)
               \/ UNCHANGED ncvars ]_vars

TypeOK == /\ pc \in {"loop", "done"}
          /\ best \in 0 .. MaxTypes
          /\ ok <=> best # 0

\* the loop invariant that makes the result optimal whatever the map order
LoopInv == ok => /\ best \in C!MayX(inp)
                 /\ \A k \in (DOMAIN inp.types) \ todo :
                        k \in C!MayX(inp) => inp.types[k].price >= inp.types[best].price
NoneMissed == (~ok) => \A k \in (DOMAIN inp.types) \ todo : k \notin C!MayX(inp)

Terminates == <>(pc = "done")

------------------------------------------------------------------------------
(* Named value sets for the configuration files (cfg: CONSTANT X <- Name).   *)
(* RAM: type RAM 20 is met exactly by a sum of 19 (1900/95 = 20) and missed  *)
(* by 20 (2000/95 = 21); type RAM 21 is met by 20 only thanks to truncation  *)
(* (May but not Must).  Scratch: 128 MiB is met exactly by a 64 MiB image    *)
(* with at most 64 MiB of tmp mounts (manifest sizes 122..163) and missed by *)
(* one byte more; manifest size 164 means two blocks, 121 means none.        *)
Mi128 == 134217728
QRams      == {20, 21}
QScratches == {Mi128 - 1, Mi128}
QTriples   == {<<19, 0, 0>>, <<12, 4, 4>>, <<20, 0, 1>>}
QTmps      == {<<>>, <<67108865>>, <<30000000, 37108864>>}
QImgNs     == {0, 121, 122, 164}
STmps      == {<<>>, <<30000000, 37108865>>}
SImgNs     == {121, 122, 164}
TRams      == {20, 21, 40}
TScratches == {Mi128 - 1, Mi128, 2 * Mi128}
TTriples   == {<<19, 0, 0>>, <<12, 4, 4>>, <<20, 0, 1>>, <<0, 0, 0>>, <<30, 8, 0>>, <<30, 0, 9>>}
TTmps      == {<<>>, <<67108865>>, <<30000000, 37108864>>, <<2 * Mi128>>}
TImgNs     == {0, 121, 122, 163, 164}
------------------------------------------------------------------------------
Emit == Serialize(<<[id |-> TLCGet("distinct"), types |-> inp.types, ram |-> inp.ram, kc |-> inp.kc,
                     reserve |-> inp.reserve, vcpus |-> inp.vcpus, tmps |-> inp.tmps,
                     imgn |-> inp.imgn, pre |-> inp.pre, scale |-> inp.scale,
                     may |-> SetToSeq(C!MayX(inp)), must |-> SetToSeq(C!MustX(inp))]>>,
                  IOEnv.VERIF_OUT,
                  [format |-> "NDJSON", charset |-> "UTF-8",
                   openOptions |-> <<"WRITE", "CREATE", "APPEND">>])
=============================================================================
