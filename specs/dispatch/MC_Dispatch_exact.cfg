SPECIFICATION SpecAtomic
CONSTANTS
  NC = 1
  NW = 2
  Mode = "exact"
  AtomicQueue = TRUE
  StaleTimeout = TRUE
  StaleLists = FALSE
  ThresholdBefore = TRUE
  ProbeCheckUpdated = TRUE
  QuotaErrors = FALSE
  InitStates = {"Queued", "Locked"}
  B <- BSmall
  MaxHist = 0
VIEW view
INVARIANTS TypeOK AtMostOneProc OneRunner
PROPERTIES Refines
CHECK_DEADLOCK FALSE
