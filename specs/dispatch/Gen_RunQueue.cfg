SPECIFICATION Spec
CONSTANTS
  N = 2
  NT = 2
  Prios = {1, 2}
  InRuns = {"no"}
  Lates = {FALSE}
  MaxIdle = 1
  BootVals = {0, 1, 3}
  QLefts = {0, 1, 9}
  CreateOKs <- FirstOff
  StartOKs <- AllTrue
  Readies = 1
INVARIANTS Emit
CHECK_DEADLOCK FALSE
