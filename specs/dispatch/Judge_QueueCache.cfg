SPECIFICATION TraceSpec
CONSTRAINT Mark
POSTCONDITION Accepted
CHECK_DEADLOCK FALSE
