SPECIFICATION TraceSpec
CONSTANTS
  Level = "strict"
CONSTRAINT Mark
POSTCONDITION Accepted
CHECK_DEADLOCK FALSE
