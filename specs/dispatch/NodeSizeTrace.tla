---------------------------- MODULE NodeSizeTrace ----------------------------
(***************************************************************************)
(* Judge for C16 (a): validates results recorded from the real             *)
(* dispatchcloud.ChooseInstanceType (harness/C16_dispatchcloud) against    *)
(* NodeSizeContract.  Events:                                              *)
(*   {"ev":"reset","scn":id,"types":[{"price","ram","vcpus","scratch","pre"}..], *)
(*    "ram","kc","reserve","vcpus","tmps":[..],"imgn","pre","scale"}       *)
(*        the input as the driver passed it to the code (abstracted back   *)
(*        from the concrete cluster/container objects)                     *)
(*   {"ev":"choose","ok":bool,"pick":k,"listed":[k..],"kind":string}       *)
(*        one call's result: pick = index of the returned type in types    *)
(*        (0: none / not a configured type), listed = indices of the types *)
(*        listed in a ConstraintsNotSatisfiableError (empty otherwise)     *)
(***************************************************************************)
EXTENDS NodeSizeContract, TraceIO

CONSTANT Level      \* "statement": what is judged; "exact": the code's arithmetic to the byte (drift)

Range(s) == {s[i] : i \in DOMAIN s}

TraceInit == /\ l = 1
             /\ NCInit([types |-> <<>>, ram |-> 0, kc |-> 0, reserve |-> 0, vcpus |-> 0,
                        tmps |-> <<>>, imgn |-> 0, pre |-> FALSE, scale |-> 1])

TraceReset == /\ IsEvent("reset")
              /\ inp' = [types |-> Ev.types, ram |-> Ev.ram, kc |-> Ev.kc, reserve |-> Ev.reserve,
                         vcpus |-> Ev.vcpus, tmps |-> Ev.tmps, imgn |-> Ev.imgn, pre |-> Ev.pre,
                         scale |-> Ev.scale]
              /\ res' = 0

TraceChoose == IsEvent("choose") /\ (IF Level = "exact" THEN ChooseExact(Ev.ok, Ev.pick, Range(Ev.listed))
                                                         ELSE Choose(Ev.ok, Ev.pick, Range(Ev.listed)))

TraceNext == TraceReset \/ TraceChoose

TraceSpec == TraceInit /\ [][TraceNext]_<<ncvars, l>>
=============================================================================
