SPECIFICATION SpecGen
CONSTANTS
  NC = 1
  NW = 2
  Mode = "exact"
  AtomicQueue = TRUE
  StaleTimeout = TRUE
  StaleLists = FALSE
  ThresholdBefore = TRUE
  ProbeCheckUpdated = TRUE
  QuotaErrors = FALSE
  InitStates = {"Queued", "Locked"}
  B <- BRestart
  MaxHist = 120
INVARIANTS Emit
CHECK_DEADLOCK FALSE
