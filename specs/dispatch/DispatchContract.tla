-------------------------- MODULE DispatchContract --------------------------
(***************************************************************************)
(* C14 - contract of the cloud dispatcher over observable events only:     *)
(* what the API server holds for each container, when the dispatcher's     *)
(* queue was refreshed and read, which start decisions the dispatcher      *)
(* made, which crunch-run processes exist on which instance, what the      *)
(* operator told the dispatcher about each instance.                       *)
(*                                                                         *)
(*   api[c]    [state, prio]  the API server's record (Locked / Running    *)
(*                            always means: by this dispatcher's token)    *)
(*   procs[w]  containers with a live crunch-run process on instance w     *)
(*             (the VM's process table)                                    *)
(*   ib[w]     "run" | "hold" | "drain": what the operator last asked for  *)
(*             ("any" while such a request is being carried out)           *)
(*   ibv[w]    number of such requests for w so far (begun or completed)   *)
(*   lk        containers that were Locked with priority > 0 when the      *)
(*             queue data the dispatcher currently holds was polled, or at *)
(*             some event since (lkNext: the same for a poll under way)    *)
(*   pass      the same, frozen when the dispatcher last read its queue    *)
(*             (Entries) and extended by later events                      *)
(*   ever      containers that have been Locked with priority > 0          *)
(*   pend[c]   the start decisions for c not yet followed by a process (a  *)
(*             sequence: after a dispatcher restart inside one process a   *)
(*             decision of the old dispatcher may still be carried out     *)
(*             while the new one decides again); each entry is the set of  *)
(*             instances that were (certainly) held or draining when the   *)
(*             decision began, each with its ibv at that moment: <<w, v>>  *)
(*   mode      which reading of "currently Locked" (clause b) is judged:   *)
(*             "exact"  scheduler-level binding: a scheduling pass is not  *)
(*                      interleaved with anything, the queue stub is the   *)
(*                      truth the scheduler can know: at the decision the  *)
(*                      dispatcher's queue reports c Locked, priority > 0  *)
(*                      (and mutual exclusion is required at the decision  *)
(*                      already)                                           *)
(*             "sound"  end-to-end binding with a queue whose lock/unlock/ *)
(*                      cancel and refresh are atomic (test.Queue): c was  *)
(*                      Locked, priority > 0 at the refresh whose data the *)
(*                      pass read, or later (pass)                         *)
(*             "async"  a queue with delayed answers (container.Queue):    *)
(*                      an answer to a lock call may overwrite newer cache *)
(*                      contents, so only "c has been Locked" (ever) is    *)
(*                      sound                                              *)
(*                                                                         *)
(* Statement clauses and where they are:                                   *)
(*  (a) "at most one crunch-run process exists for a given container       *)
(*      across all instances at any moment"                                *)
(*         ProcStart(c, w): c has no live process on any instance          *)
(*         (=> invariant AtMostOneProc); exact: also at StartCall          *)
(*  (b) "a process is started only for a container that is currently       *)
(*      Locked by this dispatcher with priority above zero"                *)
(*         StartCall(c, snap, qs, qp): see mode.  "Currently" cannot be    *)
(*         sharper than the dispatcher's information: it polls the API     *)
(*         server, so a cancel that lands after the poll it acts on is     *)
(*         invisible to it.  ProcStart(c, w) requires a pending StartCall. *)
(*  (c) "never started on instances that are held, draining, still booting *)
(*      or shut down"                                                      *)
(*         ProcStart(c, w): w was not held or draining when the decision   *)
(*         was made (some pending decision d with w not in d).  An instance that executes a     *)
(*         command has booted and has not been destroyed; "shut down but   *)
(*         not yet destroyed" is not observable here (limit, see C14 note).*)
(*  (d) "a container that was cancelled, completed, put on hold or         *)
(*      re-queued has its lingering process killed rather than restarted"  *)
(*         safety half = (b): after such a change pass[c] is false from    *)
(*         the next poll on, until c is Locked again; the "is killed" half *)
(*         is liveness: checked on the model and by C15's bounded contract.*)
(* Everything else is unconstrained.                                       *)
(*                                                                         *)
(* The *Eff operators are the state changes without the guards: the        *)
(* implementation-shaped model uses them so that none of its steps is      *)
(* blocked by the contract; its refinement property checks the guards.     *)
(***************************************************************************)
EXTENDS Naturals, FiniteSets, Sequences

CONSTANTS Ctrs, Wk       \* sets of container / instance identities

VARIABLES api, procs, ib, ibv, lk, lkNext, pass, ever, pend, mode

dcvars == <<api, procs, ib, ibv, lk, lkNext, pass, ever, pend, mode>>

States == {"Queued", "Locked", "Running", "Complete", "Cancelled"}

Startable(c) == api[c].state = "Locked" /\ api[c].prio > 0
NoProc(c) == \A w \in Wk : c \notin procs[w]
NoPend == <<>>
RemoveAt(s, i) == SubSeq(s, 1, i - 1) \o SubSeq(s, i + 1, Len(s))

DCInit(a, m) ==
    /\ api = a
    /\ procs = [w \in Wk |-> {}]
    /\ ib = [w \in Wk |-> "run"] /\ ibv = [w \in Wk |-> 0]
    /\ lk = {} /\ lkNext = {} /\ pass = {}
    /\ ever = {c \in Ctrs : a[c].state = "Locked" /\ a[c].prio > 0}
    /\ pend = [c \in Ctrs |-> NoPend]
    /\ mode = m

(* The API server's record of c changes (by anybody). *)
ApiSetEff(c, s, p) ==
    /\ api' = [api EXCEPT ![c] = [state |-> s, prio |-> p]]
    /\ LET now == IF s = "Locked" /\ p > 0 THEN {c} ELSE {} IN
         /\ lk' = lk \cup now
         /\ lkNext' = lkNext \cup now
         /\ pass' = pass \cup now
         /\ ever' = ever \cup now
    /\ UNCHANGED <<procs, ib, ibv, pend, mode>>
ApiSet(c, s, p) == ApiSetEff(c, s, p)

(* The dispatcher's queue polls the API server ... *)
UpdPollEff == lkNext' = {c \in Ctrs : Startable(c)} /\ UNCHANGED <<api, procs, ib, ibv, lk, pass, ever, pend, mode>>
UpdPoll == UpdPollEff
(* ... and makes the polled data current. *)
UpdApplyEff == lk' = lkNext /\ UNCHANGED <<api, procs, ib, ibv, lkNext, pass, ever, pend, mode>>
UpdApply == UpdApplyEff

(* Both at once (a queue whose refresh is atomic). *)
UpdAtomicEff == /\ lk' = {c \in Ctrs : Startable(c)} /\ lkNext' = {c \in Ctrs : Startable(c)}
                /\ UNCHANGED <<api, procs, ib, ibv, pass, ever, pend, mode>>
UpdAtomic == UpdAtomicEff

(* The dispatcher reads its queue (Entries). *)
EntriesEff == pass' = lk /\ UNCHANGED <<api, procs, ib, ibv, lk, lkNext, ever, pend, mode>>
Entries == EntriesEff

(* The operator holds / drains / releases instance w. *)
SetIBEff(w, b) == ib' = [ib EXCEPT ![w] = b] /\ ibv' = [ibv EXCEPT ![w] = @ + 1] /\ UNCHANGED <<api, procs, lk, lkNext, pass, ever, pend, mode>>
SetIB(w, b) == SetIBEff(w, b)

(* The dispatcher decides to start c (pool.StartContainer accepted it). *)
(* The decision remembers the instances held or draining when it BEGAN, each with its request count: *)
(* a process on w contradicts it only if w was held then and no request for w has begun since (a hold *)
(* released between the beginning of the decision and the exec cannot be told from one released       *)
(* before the pool chose).                                                                            *)
(* qs, qp = state and priority the dispatcher's queue reports for c at that moment.                    *)
Bad == {<<w, ibv[w]>> : w \in {x \in Wk : ib[x] \in {"hold", "drain"}}}
\* (only the two latest decisions for a container are kept: a decision that was never followed by
\*  an exec must not legitimise a start for ever)
StartCallEff(c, bad) == /\ pend' = [pend EXCEPT ![c] = IF Len(@) >= 2 THEN <<@[Len(@)], bad>> ELSE Append(@, bad)]
                        /\ UNCHANGED <<api, procs, ib, ibv, lk, lkNext, pass, ever, mode>>
StartCall(c, bad, qs, qp) ==
    /\ mode = "exact" => qs = "Locked" /\ qp > 0 /\ c \in ever   \* (b)
    /\ mode = "sound" => c \in pass                              \* (b)
    /\ mode = "async" => c \in ever                              \* (b)
    /\ mode = "exact" => NoProc(c)                                \* (a) at the decision: in the scheduler-level
                                                                  \* binding the pool stub knows every process; a decision
                                                                  \* made while one is alive can only avoid an overlap by
                                                                  \* luck (the old one ending before the exec)
    /\ StartCallEff(c, bad)

(* End-to-end binding: process tables are sampled when a process starts.  others = the instances     *)
(* (w included, if an older process of c is still there) on which a live process of c was seen.       *)
ProcStartSnap(c, w, others) ==
    /\ others = {}                                               \* (a)
    /\ \E i \in DOMAIN pend[c] :                                  \* (b) decided, (c) not held / draining then
         /\ <<w, ibv[w]>> \notin pend[c][i]
         /\ pend' = [pend EXCEPT ![c] = RemoveAt(@, i)]
    /\ UNCHANGED <<api, procs, ib, ibv, lk, lkNext, pass, ever, mode>>

(* A crunch-run process for c comes into existence on w. *)
ProcStartEff(c, w) ==          \* (the model carries out decisions in the order they were made)
    /\ procs' = [procs EXCEPT ![w] = @ \cup {c}]
    /\ pend' = [pend EXCEPT ![c] = IF @ = <<>> THEN @ ELSE Tail(@)]
    /\ UNCHANGED <<api, ib, ibv, lk, lkNext, pass, ever, mode>>
ProcStart(c, w) ==
    /\ NoProc(c)                                                  \* (a)
    /\ \E i \in DOMAIN pend[c] :                                  \* (b) decided, (c) not held / draining then
         /\ <<w, ibv[w]>> \notin pend[c][i]
         /\ pend' = [pend EXCEPT ![c] = RemoveAt(@, i)]
    /\ procs' = [procs EXCEPT ![w] = @ \cup {c}]
    /\ UNCHANGED <<api, ib, ibv, lk, lkNext, pass, ever, mode>>

(* The start decision for c came to nothing (the exec failed). *)
StartFailedEff(c) == /\ pend' = [pend EXCEPT ![c] = IF @ = <<>> THEN @ ELSE Tail(@)]
                     /\ UNCHANGED <<api, procs, ib, ibv, lk, lkNext, pass, ever, mode>>
StartFailed(c) == /\ \/ pend[c] = <<>> /\ UNCHANGED pend
                     \/ \E i \in DOMAIN pend[c] : pend' = [pend EXCEPT ![c] = RemoveAt(@, i)]
                  /\ UNCHANGED <<api, procs, ib, ibv, lk, lkNext, pass, ever, mode>>

(* The process of c on w ends (exit, crash, kill). *)
ProcExitEff(c, w) == procs' = [procs EXCEPT ![w] = @ \ {c}] /\ UNCHANGED <<api, ib, ibv, lk, lkNext, pass, ever, pend, mode>>
ProcExit(c, w) == c \in procs[w] /\ ProcExitEff(c, w)

(* Instance w ceases to exist; its processes die with it. *)
VmGoneEff(w) == /\ procs' = [procs EXCEPT ![w] = {}]
                /\ ib' = [ib EXCEPT ![w] = "run"] /\ UNCHANGED ibv
                /\ UNCHANGED <<api, lk, lkNext, pass, ever, pend, mode>>
VmGone(w) == VmGoneEff(w)

(* The dispatcher process is replaced: pending decisions are void. *)
RestartEff == /\ pend' = [c \in Ctrs |-> NoPend]
              /\ lk' = {} /\ lkNext' = {} /\ pass' = {}
              /\ UNCHANGED <<api, procs, ib, ibv, ever, mode>>
Restart == RestartEff

(* End-to-end binding: scheduler and pool are replaced inside one process; what the old ones had      *)
(* already decided may still be carried out.                                                          *)
SoftRestart == /\ lk' = {} /\ lkNext' = {} /\ pass' = {}
               /\ UNCHANGED <<api, procs, ib, ibv, ever, pend, mode>>

Other == UNCHANGED dcvars

AtMostOneProc == \A c \in Ctrs : Cardinality({w \in Wk : c \in procs[w]}) <= 1
=============================================================================
