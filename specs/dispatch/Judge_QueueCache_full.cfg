SPECIFICATION TraceSpec
CONSTANTS
  Level = "full"
CONSTRAINT Mark
POSTCONDITION Accepted
CHECK_DEADLOCK FALSE
