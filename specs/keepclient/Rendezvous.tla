----------------------------- MODULE Rendezvous -----------------------------
(***************************************************************************)
(* C12 - abstract model of the rendezvous order used as scenario generator *)
(* and for design-level lemmas; the contract is RendezvousContract.        *)
(***************************************************************************)
EXTENDS RendezvousContract, TLC, Json, IOUtils

------------------------------------------------------------------------------
(* Abstract model used as generator and for the design-level lemmas:       *)
(* Init enumerates every configuration over at most MaxN services.         *)
CONSTANTS MaxN, HintSet

Perms(n) == {p \in [1 .. n -> 1 .. n] : IsInjective(p)}

\* the sort the three call sites implement: weight order = ref; what each site should produce
SortedRead == UsableHints \o ref
SortedWrite == Restrict(ref, writable)

VARIABLES chg,       \* [op, s, pos] the single change to apply, or [op |-> "none"]
          init0      \* initial [order, writable]

Init == \E n \in 1 .. MaxN : \E p \in Perms(n) : \E w \in SUBSET (1 .. n) :
        \E nh \in 0 .. 2 : \E h \in [1 .. nh -> HintSet] :
        \E c \in {[op |-> "none", s |-> 0, pos |-> 0]}
                 \cup {[op |-> "remove", s |-> s, pos |-> 0] : s \in 1 .. n}
                 \cup {[op |-> "add", s |-> n + 1, pos |-> q] : q \in 1 .. n + 1} :
          /\ RInit(p, w, h)
          /\ (\A i \in 1 .. nh : h[i] \in 1 .. 99 => h[i] <= n)   \* a known gateway is one of the services
          /\ (c.op = "remove" => n > 1)
          /\ chg = c
          /\ init0 = [order |-> p, writable |-> w]

InsertAt(s, x, q) == SubSeq(s, 1, q - 1) \o <<x>> \o SubSeq(s, q, Len(s))

NextRef == CASE chg.op = "remove" -> Restrict(ref, Range(ref) \ {chg.s})
             [] chg.op = "add" -> InsertAt(ref, chg.s, chg.pos)
             [] OTHER -> ref

\* one "ideal implementation" step sequence: observe, change, observe
Observe == /\ curRead = NoneYet
           /\ Read(SortedRead)
Observe2 == /\ curRead # NoneYet /\ curWrite = NoneYet /\ Write(SortedWrite)
Observe3 == /\ curWrite # NoneYet /\ curBal = NoneYet /\ Bal(ref)
DoChange == /\ curBal # NoneYet /\ phase = 0 /\ chg.op # "none"
            /\ Change(NextRef, IF chg.op = "add" THEN writable \cup {chg.s} ELSE writable \ {chg.s})

Next == \/ (Observe \/ Observe2 \/ Observe3 \/ DoChange) /\ UNCHANGED <<chg, init0>>

Spec == Init /\ [][Next]_<<rvars, chg, init0>> /\ WF_<<rvars, chg, init0>>(Next)

\* lemmas (design level): the ideal sort satisfies the contract in every configuration, i.e. the
\* behaviour never gets stuck before all observations are made
Complete == (curBal # NoneYet /\ (phase = 1 \/ chg.op = "none"))
Lemma_Permutation == IsInjective(ref) /\ Range(SortedWrite) = writable \cap Range(ref)
Progress == <>Complete

Emit == Complete =>
          Serialize(<<[id |-> TLCGet("distinct"), order |-> init0.order, writable |-> init0.writable,
                       hints |-> hints, chg |-> chg]>>,
                    IOEnv.VERIF_OUT,
                    [format |-> "NDJSON", charset |-> "UTF-8",
                     openOptions |-> <<"WRITE", "CREATE", "APPEND">>])
=============================================================================
