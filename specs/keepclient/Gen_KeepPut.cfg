SPECIFICATION GenSpec
CONSTANTS
  MaxN = 3
  MaxWant = 2
  MaxRetries = 1
  KindSet = {"ok1", "ok2", "s403", "s503", "connerr", "okcut"}
  MaxHist = 30
INVARIANTS Emit
CHECK_DEADLOCK FALSE
