------------------------------ MODULE KeepPut ------------------------------
(***************************************************************************)
(* Implementation-shaped model of keepclient.putReplicas                   *)
(* (sdk/go/keepclient/support.go).  One action per loop step of the code:  *)
(*                                                                         *)
(*   for retriesRemaining > 0 {                         StartRound / Return *)
(*     retriesRemaining--; nextServer = 0; retryServers = []               *)
(*     for replicasTodo > 0 {                                              *)
(*       for active*replicasPerThread < replicasTodo {                     *)
(*         if nextServer < len(sv) { go upload(sv[nextServer]) ... }  Start *)
(*         else { if active == 0 && retriesRemaining == 0 {return err} Fail *)
(*                break }                                                  *)
(*       }                                                                 *)
(*       if active > 0 { status := <-ch ... } else { break }    Recv(s, k) *)
(*     }                                                                   *)
(*     sv = retryServers                                          EndRound *)
(*   }                                                                     *)
(*   return locator, replicasDone, nil                                     *)
(*                                                                         *)
(* The environment chooses which active upload completes next and with     *)
(* which outcome.  Uploads still active when the function returns are      *)
(* drained by the deferred goroutine (Drain).                              *)
(*                                                                         *)
(* The contract's observable variables are carried as ghost state and the  *)
(* action property Refines states that every step of this model is a step  *)
(* (or a stutter) of KeepPutContract.                                      *)
(***************************************************************************)
EXTENDS Integers, Sequences, FiniteSets, TLC, Json, IOUtils

CONSTANTS MaxN,        \* max number of writable services
          MaxWant,     \* max desired replicas
          MaxRetries,  \* max kc.Retries
          KindSet,     \* outcome kinds the environment may choose
          MaxHist      \* bound on the recorded history (Gen only)

VARIABLES cfg, attempts, last, allok, everok, confirmed, maxrep, maybe, done,   \* contract ghost state
          n,           \* number of writable services (sv of round 1 = <<1..n>>, rendezvous order)
          rpt,         \* replicasPerThread
          sv, nextServer, active, todo, rdone, retriesRemaining, retryServers, locator,
          pc,          \* "round" | "fill" | "wait" | "returned"
          hist         \* sequence of <<server, kind>> completions, in order (history variable)

C == INSTANCE KeepPutContract
cvars == <<cfg, attempts, last, allok, everok, confirmed, maxrep, maybe, done>>

ivars == <<n, rpt, sv, nextServer, active, todo, rdone, retriesRemaining, retryServers, locator, pc>>
vars  == <<cvars, ivars, hist>>
view  == <<cvars, ivars>>

Range(s) == {s[i] : i \in DOMAIN s}

Init ==
    \E nn \in 1 .. MaxN, want \in 1 .. MaxWant, retries \in 0 .. MaxRetries, disk \in BOOLEAN :
        /\ C!CInit([writable |-> 1 .. nn, want |-> want, retries |-> retries, disk |-> disk])
        /\ n = nn
        /\ rpt = IF disk THEN 1 ELSE want
        /\ sv = [i \in 1 .. nn |-> i]
        /\ nextServer = 0
        /\ active = {}
        /\ todo = want
        /\ rdone = 0
        /\ retriesRemaining = 1 + retries
        /\ retryServers = <<>>
        /\ locator = 0
        /\ pc = "round"
        /\ hist = <<>>

StartRound ==
    /\ pc = "round" /\ retriesRemaining > 0
    /\ retriesRemaining' = retriesRemaining - 1
    /\ nextServer' = 0
    /\ retryServers' = <<>>
    /\ pc' = "fill"
    /\ UNCHANGED <<cvars, n, rpt, sv, active, todo, rdone, locator, hist>>

\* helper: everything in ivars except pc
ivarsNoPc == <<n, rpt, sv, nextServer, active, todo, rdone, retriesRemaining, retryServers, locator>>

ReturnOK ==
    /\ pc = "round" /\ retriesRemaining = 0
    /\ C!PutDone(TRUE, rdone, locator, TRUE)
    /\ pc' = "returned"
    /\ UNCHANGED <<ivarsNoPc, hist>>

\* go kc.uploadToKeepServer(sv[nextServer] ...)  -- the request is observable at once
Start ==
    /\ pc = "fill" /\ todo > 0
    /\ Cardinality(active) * rpt < todo
    /\ nextServer < Len(sv)
    /\ LET s == sv[nextServer + 1] IN
         /\ C!Req(s)
         /\ active' = active \cup {s}
    /\ nextServer' = nextServer + 1
    /\ UNCHANGED <<n, rpt, sv, todo, rdone, retriesRemaining, retryServers, locator, pc, hist>>

\* out of servers, nothing active, no retries left: InsufficientReplicasError
Fail ==
    /\ pc = "fill" /\ todo > 0
    /\ Cardinality(active) * rpt < todo
    /\ nextServer >= Len(sv)
    /\ active = {} /\ retriesRemaining = 0
    /\ C!PutDone(FALSE, rdone, locator, TRUE)
    /\ pc' = "returned"
    /\ UNCHANGED <<ivarsNoPc, hist>>

\* leave the start loop: enough uploads in flight, or out of servers
ToWait ==
    /\ pc = "fill" /\ todo > 0
    /\ \/ Cardinality(active) * rpt >= todo
       \/ /\ nextServer >= Len(sv)
          /\ ~(active = {} /\ retriesRemaining = 0)
    /\ pc' = IF active # {} THEN "wait" ELSE "endround"
    /\ UNCHANGED <<cvars, ivarsNoPc, hist>>

\* replicasTodo <= 0: the inner loop ends
Satisfied ==
    /\ pc = "fill" /\ todo <= 0
    /\ pc' = "endround"
    /\ UNCHANGED <<cvars, ivarsNoPc, hist>>

EndRound ==
    /\ pc = "endround"
    /\ sv' = retryServers
    /\ pc' = "round"
    /\ UNCHANGED <<cvars, n, rpt, nextServer, active, todo, rdone, retriesRemaining, retryServers,
                   locator, hist>>

\* statusCode 0, 408, 429, >= 500 except 503.  A 200 whose body cannot be read is reported by
\* uploadToKeepServer with statusCode 0 (not counted, retried like a connection error).
IsRetryable(k) == k \in C!Transient \cup C!Broken

\* status := <-uploadStatusChan
Recv(s, k) ==
    /\ pc = "wait" /\ s \in active
    /\ C!Resp(s, k)
    /\ active' = active \ {s}
    /\ IF k \in C!OkKinds
       THEN /\ rdone' = rdone + C!Rep(k)
            /\ todo' = IF todo >= C!Rep(k) THEN todo - C!Rep(k) ELSE 0   \* (may go negative in Go; floor is equivalent)
            /\ locator' = s
       ELSE UNCHANGED <<rdone, todo, locator>>
    /\ retryServers' = IF IsRetryable(k) THEN Append(retryServers, s) ELSE retryServers
    /\ pc' = "fill"
    /\ hist' = IF Len(hist) < MaxHist THEN Append(hist, <<s, k>>) ELSE hist
    /\ UNCHANGED <<n, rpt, sv, nextServer, retriesRemaining>>

\* deferred goroutine: abandoned uploads complete after the return
Drain(s, k) ==
    /\ pc = "returned" /\ s \in active
    /\ C!Resp(s, k)
    /\ active' = active \ {s}
    /\ UNCHANGED <<n, rpt, sv, nextServer, todo, rdone, retriesRemaining, retryServers, locator, pc, hist>>

Next == \/ StartRound \/ ReturnOK \/ Start \/ Fail \/ ToWait \/ Satisfied \/ EndRound
        \/ \E s \in 1 .. MaxN, k \in KindSet : Recv(s, k) \/ Drain(s, k)

\* Gen configuration: stop at the return (drains add nothing to a scenario)
GenNext == \/ StartRound \/ ReturnOK \/ Start \/ Fail \/ ToWait \/ Satisfied \/ EndRound
           \/ \E s \in 1 .. MaxN, k \in KindSet : Recv(s, k)
GenSpec == Init /\ [][GenNext]_vars

Terminated == pc = "returned" /\ active = {}

Spec == Init /\ [][Next]_vars /\ WF_vars(Next)

------------------------------------------------------------------------------
(* Design-level checks *)

Refines == [][C!Req(1) \/ C!Req(2) \/ C!Req(3) \/ C!Req(4) \/ C!Req(5)
              \/ (\E s \in 1 .. MaxN, k \in C!Kinds : C!Resp(s, k))
              \/ (\E ok \in BOOLEAN, m \in 0 .. 12, i \in 0 .. MaxN : C!PutDone(ok, m, i, TRUE))
              \/ UNCHANGED cvars]_vars

TypeOK == /\ pc \in {"round", "fill", "wait", "endround", "returned"}
          /\ active \subseteq 1 .. n
          /\ todo \in 0 .. MaxWant
          /\ C!TypeOK

\* replica accounting: what the function counts is what services confirmed
Accounting == done = "no" => rdone = confirmed

\* an upload is in flight exactly when the contract sees a pending request
ActiveIsPending == \A s \in 1 .. MaxN : (s \in active) <=> (last[s] = "pending")

\* the function never hangs: it returns and every abandoned upload is drained
Terminates == <>Terminated

------------------------------------------------------------------------------
(* Scenario emission (Gen configuration) *)
Emit == (pc = "returned") =>
          Serialize(<<[id |-> TLCGet("distinct"), n |-> n, want |-> cfg.want, retries |-> cfg.retries,
                       disk |-> cfg.disk, steps |-> hist, expect |-> done, expect_n |-> rdone]>>,
                    IOEnv.VERIF_OUT,
                    [format |-> "NDJSON", charset |-> "UTF-8",
                     openOptions |-> <<"WRITE", "CREATE", "APPEND">>])
=============================================================================
