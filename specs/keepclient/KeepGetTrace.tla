---------------------------- MODULE KeepGetTrace ----------------------------
(***************************************************************************)
(* Judge for C03: traces recorded by harness/C03_keepclient against        *)
(* KeepGetContract.  Events:                                               *)
(*   {"ev":"reset","scn":id,"hint":bool,...}                               *)
(*   {"ev":"call","r":reader,"api":..}   {"ev":"resp","k":kind}            *)
(*   {"ev":"ret","r":reader,"ok":bool,"match":bool}                        *)
(***************************************************************************)
EXTENDS KeepGetContract, TraceIO

TraceInit == l = 1 /\ GInit([hint |-> TRUE])

TraceReset == /\ IsEvent("reset")
              /\ cfg' = [hint |-> Ev.hint]
              /\ open' = {}
              /\ badIn' = [r \in Readers |-> FALSE]
              /\ goodSeen' = FALSE

TraceCall == IsEvent("call") /\ Call(Ev.r)
TraceResp == IsEvent("resp") /\ Resp(Ev.k, Ev.amb)
TraceRet  == IsEvent("ret")  /\ Ret(Ev.r, Ev.ok, Ev.match)

TraceNext == TraceReset \/ TraceCall \/ TraceResp \/ TraceRet
TraceSpec == TraceInit /\ [][TraceNext]_<<gvars, l>>
=============================================================================
