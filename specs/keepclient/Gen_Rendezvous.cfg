SPECIFICATION Spec
CONSTANTS
  MaxN = 3
  HintSet = {0, 1, 101}
INVARIANTS Lemma_Permutation Emit
PROPERTIES Progress
CHECK_DEADLOCK FALSE
