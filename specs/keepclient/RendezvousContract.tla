------------------------- MODULE RendezvousContract -------------------------
(***************************************************************************)
(* C12 - one rendezvous probe order shared by readers, writers and         *)
(* keep-balance.                                                           *)
(*                                                                         *)
(* Abstractly a configuration is a sequence `ref` of distinct service ids  *)
(* in descending weight order (the weight MD5(hash ++ last 15 characters   *)
(* of the uuid) is computed by the harness' reference implementation:      *)
(* trusted base, outside what TLC decides), the set of writable services,  *)
(* and the list of +K@ hints of the locator.                               *)
(*                                                                         *)
(* Contract (observable events of one configuration):                      *)
(*   Read(seq)   order in which a reader asks services (all answer 404)    *)
(*   Write(seq)  order in which a writer asks services (all refuse)        *)
(*   Bal(seq)    order in which keep-balance ranks the servers             *)
(*   Change(ref2, writable2)  one service added or removed, after which    *)
(*               Read/Write/Bal are observed again                         *)
(* Clauses of the statement:                                               *)
(*  (a) read order = services sorted by descending weight, a permutation   *)
(*  (b) write order = the same order restricted to writable services       *)
(*  (c) keep-balance ranks servers in the same order                       *)
(*  (d) adding/removing a service never changes the relative order of the  *)
(*      others                                                             *)
(*  (e) usable hints (5-char cluster form; 27-char uuid of a known         *)
(*      gateway) are tried before that order; unusable ones are ignored    *)
(*      (the statement does not fix the order among hints: any order of    *)
(*      the usable hint targets is accepted)                               *)
(***************************************************************************)
EXTENDS Naturals, Sequences, FiniteSets

VARIABLES ref,        \* sequence of service ids, descending weight
          writable,   \* set of service ids
          hints,      \* sequence of hint targets: service id (known gateway), 100+k (cluster form), 0 (unusable)
          prevRead, prevWrite, prevBal,   \* sequences observed before the last Change (<<>> if none)
          curRead, curWrite, curBal,      \* sequences observed in the current configuration ("none" -> <<0>> marker)
          phase

rvars == <<ref, writable, hints, prevRead, prevWrite, prevBal, curRead, curWrite, curBal, phase>>

Range(s) == {s[i] : i \in DOMAIN s}
IsInjective(s) == \A i, j \in DOMAIN s : s[i] = s[j] => i = j
Restrict(s, S) == SelectSeq(s, LAMBDA x : x \in S)
NoneYet == <<0>>

UsableHints == SelectSeq(hints, LAMBDA h : h # 0)

RInit(r, w, h) ==
    /\ ref = r /\ writable = w /\ hints = h
    /\ prevRead = <<>> /\ prevWrite = <<>> /\ prevBal = <<>>
    /\ curRead = NoneYet /\ curWrite = NoneYet /\ curBal = NoneYet
    /\ phase = 0

\* (a) (e): some prefix consists of usable hint targets and names every one of them (repeated hints
\* may be collapsed), and the rest is the reference order, from which services already tried as
\* hints may be left out (the statement is silent on duplicates)
IsSubSeqOfRef(rs) == /\ IsInjective(rs) /\ Range(rs) \subseteq Range(ref)
                     /\ rs = Restrict(ref, Range(rs))
ReadSplit(seq, k) ==
    LET hs == SubSeq(seq, 1, k)
        rs == SubSeq(seq, k + 1, Len(seq))
    IN /\ Range(hs) = Range(UsableHints)
       /\ Len(hs) <= Len(UsableHints)
       /\ IsSubSeqOfRef(rs)
       /\ Range(ref) \ Range(UsableHints) \subseteq Range(rs)
ReadOK(seq) == \E k \in 0 .. Len(seq) : ReadSplit(seq, k)
\* the part of a read sequence that follows the hints (longest suffix that fits)
ReadRest(seq) == LET k == CHOOSE k \in 0 .. Len(seq) : ReadSplit(seq, k) IN SubSeq(seq, k + 1, Len(seq))

Read(seq) == /\ ReadOK(seq)
             \* (d) relative order of the services present before and after
             /\ prevRead # <<>> =>
                  \* services named by hints are left out of the comparison: where the hint prefix ends
                  \* is ambiguous for them (repeated hints, hinted services omitted from the rest)
                  LET common == (Range(ref) \cap Range(prevRead)) \ Range(hints) IN
                  Restrict(ReadRest(seq), common) = Restrict(prevRead, common)
             /\ curRead' = ReadRest(seq)
             /\ UNCHANGED <<ref, writable, hints, prevRead, prevWrite, prevBal, curWrite, curBal, phase>>

\* (b)
Write(seq) == /\ seq = Restrict(ref, writable)
              /\ prevWrite # <<>> =>
                   LET common == Range(seq) \cap Range(prevWrite) IN
                   Restrict(seq, common) = Restrict(prevWrite, common)
              /\ curWrite' = seq
              /\ UNCHANGED <<ref, writable, hints, prevRead, prevWrite, prevBal, curRead, curBal, phase>>

\* (c)
Bal(seq) == /\ seq = ref
            /\ prevBal # <<>> =>
                 LET common == Range(seq) \cap Range(prevBal) IN
                 Restrict(seq, common) = Restrict(prevBal, common)
            /\ curBal' = seq
            /\ UNCHANGED <<ref, writable, hints, prevRead, prevWrite, prevBal, curRead, curWrite, phase>>

Change(r2, w2) ==
    /\ phase = 0
    /\ IsInjective(r2)
    /\ ref' = r2 /\ writable' = w2
    /\ prevRead' = IF curRead = NoneYet THEN <<>> ELSE curRead
    /\ prevWrite' = IF curWrite = NoneYet THEN <<>> ELSE curWrite
    /\ prevBal' = IF curBal = NoneYet THEN <<>> ELSE curBal
    /\ curRead' = NoneYet /\ curWrite' = NoneYet /\ curBal' = NoneYet
    /\ phase' = 1
    \* a gateway hint naming a service that is no longer known becomes unusable
    /\ hints' = [i \in DOMAIN hints |-> IF hints[i] \in 1 .. 99 /\ hints[i] \notin Range(r2) THEN 0 ELSE hints[i]]

=============================================================================
