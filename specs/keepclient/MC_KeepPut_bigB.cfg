SPECIFICATION Spec
CONSTANTS
  MaxN = 3
  MaxWant = 3
  MaxRetries = 2
  KindSet = {"ok1", "ok2", "s403", "connerr", "okcut", "s500"}
  MaxHist = 0
VIEW view
INVARIANTS TypeOK Accounting ActiveIsPending
PROPERTIES Refines Terminates
CHECK_DEADLOCK FALSE
