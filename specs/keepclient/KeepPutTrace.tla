---------------------------- MODULE KeepPutTrace ----------------------------
(***************************************************************************)
(* Judge for C11: validates ndjson traces recorded from the real           *)
(* keepclient (harness/keepclient/put_driver.go) against KeepPutContract.  *)
(* Events:                                                                 *)
(*   {"ev":"reset","scn":id,"writable":[1,2,..],"want":w,"retries":r}      *)
(*   {"ev":"req","s":server}                                               *)
(*   {"ev":"resp","s":server,"k":kind}                                     *)
(*   {"ev":"done","ok":bool,"n":replicas,"issuer":server,"locok":bool}     *)
(***************************************************************************)
EXTENDS KeepPutContract, TraceIO

Range(s) == {s[i] : i \in DOMAIN s}

TraceInit == /\ l = 1
             /\ CInit([writable |-> {}, want |-> 1, retries |-> 0])

TraceReset == /\ IsEvent("reset")
              /\ cfg' = [writable |-> Range(Ev.writable), want |-> Ev.want, retries |-> Ev.retries]
              /\ attempts' = [s \in AllServices |-> 0]
              /\ last' = [s \in AllServices |-> "none"]
              /\ allok' = [s \in AllServices |-> TRUE]
              /\ everok' = {}
              /\ confirmed' = 0
              /\ maxrep' = [s \in AllServices |-> 0]
              /\ maybe' = 0
              /\ done' = "no"

TraceReq  == IsEvent("req")  /\ Req(Ev.s)
TraceResp == IsEvent("resp") /\ Resp(Ev.s, Ev.k)
TraceDone == IsEvent("done") /\ PutDone(Ev.ok, Ev.n, Ev.issuer, Ev.locok)

TraceNext == TraceReset \/ TraceReq \/ TraceResp \/ TraceDone

TraceSpec == TraceInit /\ [][TraceNext]_<<cvars, l>>
=============================================================================
