---------------------------- MODULE RendezvousPy ----------------------------
(***************************************************************************)
(* C12, Python client: binds sdk/python/arvados/keep.py                    *)
(* (KeepClient.weighted_service_roots, _service_weight, the +K@ hint       *)
(* handling) to RendezvousContract.  Two more observable events, recorded  *)
(* by harness/C12_python/rdv_py_driver.py for the SAME concrete            *)
(* configuration the Go client was observed in (same uuids, block hash,    *)
(* hints, writable set, change):                                           *)
(*   {"ev":"pyread","seq":[..]}   weighted_service_roots(locator with      *)
(*                                hints, need_writable=False): what get()  *)
(*                                and head() probe                         *)
(*   {"ev":"pywrite","seq":[..]}  weighted_service_roots(hash+size,        *)
(*                                need_writable=True): what put() probes   *)
(*                                (put builds its locator from the data,   *)
(*                                so it never carries hints)               *)
(* Clauses: the same as for the Go client - (a)(e) PyRead = ReadOK, (b)    *)
(* PyWrite = ref restricted to the writable services, (d) the relative     *)
(* order of the services present before and after a change is unchanged    *)
(* (compared with what the Python client itself showed before the change). *)
(* The statement names the Go client; that the Python client follows the   *)
(* same order is what "readers, writers and the balancer share one probe   *)
(* order" needs for a block written by one SDK to be found by the other.   *)
(***************************************************************************)
EXTENDS RendezvousTrace

VARIABLES pyPrevRead, pyPrevWrite, pyCurRead, pyCurWrite
pvars == <<pyPrevRead, pyPrevWrite, pyCurRead, pyCurWrite>>

PyRead(seq) ==
    /\ ReadOK(seq)                                                         \* (a) (e)
    /\ pyPrevRead # <<>> =>                                                \* (d)
         LET common == Range(ref) \cap Range(pyPrevRead) IN
         Restrict(SubSeq(seq, Len(UsableHints) + 1, Len(seq)), common) = Restrict(pyPrevRead, common)
    /\ pyCurRead' = SubSeq(seq, Len(UsableHints) + 1, Len(seq))
    /\ UNCHANGED <<rvars, pyPrevRead, pyPrevWrite, pyCurWrite>>

PyWrite(seq) ==
    /\ seq = Restrict(ref, writable)                                       \* (b)
    /\ pyPrevWrite # <<>> =>                                               \* (d)
         LET common == Range(seq) \cap Range(pyPrevWrite) IN
         Restrict(seq, common) = Restrict(pyPrevWrite, common)
    /\ pyCurWrite' = seq
    /\ UNCHANGED <<rvars, pyPrevRead, pyPrevWrite, pyCurRead>>

PyInit == TraceInit /\ pyPrevRead = <<>> /\ pyPrevWrite = <<>> /\ pyCurRead = NoneYet /\ pyCurWrite = NoneYet

PyNext == \/ TraceReset /\ pyPrevRead' = <<>> /\ pyPrevWrite' = <<>> /\ pyCurRead' = NoneYet /\ pyCurWrite' = NoneYet
          \/ TraceChange /\ pyPrevRead' = (IF pyCurRead = NoneYet THEN <<>> ELSE pyCurRead)
                         /\ pyPrevWrite' = (IF pyCurWrite = NoneYet THEN <<>> ELSE pyCurWrite)
                         /\ pyCurRead' = NoneYet /\ pyCurWrite' = NoneYet
          \/ (TraceRead \/ TraceWrite \/ TraceBal) /\ UNCHANGED pvars
          \/ IsEvent("pyread") /\ PyRead(Ev.seq)
          \/ IsEvent("pywrite") /\ PyWrite(Ev.seq)

PyTraceSpec == PyInit /\ [][PyNext]_<<rvars, l, pvars>>
=============================================================================
