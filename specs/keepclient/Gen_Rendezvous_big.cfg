SPECIFICATION Spec
CONSTANTS
  MaxN = 4
  HintSet = {0, 1, 2, 101, 102}
INVARIANTS Lemma_Permutation Emit
PROPERTIES Progress
CHECK_DEADLOCK FALSE
