SPECIFICATION Spec
CONSTANTS
  MaxN = 4
  MaxWant = 3
  MaxRetries = 1
  KindSet = {"ok1", "ok2", "s403", "connerr", "okcut", "s503"}
  MaxHist = 0
VIEW view
INVARIANTS TypeOK Accounting ActiveIsPending
PROPERTIES Refines Terminates
CHECK_DEADLOCK FALSE
