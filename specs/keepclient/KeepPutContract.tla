-------------------------- MODULE KeepPutContract --------------------------
(***************************************************************************)
(* C11 - contract of a Keep client Put, over observable events only.       *)
(*                                                                         *)
(* Observables: requests arriving at (fake) Keep services, the responses   *)
(* the services gave (in completion order), and the return of Put.         *)
(* Services are numbered 1..N in an arbitrary but fixed way; cfg.writable  *)
(* is the set of writable ones (read-only services have other numbers).    *)
(*                                                                         *)
(* Statement clauses and where they are:                                   *)
(*  (a) ok => at least `want` replicas confirmed in 200 responses          *)
(*                                           PutDone: ok => n >= want /\ n <= confirmed *)
(*  (b) locator returned was issued by a service in a 200 response         *)
(*                                           PutDone: ok => issuer answered ok  *)
(*  (c) otherwise insufficient-replicas error with the number stored       *)
(*                                           PutDone: ~ok => n = confirmed /\ confirmed < want *)
(*  (d) only writable services are written to           Req: s \in writable *)
(*  (e) transient failures retried up to the limit, other refusals not     *)
(*                                           Req: last[s] not a permanent refusal; attempts <= 1+retries *)
(*  (f) >= want writable services accepting on every attempt => success    *)
(*                                           PutDone: ~ok => fewer than want all-accepting services *)
(***************************************************************************)
EXTENDS Integers, FiniteSets

VARIABLES cfg,        \* [writable : SUBSET Nat, want : Nat, retries : Nat]
          attempts,   \* service -> number of requests received
          last,       \* service -> "none" | "pending" | kind of its latest response
          allok,      \* service -> TRUE while every response it gave was a 200
          everok,     \* set of services that gave a 200 before Put returned
          confirmed,  \* sum of replicas-stored over 200 responses given before Put returned
          maxrep,     \* service -> largest replicas-stored it confirmed in a 200 before Put returned
          maybe,      \* number of broken 200 answers given before Put returned (each may or may not count)
          done        \* "no" | "ok" | "err"

cvars == <<cfg, attempts, last, allok, everok, confirmed, maxrep, maybe, done>>

OkKinds   == {"ok1", "ok2", "oknh"}            \* 200 with X-Keep-Replicas-Stored 1 / 2 / absent
Transient == {"connerr", "s408", "s429", "s500", "s502"}
Permanent == {"s400", "s403", "s503"}
\* 200 with the replicas header whose body (the locator) cannot be read to the end.  The statement
\* does not say whether such an answer confirms a replica or may be retried, so both are allowed;
\* but its truncated body is not a locator "issued by a service" (clause b).
Broken    == {"okcut"}
Kinds     == OkKinds \cup Transient \cup Permanent \cup Broken

Rep(k) == IF k = "ok2" THEN 2 ELSE IF k \in OkKinds THEN 1 ELSE 0

AllServices == 0 .. 8      \* 0 stands for "a read-only or unknown service"

CInit(c) == /\ cfg = c
            /\ attempts = [s \in AllServices |-> 0]
            /\ last = [s \in AllServices |-> "none"]
            /\ allok = [s \in AllServices |-> TRUE]
            /\ everok = {}
            /\ confirmed = 0
            /\ maxrep = [s \in AllServices |-> 0]
            /\ maybe = 0
            /\ done = "no"

(* A request arrives at service s.  Requests started before Put returned   *)
(* may still arrive afterwards (abandoned uploads), so `done` is not tested.*)
Req(s) == /\ s \in cfg.writable                                   \* (d)
          \* (e) a refusal that is not transient is not retried.  Asking a service again after it
          \* answered 200 is not forbidden by the statement (it is idempotent); what it confirms is
          \* counted once per service, see Resp.
          /\ last[s] \in {"none"} \cup Transient \cup Broken \cup OkKinds
          /\ attempts[s] < 1 + cfg.retries                        \* (e)
          /\ attempts' = [attempts EXCEPT ![s] = @ + 1]
          /\ last' = [last EXCEPT ![s] = "pending"]
          /\ UNCHANGED <<cfg, allok, everok, confirmed, maxrep, maybe, done>>

(* Service s answers with kind k.  Answers given after Put returned are    *)
(* not counted.                                                            *)
Resp(s, k) == /\ last[s] = "pending"
              /\ k \in Kinds
              /\ last' = [last EXCEPT ![s] = k]
              /\ allok' = [allok EXCEPT ![s] = @ /\ k \in OkKinds]
              /\ IF done = "no"
                 THEN \* replicas confirmed by one service count once (its largest claim): a second
                      \* 200 from a service that already stored the block confirms nothing new
                      /\ maxrep' = [maxrep EXCEPT ![s] = IF Rep(k) > @ THEN Rep(k) ELSE @]
                      /\ confirmed' = confirmed - maxrep[s] + maxrep'[s]
                      /\ everok' = IF k \in OkKinds THEN everok \cup {s} ELSE everok
                      /\ maybe' = IF k \in Broken THEN maybe + 1 ELSE maybe
                 ELSE UNCHANGED <<confirmed, maxrep, everok, maybe>>
              /\ UNCHANGED <<cfg, attempts, done>>

Accepting == {s \in cfg.writable : allok[s]}

(* Put returns.  issuer = the service that issued the returned locator     *)
(* (0 if it cannot be attributed), locok = it names the right hash+size.   *)
PutDone(ok, n, issuer, locok) ==
    /\ done = "no"
    /\ IF ok
       THEN /\ n >= cfg.want /\ n <= confirmed + maybe            \* (a)
            /\ issuer \in everok /\ locok                         \* (b)
       ELSE /\ n >= confirmed /\ n <= confirmed + maybe           \* (c)
            /\ n < cfg.want
            /\ Cardinality(Accepting) < cfg.want                  \* (f)
            \* (e) "transient failures are retried up to the retry limit": a Put that gives up
            \* has asked every service whose latest answer was a transient failure as often as
            \* the retry limit allows
            /\ \A s \in cfg.writable : last[s] \in Transient => attempts[s] = 1 + cfg.retries
    /\ done' = IF ok THEN "ok" ELSE "err"
    /\ UNCHANGED <<cfg, attempts, last, allok, everok, confirmed, maxrep, maybe>>

TypeOK == /\ done \in {"no", "ok", "err"}
          /\ confirmed \in Nat
=============================================================================
