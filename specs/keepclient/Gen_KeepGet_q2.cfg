SPECIFICATION Spec
CONSTANTS
  MaxN = 1
  MaxRetries = 1
  MaxOps = 2
  OpSet = {"get", "readat", "file", "readat2"}
  KindSet = {"ok", "flip", "s404", "s500"}
  MaxHist = 30
INVARIANTS Emit
CHECK_DEADLOCK FALSE
