SPECIFICATION Spec
CONSTANTS
  MaxN = 4
  MaxWant = 2
INVARIANTS L1_FaultTolerance L2_FirstPosition Emit
PROPERTIES Completes
CHECK_DEADLOCK FALSE
