SPECIFICATION Spec
CONSTANTS
  MaxN = 4
  MaxWant = 3
  MaxRetries = 2
  KindSet = {"ok1", "ok2", "s403", "s503", "connerr", "okcut", "s500"}
  MaxHist = 0
VIEW view
INVARIANTS TypeOK Accounting ActiveIsPending
PROPERTIES Refines Terminates
CHECK_DEADLOCK FALSE
