------------------------------ MODULE KeepGet ------------------------------
(***************************************************************************)
(* Implementation-shaped model of the keepclient read path:                *)
(*   getOrHead   (keepclient.go): rounds over servers in probe order,      *)
(*               retry list for connerr/408/429/5xx, 404 counting, RETURN  *)
(*               ON THE FIRST 200 with a HashCheckingReader (a body that   *)
(*               then fails its checksum is not retried elsewhere);        *)
(*               size hint vs Content-Length rule                          *)
(*   BlockCache.Get (block_cache.go): one entry per block; an entry whose  *)
(*               fetch failed is replaced on the next Get; readers that    *)
(*               find a fetch in flight wait for it                        *)
(* A behaviour runs a short sequence of read operations on one block:      *)
(*   "get"     streaming Get + read to EOF (no cache)                      *)
(*   "readat"  cached ReadAt                                               *)
(*   "file"    read of a one-block collection file (goes through ReadAt)   *)
(*   "readat2" two concurrent ReadAt callers                               *)
(* The environment picks what each request is answered with.               *)
(***************************************************************************)
EXTENDS Naturals, Sequences, FiniteSets, TLC, Json, IOUtils

CONSTANTS MaxN, MaxRetries, MaxOps, OpSet, KindSet, MaxHist

VARIABLES cfg, open, badIn, goodSeen,                 \* contract ghost state
          n, retries,
          ops,          \* operations still to run
          cache,        \* "none" | "fetching" | "data" | "err"
          rd,           \* reader -> "idle" | "fetch" (runs a fetch) | "wait" (waits for the cache fetch) | "stream" | "done"
          owner,        \* reader that runs the cache fetch (0 = none)
          tries, servers, idx, retry, c404, fres,   \* getOrHead state of the (single) fetch in flight; fres "none"|"ok"|"err"
          fetching,     \* TRUE while a getOrHead call is in progress
          second,       \* readat2: second reader still to be called
          hist, opsrun

G == INSTANCE KeepGetContract
gvars == <<cfg, open, badIn, goodSeen>>
fvars == <<tries, servers, idx, retry, c404, fres, fetching>>
ivars == <<n, retries, ops, cache, rd, owner, fvars, second, opsrun>>
vars  == <<gvars, ivars, hist>>
view  == <<gvars, ivars>>
ivars_noRd == <<n, retries, ops, cache, owner, fvars, second, opsrun>>

Init ==
    \E nn \in 1 .. MaxN, rr \in 0 .. MaxRetries, hint \in BOOLEAN, len \in 1 .. MaxOps :
    \E oo \in [1 .. len -> OpSet] :
        /\ (\A i \in 1 .. len : oo[i] = "file" => hint)       \* a manifest locator always has a size
        /\ G!GInit([hint |-> hint])
        /\ n = nn /\ retries = rr
        /\ ops = oo
        /\ cache = "none"
        /\ rd = [r \in G!Readers |-> "idle"]
        /\ owner = 0
        /\ tries = 0 /\ servers = <<>> /\ idx = 0 /\ retry = <<>> /\ c404 = 0 /\ fres = "none" /\ fetching = FALSE
        /\ second = FALSE
        /\ hist = <<>>
        /\ opsrun = oo

Idle == \A r \in G!Readers : rd[r] \in {"idle", "done"}

StartFetch == /\ tries' = 1 + retries
              /\ servers' = [i \in 1 .. n |-> i]
              /\ idx' = 0 /\ retry' = <<>> /\ c404' = 0 /\ fres' = "none" /\ fetching' = TRUE

\* Start the next operation with reader 1 (and 2 for readat2)
Begin ==
    /\ Idle /\ ops # <<>> /\ ~fetching /\ ~second
    /\ LET op == Head(ops) IN
       /\ G!Call(1)
       /\ IF op = "get"
          THEN /\ rd' = [r \in G!Readers |-> IF r = 1 THEN "stream" ELSE "idle"]
               /\ StartFetch
               /\ UNCHANGED <<cache, owner>>
          ELSE /\ LET rd0 == [r \in G!Readers |-> "idle"] IN
                  IF cache = "data"
                  THEN rd' = [rd0 EXCEPT ![1] = "hit"] /\ UNCHANGED <<cache, owner, fvars>>
                  ELSE /\ cache' = "fetching" /\ owner' = 1
                       /\ rd' = [rd0 EXCEPT ![1] = "wait"]
                       /\ StartFetch
       /\ second' = (op = "readat2")
    /\ ops' = Tail(ops)
    /\ UNCHANGED <<n, retries, hist, opsrun>>

\* readat2: the second caller arrives at any moment after the first
CallSecond ==
    /\ second /\ rd[2] \in {"idle", "done"}
    /\ G!Call(2)
    /\ second' = FALSE
    /\ LET r == 2 IN
       IF cache = "data"
       THEN rd' = [rd EXCEPT ![r] = "hit"] /\ UNCHANGED <<cache, owner, fvars>>
       ELSE IF cache = "fetching"
       THEN rd' = [rd EXCEPT ![r] = "wait"] /\ UNCHANGED <<cache, owner, fvars>>
       ELSE /\ ~fetching
            /\ cache' = "fetching" /\ owner' = r
            /\ rd' = [rd EXCEPT ![r] = "wait"]
            /\ StartFetch
    /\ UNCHANGED <<n, retries, ops, hist, opsrun>>

Retryable(k) == k \in {"connerr", "s408", "s429", "s500", "s502", "s503"}

\* one request of getOrHead, answered with kind k
Request(k) ==
    /\ fetching /\ fres = "none"
    /\ idx < Len(servers)
    /\ G!Resp(k, k = "chunked_ok" /\ ~cfg.hint)
    /\ hist' = IF Len(hist) < MaxHist THEN Append(hist, k) ELSE hist
    /\ IF k \in G!Non200
       THEN /\ retry' = IF Retryable(k) THEN Append(retry, servers[idx + 1]) ELSE retry
            /\ c404' = IF k = "s404" THEN c404 + 1 ELSE c404
            /\ idx' = idx + 1
            /\ UNCHANGED <<fres, tries, servers, fetching>>
       ELSE \* first 200: return at once; what the caller then reads decides
            /\ fres' = IF k \in G!GoodKinds(cfg.hint) THEN "ok" ELSE "err"
            /\ UNCHANGED <<retry, c404, idx, tries, servers, fetching>>
    /\ UNCHANGED <<n, retries, ops, cache, rd, owner, second, opsrun>>

\* end of a round: triesRemaining--, serversToTry = retryList
EndRound ==
    /\ fetching /\ fres = "none" /\ idx >= Len(servers)
    /\ IF tries > 1
       THEN /\ tries' = tries - 1 /\ servers' = retry /\ retry' = <<>> /\ idx' = 0
            /\ UNCHANGED <<fres>>
       ELSE /\ fres' = "err" /\ UNCHANGED <<tries, servers, retry, idx>>
    /\ UNCHANGED <<gvars, n, retries, ops, cache, rd, owner, c404, fetching, second, hist, opsrun>>

\* the fetch result reaches its consumer
FetchDone ==
    /\ fetching /\ fres # "none"
    /\ fetching' = FALSE
    /\ IF \E r \in G!Readers : rd[r] = "stream"
       THEN \* streaming Get: the caller read to EOF; result is the read's result
            /\ LET r == CHOOSE r \in G!Readers : rd[r] = "stream" IN
                 /\ G!Ret(r, fres = "ok", fres = "ok")
                 /\ rd' = [rd EXCEPT ![r] = "done"]
            /\ UNCHANGED <<cache, owner>>
       ELSE \* cache fetch goroutine: b.data, b.err = ...; close(b.fetched)
            /\ cache' = IF fres = "ok" THEN "data" ELSE "err"
            /\ owner' = 0
            /\ UNCHANGED <<gvars, rd>>
    /\ fres' = "none"
    /\ UNCHANGED <<n, retries, ops, tries, servers, idx, retry, c404, second, hist, opsrun>>

\* a waiting reader wakes up after the fetch it waited for has finished
Wake(r) ==
    /\ rd[r] = "wait" /\ cache \in {"data", "err"}
    /\ G!Ret(r, cache = "data", cache = "data")
    /\ rd' = [rd EXCEPT ![r] = "done"]
    /\ UNCHANGED <<ivars_noRd, hist>>

Hit(r) ==
    /\ rd[r] = "hit"
    /\ G!Ret(r, TRUE, TRUE)
    /\ rd' = [rd EXCEPT ![r] = "done"]
    /\ UNCHANGED <<ivars_noRd, hist>>

Next == \/ Begin \/ CallSecond \/ EndRound \/ FetchDone
        \/ \E k \in KindSet : Request(k)
        \/ \E r \in G!Readers : Wake(r) \/ Hit(r)

Finished == ops = <<>> /\ Idle /\ ~fetching /\ ~second

Spec == Init /\ [][Next]_vars /\ WF_vars(Next)

------------------------------------------------------------------------------
Refines == [][ (\E r \in G!Readers : G!Call(r))
               \/ (\E k \in G!Kinds, amb \in BOOLEAN : G!Resp(k, amb))
               \/ (\E r \in G!Readers, ok \in BOOLEAN, m \in BOOLEAN : G!Ret(r, ok, m))
               \/ UNCHANGED gvars ]_vars

\* design argument: the cache holds data only if a good answer was served
CacheSound == cache = "data" => goodSeen

Terminates == <>Finished

Emit == Finished =>
          Serialize(<<[id |-> TLCGet("distinct"), n |-> n, retries |-> retries, hint |-> cfg.hint,
                       ops |-> opsrun, steps |-> hist]>>,
                    IOEnv.VERIF_OUT,
                    [format |-> "NDJSON", charset |-> "UTF-8",
                     openOptions |-> <<"WRITE", "CREATE", "APPEND">>])
=============================================================================
