SPECIFICATION Spec
CONSTANTS
  MaxN = 3
  MaxRetries = 2
  MaxOps = 3
  OpSet = {"get", "readat", "file", "readat2"}
  KindSet = {"ok", "chunked_ok", "flip", "short", "chunked_flip", "s404", "s500", "connerr"}
  MaxHist = 0
VIEW view
INVARIANTS CacheSound
PROPERTIES Refines Terminates
CHECK_DEADLOCK FALSE
