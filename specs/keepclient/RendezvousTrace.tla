--------------------------- MODULE RendezvousTrace ---------------------------
(***************************************************************************)
(* Judge for C12.  Events (harness/C12_keepclient + harness/C12_keepbalance,*)
(* merged per scenario by checks/C12.py):                                  *)
(*   {"ev":"reset","scn":id,"ref":[ids by descending reference weight],    *)
(*    "writable":[ids],"hints":[0 | id | 100+k]}                           *)
(*   {"ev":"read","seq":[..]} {"ev":"write","seq":[..]} {"ev":"bal","seq":[..]} *)
(*   {"ev":"change","ref":[..],"writable":[..]}                            *)
(***************************************************************************)
EXTENDS RendezvousContract, TraceIO

TraceInit == l = 1 /\ RInit(<<>>, {}, <<>>)

TraceReset == /\ IsEvent("reset")
              /\ ref' = Ev.ref /\ writable' = Range(Ev.writable) /\ hints' = Ev.hints
              /\ prevRead' = <<>> /\ prevWrite' = <<>> /\ prevBal' = <<>>
              /\ curRead' = NoneYet /\ curWrite' = NoneYet /\ curBal' = NoneYet
              /\ phase' = 0

TraceRead   == IsEvent("read")   /\ Read(Ev.seq)
TraceWrite  == IsEvent("write")  /\ Write(Ev.seq)
TraceBal    == IsEvent("bal")    /\ Bal(Ev.seq)
TraceChange == IsEvent("change") /\ Change(Ev.ref, Range(Ev.writable))

TraceNext == TraceReset \/ TraceRead \/ TraceWrite \/ TraceBal \/ TraceChange
TraceSpec == TraceInit /\ [][TraceNext]_<<rvars, l>>
=============================================================================
