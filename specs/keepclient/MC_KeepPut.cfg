SPECIFICATION Spec
CONSTANTS
  MaxN = 3
  MaxWant = 2
  MaxRetries = 1
  KindSet = {"ok1", "ok2", "s403", "s503", "connerr", "okcut", "s500"}
  MaxHist = 0
VIEW view
INVARIANTS TypeOK Accounting ActiveIsPending
PROPERTIES Refines Terminates
CHECK_DEADLOCK FALSE
