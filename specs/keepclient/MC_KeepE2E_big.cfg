SPECIFICATION Spec
CONSTANTS
  MaxN = 5
  MaxWant = 3
INVARIANTS L1_FaultTolerance L2_FirstPosition Emit
PROPERTIES Completes
CHECK_DEADLOCK FALSE
