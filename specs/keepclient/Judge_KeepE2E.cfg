SPECIFICATION TraceSpec
CONSTANTS
  MaxN = 8
  MaxWant = 3
CONSTRAINT Mark
POSTCONDITION Accepted
CHECK_DEADLOCK FALSE
