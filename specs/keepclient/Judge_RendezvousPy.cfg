SPECIFICATION PyTraceSpec
CONSTRAINT Mark
POSTCONDITION Accepted
CHECK_DEADLOCK FALSE
