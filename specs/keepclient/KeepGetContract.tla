-------------------------- MODULE KeepGetContract --------------------------
(***************************************************************************)
(* C03 - contract of reads through the Keep client, over observable        *)
(* events: what the (fake) Keep services served, and the call / return of  *)
(* each read (streaming Get, cached ReadAt, collection file read).         *)
(* One block per recorded execution.                                       *)
(*                                                                         *)
(* Statement clauses:                                                      *)
(*  (a) data obtained is byte-for-byte the content named by the locator    *)
(*          Ret: ok => match      (match is computed by the harness from   *)
(*          the bytes the reader actually got and the true content)        *)
(*  (b) a corrupted / truncated / over-long / wrongly sized answer ends    *)
(*      the read with an error rather than a successful read of those bytes*)
(*          same guard: any successful read whose bytes differ is rejected *)
(*  (c) the bad response is not kept in the block cache to satisfy later   *)
(*      reads                                                              *)
(*          Ret: ~ok => some non-good answer was served during this read's *)
(*          own call..return interval, or during the interval of a read    *)
(*          that was still in progress when this one was called (they may  *)
(*          share one fetch); a failure produced from a cached earlier     *)
(*          failure has neither                                            *)
(*  A successful read needs a good answer to exist at all:                 *)
(*          Ret: ok => goodSeen                                            *)
(* Nothing is said about liveness (which server is tried next).            *)
(***************************************************************************)
EXTENDS Naturals, FiniteSets

VARIABLES cfg,       \* [hint : BOOLEAN]  locator carries a +size hint
          open,      \* readers between call and return
          badIn,     \* reader -> a non-good answer was served during its interval
          goodSeen   \* a good answer has been served so far

gvars == <<cfg, open, badIn, goodSeen>>

Readers == 1 .. 8

\* 200 answers carrying the right bytes
GoodKinds(hint) == IF hint THEN {"ok", "chunked_ok"} ELSE {"ok"}
Bad200   == {"flip", "short", "long", "cl_short", "cl_long", "chunked_flip", "chunked_short", "chunked_long",
             "chunked_flip_err", "chunked_long_err", "chunked_ok_err"}   \* ..._err: the body ends with a transport error
Non200   == {"s404", "s403", "s408", "s429", "s500", "s502", "s503", "connerr"}
Kinds    == {"ok", "chunked_ok"} \cup Bad200 \cup Non200

GInit(c) == /\ cfg = c
            /\ open = {}
            /\ badIn = [r \in Readers |-> FALSE]
            /\ goodSeen = FALSE

Call(r) == /\ r \in Readers \ open
           /\ open' = open \cup {r}
           \* a read that overlaps a read which has already seen a bad answer may share its
           \* fetch, hence its failure; a read that starts after those returned may not
           /\ badIn' = [badIn EXCEPT ![r] = \E q \in open : badIn[q]]
           /\ UNCHANGED <<cfg, goodSeen>>

\* amb: the answer is ambiguous (see the driver: a 200 without any length for a locator without
\* size hint, which a client may refuse or read to EOF and verify; surplus bytes behind a correct
\* Content-Length, impossible on a real wire).  The read may end either way; clause (a) still holds.
Resp(k, amb) ==
           /\ k \in Kinds
           /\ IF amb
              THEN /\ goodSeen' = TRUE
                   /\ badIn' = [r \in Readers |-> IF r \in open THEN TRUE ELSE badIn[r]]
              ELSE IF k \in GoodKinds(cfg.hint)
              THEN /\ goodSeen' = TRUE
                   /\ UNCHANGED badIn
              ELSE /\ badIn' = [r \in Readers |-> IF r \in open THEN TRUE ELSE badIn[r]]
                   /\ UNCHANGED goodSeen
           /\ UNCHANGED <<cfg, open>>

Ret(r, ok, match) == /\ r \in open
                     /\ ok => match                       \* (a) (b)
                     /\ ok => goodSeen
                     /\ ~ok => badIn[r]                   \* (c)
                     /\ open' = open \ {r}
                     /\ UNCHANGED <<cfg, badIn, goodSeen>>
=============================================================================
