---------------------------- MODULE KeepE2ETrace ----------------------------
(***************************************************************************)
(* Judge for the composed write-then-read executions (KeepE2E).  Events:   *)
(*   {"ev":"reset","scn":id,"n":n,"want":w,"wr":[..],"refuse":[..],"downs":[..]} *)
(*   {"ev":"put","ok":bool,"holders":[..],"askedw":[..]}                   *)
(*   {"ev":"get","ok":bool,"seq":[..]}                                     *)
(* Services are numbered by the reference rendezvous order.                *)
(***************************************************************************)
EXTENDS KeepE2E, TraceIO

TraceInit == /\ l = 1 /\ n = 1 /\ want = 1 /\ wr = {} /\ refuse = {} /\ downs = {}
             /\ holders = {} /\ putok = FALSE /\ asked = <<>> /\ getok = FALSE /\ phase = "put"

TraceReset == /\ IsEvent("reset")
              /\ n' = Ev.n /\ want' = Ev.want /\ wr' = Range(Ev.wr) /\ refuse' = Range(Ev.refuse)
              /\ downs' = Range(Ev.downs)
              /\ holders' = {} /\ putok' = FALSE /\ asked' = <<>> /\ getok' = FALSE /\ phase' = "put"

TracePut == /\ IsEvent("put") /\ phase = "put"
            /\ PutOKObserved(Ev.ok, Range(Ev.holders), Range(Ev.askedw))
            /\ holders' = Range(Ev.holders) /\ putok' = Ev.ok /\ phase' = "get"
            /\ UNCHANGED <<n, want, wr, refuse, downs, asked, getok>>

TraceGet == /\ IsEvent("get") /\ phase = "get"
            /\ getok' = Ev.ok /\ asked' = Ev.seq
            /\ GetOKObserved(Ev.ok, Ev.seq)
            /\ phase' = "done"
            /\ UNCHANGED <<n, want, wr, refuse, downs, holders, putok>>

TraceNext == TraceReset \/ TracePut \/ TraceGet
TraceSpec == TraceInit /\ [][TraceNext]_<<evars, l>>
=============================================================================
