------------------------------ MODULE KeepE2E ------------------------------
(***************************************************************************)
(* Growth beyond the listed clauses: writer, stores and reader composed    *)
(* through the rendezvous order (C12: "... so a block written with enough  *)
(* replicas is found at the first positions a reader tries", together with *)
(* C11's counting and C03's read path).                                    *)
(*                                                                         *)
(* World: services 1..n, numbered by descending rendezvous weight for the  *)
(* block (reference order, computed by the harness).  Each service is      *)
(* writable or read-only; a writable one either accepts a PUT (stores the  *)
(* block, answers 200 / 1 replica) or refuses it for good (503, "full").   *)
(* After the write some services are down (connection error on GET); the  *)
(* others answer 200 with the block if they hold it, 404 otherwise.        *)
(*                                                                         *)
(* Model (what the clients do, abstracted from KeepPut.tla / KeepGet.tla   *)
(* for all-disk services, one attempt round):                              *)
(*   writer: walks the writable services in order, keeps `want` uploads    *)
(*           going, stops when `want` replicas are confirmed               *)
(*   reader: asks all services in order, stops at the first 200            *)
(*                                                                         *)
(* Contract (observable: which fake stores hold the block after Put, what  *)
(* Put returned, which services the reader asked, what Get returned):      *)
(*  (E1) Put ok  <=>  at least `want` writable services accept             *)
(*  (E2) the holders are exactly the first `want` accepting writable       *)
(*       services in rendezvous order (all accepting ones if fewer)        *)
(*  (E3) Get ok  <=>  some holder is up                                    *)
(*  (E4) the reader's requests are the rendezvous order cut after the      *)
(*       first holder that is up (the whole order if none)                 *)
(* Lemmas checked by TLC on the model:                                     *)
(*  (L1) Put ok /\ fewer than `want` services down  =>  Get ok             *)
(*  (L2) all services writable, accepting and up    =>  one request        *)
(***************************************************************************)
EXTENDS Naturals, Sequences, FiniteSets, TLC, Json, IOUtils

CONSTANTS MaxN, MaxWant

VARIABLES n, want, wr, refuse, downs,     \* configuration
          holders, putok, asked, getok,   \* observables
          phase                           \* "put" | "get" | "done"

evars == <<n, want, wr, refuse, downs, holders, putok, asked, getok, phase>>

Range(s) == {s[i] : i \in DOMAIN s}
Order == [i \in 1 .. n |-> i]
Accepting == {s \in wr : s \notin refuse}
\* first k elements of set S in service order
FirstK(S, k) == {s \in S : Cardinality({t \in S : t < s}) < k}
UpHolders == holders \ downs
FirstUpHolder == CHOOSE s \in UpHolders : \A t \in UpHolders : s <= t

\* ---- contract predicates (also used by the trace spec) ----
PutOK(ok, hs) == /\ ok <=> (Cardinality(Accepting) >= want)           \* (E1)
                 /\ hs = FirstK(Accepting, want)                       \* (E2)
\* what is judged on recorded executions: only what the statements of C11/C12 imply (holders
\* beyond the first `want` accepting services would be over-replication, not a violation)
PutOKObserved(ok, hs, askedw) ==
    /\ ok <=> (Cardinality(Accepting) >= want)                                    \* (E1)
    /\ hs \subseteq Accepting
    /\ ok => Cardinality(hs) >= want
    /\ askedw \subseteq wr
    /\ \A s \in askedw : \A t \in wr : t < s => t \in askedw                     \* writes probe in order
GetOK(ok, seq) == /\ ok <=> (UpHolders # {})                           \* (E3)
                  /\ seq = IF UpHolders # {} THEN SubSeq(Order, 1, FirstUpHolder) ELSE Order   \* (E4)

\* what is judged on recorded executions: the requests follow the rendezvous order and reach the
\* first holder that is up (a reader that asked further services after finding the block would
\* be wasteful, not in violation of any statement)
GetOKObserved(ok, seq) ==
    /\ ok <=> (UpHolders # {})
    /\ Len(seq) <= n /\ seq = SubSeq(Order, 1, Len(seq))
    /\ IF UpHolders # {} THEN Len(seq) >= FirstUpHolder ELSE seq = Order

Init == \E nn \in 1 .. MaxN, w \in 1 .. MaxWant :
        \E W \in SUBSET (1 .. nn), R \in SUBSET (1 .. nn), D \in SUBSET (1 .. nn) :
          /\ n = nn /\ want = w /\ wr = W /\ refuse = R /\ downs = D
          /\ R \subseteq W
          /\ holders = {} /\ putok = FALSE /\ asked = <<>> /\ getok = FALSE
          /\ phase = "put"

\* writer: (abstract) outcome of putReplicas for all-disk services in one round
DoPut == /\ phase = "put"
         /\ holders' = FirstK(Accepting, want)
         /\ putok' = (Cardinality(Accepting) >= want)
         /\ PutOK(putok', holders')
         /\ phase' = "get"
         /\ UNCHANGED <<n, want, wr, refuse, downs, asked, getok>>

\* reader: getOrHead over all services in order, first 200 wins
DoGet == /\ phase = "get"
         /\ LET hit == {i \in 1 .. n : i \in holders /\ i \notin downs} IN
              /\ getok' = (hit # {})
              /\ asked' = IF hit # {} THEN SubSeq(Order, 1, CHOOSE i \in hit : \A j \in hit : i <= j) ELSE Order
         /\ GetOK(getok', asked')
         /\ phase' = "done"
         /\ UNCHANGED <<n, want, wr, refuse, downs, holders, putok>>

Next == DoPut \/ DoGet
Spec == Init /\ [][Next]_evars /\ WF_evars(Next)

L1_FaultTolerance == (phase = "done" /\ putok /\ Cardinality(downs) < want) => getok
L2_FirstPosition  == (phase = "done" /\ wr = 1 .. n /\ refuse = {} /\ downs = {}) => Len(asked) = 1
Completes == <>(phase = "done")

Emit == (phase = "done") =>
          Serialize(<<[id |-> TLCGet("distinct"), n |-> n, want |-> want, wr |-> wr, refuse |-> refuse,
                       downs |-> downs]>>,
                    IOEnv.VERIF_OUT,
                    [format |-> "NDJSON", charset |-> "UTF-8",
                     openOptions |-> <<"WRITE", "CREATE", "APPEND">>])
=============================================================================
