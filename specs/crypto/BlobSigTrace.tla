---------------------------- MODULE BlobSigTrace ----------------------------
(***************************************************************************)
(* Judge for C07: validates ndjson traces recorded from the real code      *)
(* (harness/C07_arvados, harness/C07_keepstore) against BlobSigContract.   *)
(* Events:                                                                 *)
(*   {"ev":"reset","scn":id,"wf":bool,"same":bool,"lenonly":bool, ...}     *)
(*   {"ev":"signloc","sigok":b,"expok":b}     (prefixok: drift only)        *)
(*   {"ev":"putloc","sigok":b}                (keepstore PUT's locator)     *)
(*   {"ev":"verifyks","rel":..,"res":"ok"|"expired"|"denied"}  (keepstore's wrapper) *)
(*   {"ev":"verify","via":..,"rel":"past"|"near"|"future","res":verdict}   *)
(*   {"ev":"ksget","rel":..,"status":int}                                  *)
(*   {"ev":"signtok","hin":[hint..],"hout":[hint..],"sigok":b}               *)
(*   {"ev":"signman","wssame":b,"othersame":b,"hashsame":b}                *)
(***************************************************************************)
EXTENDS BlobSigContract, TraceIO

TraceInit == /\ l = 1
             /\ CInit(TRUE, TRUE, FALSE)

TraceReset == /\ IsEvent("reset")
              /\ inp' = [wf |-> Ev.wf, same |-> Ev.same, lenonly |-> Ev.lenonly]

TraceSignLoc == IsEvent("signloc") /\ SignLoc(Ev.sigok, Ev.expok)
TracePutLoc  == IsEvent("putloc")  /\ PutLoc(Ev.sigok)
TraceVerifyKs == IsEvent("verifyks") /\ VerifyKs(Ev.rel, Ev.res)
TraceVerify  == IsEvent("verify")  /\ Verify(Ev.rel, Ev.res)
TraceKsGet   == IsEvent("ksget")   /\ KsGet(Ev.rel, Ev.status)
TraceSignTok == IsEvent("signtok") /\ SignTok(Ev.hin, Ev.hout, Ev.sigok)
TraceSignMan == IsEvent("signman") /\ SignMan(Ev.wssame, Ev.othersame, Ev.hashsame)

TraceSkip    == IsEvent("skip")    /\ UNCHANGED inp     \* the driver could not make the observation

TraceNext == TraceSkip \/ TraceReset \/ TracePutLoc \/ TraceVerifyKs \/ TraceSignLoc \/ TraceVerify \/ TraceKsGet \/ TraceSignTok \/ TraceSignMan

TraceSpec == TraceInit /\ [][TraceNext]_<<cvars, l>>
=============================================================================
