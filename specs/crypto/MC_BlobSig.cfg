SPECIFICATION Spec
INVARIANTS TypeOK Unforgeable Complete KsOnlyOk KsNoProbe
PROPERTIES Refines Terminates
CHECK_DEADLOCK FALSE
