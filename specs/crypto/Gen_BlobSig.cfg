SPECIFICATION GenSpec
INVARIANTS Emit
CHECK_DEADLOCK FALSE
