------------------------------ MODULE BlobSig ------------------------------
(***************************************************************************)
(* Implementation-shaped model of Keep block signatures                    *)
(* (sdk/go/arvados/blob_signature.go, services/keepstore/perms.go and      *)
(* handleGET in services/keepstore/handlers.go).                           *)
(*                                                                         *)
(* The HMAC is an UNINTERPRETED INJECTIVE function: Sig(h,t,e,ttl,k) is a  *)
(* tagged tuple of its arguments, and the model only ever compares such    *)
(* values for equality.  The expiry field is the pair (time, spelling):    *)
(* the time is compared with the clock, the whole pair is what is signed   *)
(* (the code signs the expiry string).  A signature field is the pair      *)
(* (value, spelling); spelling "alt" is the same 40 positions with one     *)
(* character replaced or upper-cased.                                      *)
(*                                                                         *)
(* Init enumerates the case space                                          *)
(*    locator perturbation x verification-parameter perturbation x         *)
(*    relation of the signed expiry to the clock x hint placement          *)
(*    (size hint, 0-2 other hints before and after the signature) x block  *)
(*    present on the keepstore volume or not                               *)
(* and, separately, the hint-list shapes of a block locator in a manifest  *)
(* to be signed.  Afterwards one action per step of the code:              *)
(*                                                                         *)
(*  VerifySignature                                                        *)
(*    SignedLocatorRe.FindStringSubmatch == nil -> ErrSignatureMissing  Match *)
(*    parseHexTimestamp (cannot fail once the pattern matched)             *)
(*    expiryTime.Before(time.Now()) -> ErrSignatureExpired          Expiry *)
(*    signatureHex != makePermSignature(hash, token, expiryHex, ttlHex,    *)
(*                         key) -> ErrSignatureInvalid ; else nil     Hmac *)
(*  keepstore handleGET (BlobSigning on)                                   *)
(*    VerifySignature error -> 401 ExpiredError / 403 PermissionError,     *)
(*    BEFORE any volume is read; else GetBlock -> 200 or 404        KsReply *)
(*  SignManifest, per block locator token                                  *)
(*    strip every +A hint, append the new one at the END            SignTok *)
(***************************************************************************)
EXTENDS Naturals, Sequences, FiniteSets, TLC, Json, IOUtils

VARIABLES inp,        \* contract ghost state
          cs,         \* the case (constant along a behaviour)
          pc, res, ksstatus, out

C == INSTANCE BlobSigContract
cvars == <<inp>>
vars  == <<inp, cs, pc, res, ksstatus, out>>

Now == 5
TimeOf(rel) == CASE rel = "past" -> 3 [] rel = "near" -> 5 [] rel = "future" -> 7
RelOf(t) == IF t < Now THEN "past" ELSE IF t = Now THEN "near" ELSE "future"

Sig(h, t, ef, ttl, k) == <<"hmac-sha1", h, t, ef, ttl, k>>

LocPerts == {"none", "hash", "exp_future", "exp_past", "expchar_future", "expchar_past", "expcase",
             "sigchar", "sigcase",
             "nosig", "sigchar_nonhex", "expchar_nonhex", "sig_short", "sig_long", "exp_short",
             "exp_long", "noat"}
Malformed == {"nosig", "sigchar_nonhex", "expchar_nonhex", "sig_short", "sig_long", "exp_short",
              "exp_long", "noat"}
LenOnly == {"sig_short", "sig_long", "exp_short", "exp_long"}
VerPerts == {"none", "token", "ttl", "key"}

\* what was signed
SignedExp(c) == [time |-> TimeOf(c.erel), sp |-> "canon"]
SignedSig(c) == [val |-> Sig("h1", "t1", SignedExp(c), "ttl1", "k1"), sp |-> "canon"]

\* what is presented
PHash(c) == IF c.ploc = "hash" THEN "h2" ELSE "h1"
PExp(c)  == CASE c.ploc \in {"exp_future", "expchar_future"} -> [time |-> 8, sp |-> "canon"]
              [] c.ploc \in {"exp_past", "expchar_past"}     -> [time |-> 2, sp |-> "canon"]
              [] c.ploc = "expcase"                          -> [time |-> TimeOf(c.erel), sp |-> "upper"]
              [] OTHER                                       -> SignedExp(c)
PSig(c)  == IF c.ploc \in {"sigchar", "sigcase"} THEN [val |-> SignedSig(c).val, sp |-> "alt"]
            ELSE SignedSig(c)
PWf(c)   == c.ploc \notin Malformed
\* the parameters verification is done with
VTok(c) == IF c.pver = "token" THEN "t2" ELSE "t1"
VTtl(c) == IF c.pver = "ttl" THEN "ttl2" ELSE "ttl1"
VKey(c) == IF c.pver = "key" THEN "k2" ELSE "k1"

Same(c) == c.ploc = "none" /\ c.pver = "none"
PRel(c) == RelOf(PExp(c).time)

\* hint-list shapes of a manifest locator: optional size, then up to 3 hints, each a signature
\* ("A") or another hint ("K")
Shapes == UNION {[1 .. n -> {"A", "K"}] : n \in 0 .. 3}

Init ==
    /\ \/ \E pl \in LocPerts, pv \in VerPerts, er \in {"past", "near", "future"},
             sz \in BOOLEAN, nb \in 0 .. 2, na \in 0 .. 2, pr \in BOOLEAN :
             cs = [kind |-> "verify", ploc |-> pl, pver |-> pv, erel |-> er, size |-> sz,
                   before |-> nb, after |-> na, present |-> pr]
       \/ \E sz \in BOOLEAN, sh \in Shapes :
             cs = [kind |-> "manifest", size |-> sz, shape |-> sh]
    /\ inp = IF cs.kind = "verify" THEN [wf |-> PWf(cs), same |-> Same(cs), lenonly |-> cs.ploc \in LenOnly]
                                   ELSE [wf |-> TRUE, same |-> TRUE, lenonly |-> FALSE]
    /\ pc = IF cs.kind = "verify" THEN "match" ELSE "signtok"
    /\ res = "none"
    /\ ksstatus = 0
    /\ out = <<>>

Finish(r) == /\ res' = r
             /\ pc' = "ks"
             /\ C!Verify(PRel(cs), r)
             /\ UNCHANGED <<cs, ksstatus, out>>

Match ==
    /\ pc = "match"
    /\ IF PWf(cs) THEN pc' = "expiry" /\ UNCHANGED <<inp, cs, res, ksstatus, out>>
                  ELSE Finish("missing")

Expiry ==
    /\ pc = "expiry"
    /\ \/ /\ PExp(cs).time < Now
          /\ Finish("expired")
       \/ /\ PExp(cs).time = Now          \* within the expiry second: depends on the sub-second clock
          /\ Finish("expired")
       \/ /\ PExp(cs).time >= Now
          /\ pc' = "hmac" /\ UNCHANGED <<inp, cs, res, ksstatus, out>>

Hmac ==
    /\ pc = "hmac"
    /\ IF PSig(cs) = [val |-> Sig(PHash(cs), VTok(cs), PExp(cs), VTtl(cs), VKey(cs)), sp |-> "canon"]
       THEN Finish("ok")
       ELSE Finish("invalid")

\* keepstore handleGET with Collections.BlobSigning: the same verdict decides the reply
KsReply ==
    /\ pc = "ks"
    /\ ksstatus' = CASE res = "expired" -> 401
                     [] res = "ok"      -> IF cs.present THEN 200 ELSE 404
                     [] OTHER           -> 403
    /\ C!VerifyKs(PRel(cs), IF res \in {"ok", "expired"} THEN res ELSE "denied")        \* keepstore's VerifySignature wrapper
    /\ C!KsGet(PRel(cs), ksstatus')
    /\ pc' = "done"
    /\ UNCHANGED <<cs, res, out>>

StripA(s) == SelectSeq(s, LAMBDA x : x # "A")

SignTok ==
    /\ pc = "signtok"
    /\ out' = Append(StripA(cs.shape), "A")
    /\ C!SignTok(cs.shape, out', TRUE)
    /\ pc' = "done"
    /\ UNCHANGED <<cs, res, ksstatus>>

Next == Match \/ Expiry \/ Hmac \/ KsReply \/ SignTok

Done == pc = "done"

Spec == Init /\ [][Next]_vars /\ WF_vars(Next)
GenSpec == Init /\ [][Next]_vars

------------------------------------------------------------------------------
(* Design-level checks.                                                    *)
(* Every model action that produces an observable event conjoins the       *)
(* contract's action (which also updates the ghost state), so a step the   *)
(* contract forbids is DISABLED in the model: a model that would break the *)
(* contract gets stuck and TLC reports Terminates violated (plus the       *)
(* explicit invariants below).  Refines re-checks that ghost state only    *)
(* ever moves by contract actions.  (Tried: "return on the first corrupt   *)
(* copy" in KeepHandlers and "token left out of the HMAC" in BlobSig are   *)
(* both refuted this way.)                                                 *)

Refines == [][ (\E rel \in C!Rels, r \in C!Results : C!Verify(rel, r))
               \/ (\E rel \in C!Rels, st \in {200, 401, 403, 404} : C!KsGet(rel, st))
               \/ (cs.kind = "manifest" /\ C!SignTok(cs.shape, out', TRUE))
               \/ UNCHANGED cvars ]_vars

\* unforgeability on the abstract function: acceptance needs all five signed values, the exact
\* signature and expiry spelling, and an expiry that has not passed
Unforgeable == res = "ok" => /\ cs.ploc = "none" /\ cs.pver = "none"
                             /\ PExp(cs).time >= Now
\* a signature that is intact, presented with the signed parameters strictly before its expiry,
\* is accepted
Complete == (pc \in {"ks", "done"} /\ cs.kind = "verify" /\ Same(cs) /\ PExp(cs).time > Now) => res = "ok"
\* data leaves keepstore only after a positive verdict
KsOnlyOk == ksstatus = 200 => res = "ok"
\* a refused request never depends on the volume (no volume access before verification)
KsNoProbe == (pc = "done" /\ cs.kind = "verify" /\ res # "ok") => ksstatus \in {401, 403}

TypeOK == /\ pc \in {"match", "expiry", "hmac", "ks", "signtok", "done"}
          /\ res \in C!Results \cup {"none"}
          /\ C!TypeOK

Terminates == <>Done

------------------------------------------------------------------------------
(* Scenario emission: the case, its classification and the model's prediction (for drift only). *)
Emit == Done =>
          Serialize(<<[id |-> TLCGet("distinct"), cs |-> cs, wf |-> inp.wf, same |-> inp.same, lenonly |-> inp.lenonly,
                       expect |-> res, expect_ks |-> ksstatus, expect_out |-> out]>>,
                    IOEnv.VERIF_OUT,
                    [format |-> "NDJSON", charset |-> "UTF-8",
                     openOptions |-> <<"WRITE", "CREATE", "APPEND">>])
=============================================================================
