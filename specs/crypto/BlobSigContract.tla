-------------------------- MODULE BlobSigContract --------------------------
(***************************************************************************)
(* C07 - contract of Keep block signatures, over observable events only.   *)
(*                                                                         *)
(* A case is: a locator signed for (hash, token, expiry, TTL, key), then   *)
(* presented - possibly perturbed - for verification with some token, TTL  *)
(* and key.  The harness knows by construction (it made the perturbation)  *)
(*   wf    the presented locator is a syntactically valid locator carrying *)
(*         a well-formed signature hint  +A<40 hex digits>@<8 hex digits>  *)
(*   same  nothing was changed: hash, token, TTL, key and every character  *)
(*         of the signature and expiry fields are the signed ones          *)
(* and it observes, at each call,                                          *)
(*   rel   the presented expiry time e against the clock: "past" (e is     *)
(*         before the second in which the call started), "future" (e is    *)
(*         after the second in which the call returned), else "near"       *)
(*   res   the verdict: "ok" | "expired" | "missing" | "invalid" |         *)
(*         "denied" (keepstore's PermissionError, which merges the last    *)
(*         two)                                                            *)
(*                                                                         *)
(* Statement clauses and where they are                                    *)
(*  (a) "verifies if and only if it is presented with the same token, TTL  *)
(*      and key before the expiry time; changing any of these, any         *)
(*      character of the signature or expiry field, or removing the        *)
(*      signature makes verification fail"                                 *)
(*                         Allowed: "ok" only if wf /\ same /\ rel # past; *)
(*                         nothing but "ok" if wf /\ same /\ rel = future  *)
(*  (b) "a well-formed signature whose expiry has passed is reported as    *)
(*      expired, everything else as missing or invalid"                    *)
(*                         Allowed: an UNCHANGED signed locator presented  *)
(*                         after its expiry -> {expired}.                  *)
(*      Where the statement leaves the class open the contract takes any   *)
(*      failing class: it does not say which of missing/invalid; a locator *)
(*      that is both perturbed (forged, or a hex letter upper-cased, which *)
(*      a stricter verifier may call malformed) AND expired may be         *)
(*      reported as expired or as missing/invalid (a verifier checking the *)
(*      HMAC first is as good); "at" the expiry second the statement       *)
(*      ("before") and the two implementations differ, so rel = near       *)
(*      allows both outcomes; a field that is merely one hex digit too     *)
(*      short/long with a past expiry may also be called expired.          *)
(*      keepstore's wrapper is judged the same way (VerifyKs), its two     *)
(*      refusals being "expired" and "denied".                             *)
(*  (c) "the signature is the lowercase hex HMAC-SHA1 under the key of     *)
(*      hash@token@expiry-hex@ttl-hex exactly as the API server computes   *)
(*      it"                SignLoc: the output carries a signature hint    *)
(*                         whose signature and expiry fields equal the     *)
(*                         harness's reference (written from blob.rb);     *)
(*                         WHERE the hint is placed is not judged.         *)
(*                         PutLoc: a signature on a locator returned by    *)
(*                         keepstore PUT equals the reference HMAC for the *)
(*                         fields that locator carries (which expiry PUT   *)
(*                         chooses and the locator's layout: not judged).  *)
(*  (d) "With blob signing enabled keepstore returns block data only for   *)
(*      locators carrying such a valid unexpired signature for the         *)
(*      requesting token"  KsGet: success status => "ok" allowed           *)
(*  (e) "signing a manifest replaces the signature on every block locator  *)
(*      while leaving stream names, file tokens, other hints and           *)
(*      whitespace unchanged"                                              *)
(*                         SignTok (per locator token) and SignMan         *)
(***************************************************************************)
EXTENDS Naturals, Sequences

VARIABLES inp       \* [wf |-> BOOLEAN, same |-> BOOLEAN, lenonly |-> BOOLEAN] classification of the case
                    \* under test; lenonly: not well-formed ONLY because the signature or expiry field
                    \* has one hex digit too few or too many (a verifier may still read an expiry)

cvars == <<inp>>

Results == {"ok", "expired", "missing", "invalid", "denied"}
Fail    == {"missing", "invalid", "denied"}
Rels    == {"past", "near", "future"}

AnyFailure == Fail \cup {"expired"}

Allowed(i, rel) ==
    IF i.wf /\ i.same
    THEN (IF rel = "past" THEN {"expired"}
          ELSE IF rel = "future" THEN {"ok"}
          ELSE {"ok", "expired"})
    ELSE IF ~i.wf THEN (IF i.lenonly /\ rel # "future" THEN AnyFailure   \* wrong field length, (possibly) expired
                        ELSE Fail)                \* no well-formed signature: cannot be "expired"
    ELSE (IF rel = "future" THEN Fail ELSE AnyFailure)   \* perturbed; if (possibly) expired, any failure

CInit(wf, same, lenonly) == inp = [wf |-> wf, same |-> same, lenonly |-> lenonly]

(* VerifySignature (any of the three entry points) returned res. *)
Verify(rel, res) == /\ rel \in Rels
                    /\ res \in Allowed(inp, rel)
                    /\ UNCHANGED inp

Success(status) == status >= 200 /\ status < 300

(* keepstore's own VerifySignature wrapper returned res: "ok", "expired"   *)
(* (its ExpiredError, recognised by errors.Is or by the HTTP status the    *)
(* error carries) or "denied" (any other refusal).  The statement's "a     *)
(* well-formed signature whose expiry has passed is reported as expired,   *)
(* everything else as missing or invalid" is judged here too: an unchanged *)
(* but expired locator must be "expired", a perturbed unexpired one must   *)
(* not be.                                                                 *)
VerifyKs(rel, res) == /\ rel \in Rels
                      /\ res \in Allowed(inp, rel)
                      /\ UNCHANGED inp

(* keepstore answered a GET of the presented locator (blob signing on). *)
KsGet(rel, status) == /\ rel \in Rels
                      /\ Success(status) => "ok" \in Allowed(inp, rel)
                      /\ UNCHANGED inp

(* SignLocator returned a locator carrying a signature hint: sig/exp = the *)
(* hint's fields equal the reference.                                      *)
SignLoc(sigok, expok) == /\ sigok /\ expok
                         /\ UNCHANGED inp

(* keepstore PUT returned a locator carrying a signature hint: the         *)
(* signature equals the reference HMAC over the fields the locator carries *)
PutLoc(sigok) == /\ sigok
                 /\ UNCHANGED inp

IsA(x) == x = "A"
NonA(s) == SelectSeq(s, LAMBDA x : ~IsA(x))
OnlyA(s) == SelectSeq(s, IsA)

(* One block locator token of a signed manifest: in/out are the hint lists *)
(* after the hash, every +A... hint written as "A", every other hint       *)
(* (size included) as its full text.  sigok = EVERY +A hint of the output  *)
(* is the reference signature for the signing parameters (so no old        *)
(* signature survives, whether signatures are replaced in place or         *)
(* stripped and one appended).                                             *)
SignTok(in, out, sigok) == /\ NonA(out) = NonA(in)              \* other hints unchanged, in order
                           /\ Len(OnlyA(out)) >= 1              \* every locator leaves signed ...
                           /\ sigok                              \* ... and only with fresh signatures
                           /\ UNCHANGED inp

(* The manifest as a whole: whitespace runs and all tokens that are not    *)
(* block locators are byte-identical; hashes of block locators too.        *)
SignMan(wssame, othersame, hashsame) == /\ wssame /\ othersame /\ hashsame
                                        /\ UNCHANGED inp

TypeOK == inp.wf \in BOOLEAN /\ inp.same \in BOOLEAN /\ inp.lenonly \in BOOLEAN
=============================================================================
