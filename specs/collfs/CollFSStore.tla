----------------------------- MODULE CollFSStore -----------------------------
(***************************************************************************)
(* C09 - contract of SAVING a collection filesystem, on top of the CollFS  *)
(* contract (every C08 event keeps its meaning).                           *)
(*                                                                         *)
(* Additional observables: every Keep write with its outcome (PutB), the   *)
(* call and the return of every save (MarshalManifest, Sync, or Flush      *)
(* followed by MarshalManifest), the saved manifest in the abstract form   *)
(* produced by the harness tokenizer, and the tree obtained by loading the *)
(* saved text into a second filesystem (Reload).                           *)
(*                                                                         *)
(* Abstract manifest m = [gok, streams], stream = [name (path), blocks,    *)
(* files], block = [d (bytes the recording Keep holds for the hash), sz,   *)
(* known, orig (hash+size occur in the original manifest), put (exactly    *)
(* this locator was returned by a successful PutB), md5 (md5(d) = hash)],  *)
(* file token = [pos, len, name (path; <<".">> = empty-directory marker)]. *)
(*                                                                         *)
(* Clauses of the statement (properties.jsonl C09):                        *)
(*  "whenever saving succeeds the manifest is valid under the published    *)
(*   grammar"                               Save(ok): m.gok                *)
(*  "loading it yields exactly the same directories (including empty       *)
(*   ones), file names and file contents"   Save(ok): MListing(m) = tree   *)
(*                                          (format semantics, below) and  *)
(*                                          Reload = tree (real loader)    *)
(*  "every block locator either came from the original manifest or was     *)
(*   returned by a successful Keep write of precisely the bytes the file   *)
(*   segments claim"                        Save(ok): BlocksOK             *)
(*  "if any required block write fails the save returns an error"          *)
(*                                          implied by Save(ok): a manifest *)
(*                                          that needs an unwritten block   *)
(*                                          fails BlocksOK / MListing       *)
(*  "the buffered data stays intact and readable"   the Snap / Read events *)
(*                                          after a failed save            *)
(*  "a later save can still succeed"        Save(~ok) only if a Keep write *)
(*                                          failed since the PREVIOUS save *)
(*                                          returned (in the background or *)
(*                                          during this save: an error may *)
(*                                          be reported late, but once: a  *)
(*                                          save with no failed write      *)
(*                                          since the last one succeeds)   *)
(*  "loading any valid manifest and saving it unchanged preserves every    *)
(*   file's content and the total size"     scenarios that start from a    *)
(*                                          generated manifest and save    *)
(*                                          at once; Reload total          *)
(* The zero-length block d41d8cd98f00b204e9800998ecf8427e+0 counts as original:  *)
(* Keep clients serve it without it ever having been written (the harness sets   *)
(* orig/known/md5 for it).                                                       *)
(* Silent: whether a save must fail when a write fails that the save did   *)
(* not need (a background write finishing late) - accepted either way.     *)
(***************************************************************************)
EXTENDS CollFS

VARIABLES insave,      \* a save call is in progress
          nfail        \* Keep writes that failed since the previous save returned (or since the start)

svars == <<insave, nfail>>
allvars == <<fsvars, svars>>

StoreInit == insave = FALSE /\ nfail = 0

PutB(ok) == /\ nfail' = IF ~ok THEN nfail + 1 ELSE nfail
            /\ UNCHANGED <<fsvars, insave>>

SaveCall == /\ insave' = TRUE
            /\ UNCHANGED <<fsvars, nfail>>

-----------------------------------------------------------------------------
(* Format semantics (doc/architecture/manifest-format): the data stream of a *)
(* stream is the concatenation of its blocks; a file token cuts              *)
(* [pos, pos+len) out of it; tokens with the same path are concatenated in   *)
(* manifest order; every stream name and every directory part of a path      *)
(* exists as a directory.                                                    *)
RECURSIVE CatBlocks(_, _)
CatBlocks(bs, i) == IF i > Len(bs) THEN "" ELSE bs[i].d \o CatBlocks(bs, i + 1)

TokenOK(s, t) == t.pos + t.len <= Len(CatBlocks(s.blocks, 1))
TokData(s, t) == SubSeq(CatBlocks(s.blocks, 1), t.pos + 1, t.pos + t.len)
IsMarker(t) == t.name = <<".">>
TokPath(s, t) == s.name \o t.name

SemOK(m) == \A i \in 1 .. Len(m.streams) : \A j \in 1 .. Len(m.streams[i].files) :
               TokenOK(m.streams[i], m.streams[i].files[j])

MFiles(m) == UNION { { TokPath(m.streams[i], m.streams[i].files[j]) :
                         j \in { k \in 1 .. Len(m.streams[i].files) : ~IsMarker(m.streams[i].files[k]) } } :
                     i \in 1 .. Len(m.streams) }

RECURSIVE MCat(_, _, _, _)
MCat(m, p, i, j) ==      \* content of path p: tokens (i, j), (i, j+1), ... in manifest order
    IF i > Len(m.streams) THEN ""
    ELSE IF j > Len(m.streams[i].files) THEN MCat(m, p, i + 1, 1)
    ELSE LET s == m.streams[i]  t == s.files[j] IN
         (IF ~IsMarker(t) /\ TokPath(s, t) = p THEN TokData(s, t) ELSE "") \o MCat(m, p, i, j + 1)

Prefixes(p) == { SubSeq(p, 1, n) : n \in 1 .. Len(p) }
MDirs(m) == UNION ({ Prefixes(m.streams[i].name) : i \in 1 .. Len(m.streams) }
                   \cup { Prefixes(Front(p)) : p \in MFiles(m) })

MListing(m) == { <<p, "f", MCat(m, p, 1, 1)>> : p \in MFiles(m) } \cup { <<p, "d", "">> : p \in MDirs(m) }

BlocksOK(m) == \A i \in 1 .. Len(m.streams) : \A j \in 1 .. Len(m.streams[i].blocks) :
                 LET b == m.streams[i].blocks[j] IN
                 /\ b.orig \/ b.put                       \* original, or returned by a successful write
                 /\ b.known /\ b.md5 /\ b.sz = Len(b.d)   \* ... of exactly these bytes

Save(ok, m) ==
    /\ insave
    /\ IF ok
       THEN /\ m.gok                                      \* valid under the published grammar
            /\ BlocksOK(m)
            /\ SemOK(m)
            /\ MListing(m) = Listing(1, <<>>)             \* same directories, names, contents
       ELSE nfail > 0                                     \* some Keep write failed since the previous save returned
    /\ insave' = FALSE /\ nfail' = 0 /\ UNCHANGED fsvars

(* the saved text loaded into a second filesystem by the real loader and walked *)
Reload(ok, ents, total) ==
    /\ ok
    /\ Snap(ents, total)
    /\ UNCHANGED svars
=============================================================================
