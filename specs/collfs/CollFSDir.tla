------------------------------ MODULE CollFSDir ------------------------------
(***************************************************************************)
(* Implementation-shaped model of the DIRECTORY level of a collection      *)
(* filesystem (sdk/go/arvados/fs_base.go, fs_collection.go): name lookup,  *)
(* Mkdir, OpenFile(O_CREATE), Remove, Rename, Stat and the lock-everything *)
(* traversal of MarshalManifest, executed by 2 worker goroutines, with the *)
(* locks of the code:                                                      *)
(*   - one RWMutex per inode.  rlookup read-locks one directory at a time  *)
(*     (lock, look the child up, unlock), so a lookup step only needs the  *)
(*     directory not to be write-locked; no read lock is held across steps *)
(*     (operations that hold a read lock while locking children - Readdir, *)
(*     TreeSize - and writer preference are not modelled);                 *)
(*   - Mkdir / OpenFile(O_CREATE): lookup of the parent, THEN parent.Lock()*)
(*     - the parent found by the lookup may have been removed or moved     *)
(*     meanwhile;                                                          *)
(*   - remove: dir.Lock(), then detach() of the child directory (child's   *)
(*     lock: emptiness test + removed flag), then the entry is deleted;    *)
(*   - Rename: both directories are looked up first (openFile(dir+".")),   *)
(*     then the filesystem-wide mutex, then every ancestor of both         *)
(*     directories root-first (computed through the parent POINTERS, which *)
(*     are not reset when a directory is unlinked), then the move, which   *)
(*     takes the moved inode's own lock (SetParent);                       *)
(*   - MarshalManifest: root.Lock(), then every child, top-down.           *)
(*                                                                         *)
(* Ghost state = the CollFS contract.  An operation takes effect in the    *)
(* contract at its commit step (under its locks) or, when a lookup fails,  *)
(* at that lookup step.  Checked:                                          *)
(*   Linearizable  the result the code computes is one the contract allows *)
(*                 at that point, with the same effect on the tree         *)
(*                 (refinement of CollFS by construction of the steps)     *)
(*   TreeAgree     implementation tree = contract tree                     *)
(*   deadlock freedom (CHECK_DEADLOCK TRUE: every state but "all done" has *)
(*                 a successor): lock order is filesystem mutex, then      *)
(*                 top-down by the tree.                                   *)
(*                                                                         *)
(* History (KF-C13-1, fixed by 9333098).  Before the fix remove() tested    *)
(* emptiness with node.Size() (child's lock taken and released) and then   *)
(* deleted the entry, and nothing stopped Mkdir / O_CREATE / Rename from   *)
(* adding an entry to a directory they had looked up before it was         *)
(* unlinked: both calls returned nil and the entry was in no tree (no      *)
(* order of the two successes is allowed by the contract).  This model     *)
(* found it (NoLost / Linearizable failed), the driver reproduced it.      *)
(* The fixed protocol modelled here: detach() tests emptiness and sets     *)
(* treenode.removed in ONE critical section under the node's own lock;     *)
(* treenode.Child() refuses to add to / replace in a removed node          *)
(* (os.ErrNotExist).  `lost` must now stay FALSE (NoLost); `hit` marks the *)
(* behaviours in which the flag decided, which Gen_CollFSDir_C13.cfg emits *)
(* as regression schedules for RUN + JUDGE.                                *)
(***************************************************************************)
EXTENDS Integers, Sequences, FiniteSets, TLC, Json, IOUtils

CONSTANTS Workers,          \* e.g. {1, 2}
          OpsPerWorker,     \* operations each worker performs
          MaxHist

VARIABLES nodes, handles,   \* CollFS contract (ghost)
          tree,             \* implementation tree, same shape as nodes
          par,              \* parent pointer per inode (root points to itself; never reset on unlink)
          rem,              \* per inode: the `removed` flag of treenode (set by detach under the node's own lock)
          lk,               \* per inode: 0 or the worker holding its (write) lock
          mtx,              \* 0 or the worker holding the filesystem-wide mutex
          wk,               \* per worker: program counter and registers
          cnt,              \* per worker: operations started
          linbad,           \* some result was not allowed by the contract
          taint,            \* an operation acted on a directory that was no longer where its lookup
                            \* found it (moved or unlinked meanwhile): its commit step is not its
                            \* linearisation point, nothing is judged from here on
          lost,             \* an entry was created in / moved into a directory that is in no tree, or a
                            \* non-empty directory was unlinked by Remove (must never happen)
          hit,              \* the removed-flag made an operation fail (the race the flag exists for happened)
          hist

C == INSTANCE CollFS
cvars == <<nodes, handles>>
vars == <<nodes, handles, tree, par, rem, lk, mtx, wk, cnt, linbad, taint, lost, hit, hist>>
view == <<nodes, handles, tree, par, rem, lk, mtx, wk, cnt, linbad, taint, lost, hit>>

Front(p) == SubSeq(p, 1, Len(p) - 1)
Last(p) == p[Len(p)]
IsD(i) == tree[i].k = "d"
Kids(i) == DOMAIN tree[i].e

\* is inode i still reachable from the root (in the implementation tree)?
RECURSIVE Attached(_, _)
Attached(i, fuel) == IF i = 1 THEN TRUE
                     ELSE IF fuel = 0 THEN FALSE
                     ELSE LET p == par[i] IN
                          /\ IsD(p) /\ \E n \in Kids(p) : tree[p].e[n] = i
                          /\ Attached(p, fuel - 1)
IsAttached(i) == Attached(i, Len(tree))

\* the operations of the menu
Menu == { [k |-> "mkdir",  p |-> <<"s", "t">>, q |-> <<>>],
          [k |-> "mkdir",  p |-> <<"u">>, q |-> <<>>],
          [k |-> "create", p |-> <<"s", "b">>, q |-> <<>>],
          [k |-> "remove", p |-> <<"s">>, q |-> <<>>],
          [k |-> "remove", p |-> <<"a">>, q |-> <<>>],
          [k |-> "rename", p |-> <<"a">>, q |-> <<"s", "a">>],
          [k |-> "rename", p |-> <<"s">>, q |-> <<"u">>],
          [k |-> "rename", p |-> <<"s">>, q |-> <<"s", "x">>],
          [k |-> "rename", p |-> <<"a">>, q |-> <<"a">>],
          [k |-> "stat",   p |-> <<"s", "a">>, q |-> <<>>],
          [k |-> "marshal", p |-> <<>>, q |-> <<>>] }

Idle == [pc |-> "idle"]

Init ==
    /\ nodes = << [k |-> "d", e |-> [n \in {"a", "s"} |-> IF n = "a" THEN 2 ELSE 3]],
                  [k |-> "f", d |-> "x"], [k |-> "d", e |-> <<>>] >>
    /\ handles = <<>>
    /\ tree = nodes
    /\ par = <<1, 1, 1>>
    /\ lk = <<0, 0, 0>> /\ rem = <<FALSE, FALSE, FALSE>>
    /\ mtx = 0
    /\ wk = [w \in Workers |-> Idle]
    /\ cnt = [w \in Workers |-> 0]
    /\ linbad = FALSE /\ taint = FALSE /\ lost = FALSE /\ hit = FALSE
    /\ hist = <<>>

Rec(r) == hist' = IF Len(hist) < MaxHist THEN Append(hist, r) ELSE hist
SetW(w, r) == wk' = [wk EXCEPT ![w] = r]

RECURSIVE IWalk(_, _)
IWalk(i, path) == IF path = <<>> THEN i
                  ELSE IF i = 0 THEN 0
                  ELSE IF ~IsD(i) THEN 0
                  ELSE IF Head(path) \notin Kids(i) THEN 0
                  ELSE IWalk(tree[i].e[Head(path)], Tail(path))
InPlace(path, i) == IWalk(1, path) = i       \* the directory is still where the lookup found it

(* Judge a result against the contract at this very step (A = the contract action with the  *)
(* observed result AND the implementation's new tree as its effect).  Only operations whose  *)
(* directories stayed in place are judged here: for the others the commit step need not be   *)
(* the linearisation point (e.g. Mkdir("s/t") racing with Rename("s","u") takes effect at    *)
(* its lookup); they are left to the trace contract CollFSConc, and the one class that has   *)
(* no linearisation at all is tracked by `lost`.                                             *)
Lin(A, inplace) ==
    IF taint THEN UNCHANGED <<cvars, linbad, taint>>
    ELSE IF ~inplace THEN taint' = TRUE /\ UNCHANGED <<cvars, linbad>>
    ELSE IF ENABLED A THEN A /\ UNCHANGED <<linbad, taint>>
    ELSE linbad' = TRUE /\ UNCHANGED <<cvars, taint>>

-----------------------------------------------------------------------------
Start(w, op) ==
    /\ wk[w].pc = "idle" /\ cnt[w] < OpsPerWorker
    /\ cnt' = [cnt EXCEPT ![w] = @ + 1]
    /\ Rec([w |-> w, op |-> op.k, p |-> op.p, q |-> op.q])
    /\ IF op.k = "marshal"
       THEN SetW(w, [pc |-> "ma_lock", op |-> op, queue |-> <<1>>, held |-> <<>>])
       ELSE SetW(w, [pc |-> "look", op |-> op,
                     path |-> IF op.k = "stat" THEN op.p ELSE Front(op.p), i |-> 1, cur |-> 1,
                     phase |-> 1, od |-> 0, nd |-> 0, need |-> <<>>, held |-> <<>>, tgt |-> 0, empty |-> TRUE])
    /\ UNCHANGED <<cvars, tree, par, lk, mtx, linbad, taint, lost, rem, hit>>

\* the contract action of a FAILED operation (no effect on either tree)
FailAct(op, w) ==
    CASE op.k = "mkdir"  -> C!Mkdir(op.p, FALSE)
      [] op.k = "create" -> C!Open(w, op.p, [acc |-> "rw", cr |-> TRUE, ex |-> FALSE, tr |-> FALSE, ap |-> FALSE], FALSE)
      [] op.k = "remove" -> C!Remove(op.p, FALSE)
      [] op.k = "rename" -> C!Rename(op.p, op.q, FALSE)
      [] op.k = "stat"   -> C!Stat(op.p, FALSE, FALSE, 0)

(* rlookup: one component per step; the directory must not be write-locked *)
Look(w) ==
    /\ wk[w].pc = "look"
    /\ LET r == wk[w]  node == r.cur IN
       IF r.i > Len(r.path)
       THEN \* lookup finished
            /\ UNCHANGED <<cvars, linbad, taint>>
            /\ CASE r.op.k = "stat" ->
                      \* Stat: FileInfo() of the node found (its lock for an instant)
                      /\ lk[node] = 0
                      /\ SetW(w, [r EXCEPT !.pc = "stat_do"])
                 [] r.op.k = "rename" /\ r.phase = 1 ->
                      SetW(w, [r EXCEPT !.od = node, !.phase = 2, !.path = Front(r.op.q), !.i = 1, !.cur = 1])
                 [] r.op.k = "rename" /\ r.phase = 2 ->
                      SetW(w, [r EXCEPT !.nd = node, !.pc = "rn_mtx"])
                 [] OTHER -> SetW(w, [r EXCEPT !.pc = "lock1"])
       ELSE /\ lk[node] = 0 \/ ~IsD(node)
            /\ IF IsD(node) /\ r.path[r.i] \in Kids(node)
               THEN /\ SetW(w, [r EXCEPT !.cur = tree[node].e[r.path[r.i]], !.i = @ + 1])
                    /\ UNCHANGED <<cvars, linbad, taint>>
               ELSE \* no such entry / not a directory: the operation fails here
                    /\ Lin(FailAct(r.op, w), InPlace(SubSeq(r.path, 1, r.i - 1), node))
                    /\ SetW(w, Idle)
    /\ UNCHANGED <<tree, par, lk, mtx, cnt, lost, rem, hit, hist>>

StatDo(w) ==
    /\ wk[w].pc = "stat_do"
    /\ LET r == wk[w]  node == r.cur IN
       /\ lk[node] = 0
       /\ Lin(C!Stat(r.op.p, TRUE, IsD(node), IF IsD(node) THEN 0 ELSE Len(tree[node].d)), InPlace(r.op.p, node))
    /\ SetW(w, Idle)
    /\ UNCHANGED <<tree, par, lk, mtx, cnt, lost, rem, hit, hist>>

(* Mkdir / OpenFile(O_CREATE): parent.Lock(), create unless the name exists, unlock - one critical  *)
(* section.  treenode.Child refuses to add an entry to a node whose `removed` flag is set.         *)
Lock1(w) ==
    /\ wk[w].pc = "lock1" /\ wk[w].op.k \in {"mkdir", "create"}
    /\ LET r == wk[w]  n == r.cur  name == Last(r.op.p)
           new == Len(tree) + 1
           inpl == InPlace(Front(r.op.p), n)
           gone == IsD(n) /\ name \notin Kids(n) /\ rem[n]            \* refused: os.ErrNotExist
           creates == IsD(n) /\ name \notin Kids(n) /\ ~rem[n] IN
       /\ lk[n] = 0
       /\ lost' = (lost \/ (creates /\ ~IsAttached(n)))
       /\ hit' = (hit \/ gone)
       /\ IF ~IsD(n)
          THEN /\ Lin(FailAct(r.op, w), inpl) /\ UNCHANGED <<tree, par, lk, rem>>
          ELSE IF gone
          THEN \* judged at this step unless the path meanwhile names another directory
               /\ Lin(FailAct(r.op, w), IWalk(1, Front(r.op.p)) = 0) /\ UNCHANGED <<tree, par, lk, rem>>
          ELSE IF r.op.k = "mkdir"
          THEN IF name \in Kids(n)
               THEN /\ Lin(C!Mkdir(r.op.p, FALSE), inpl) /\ UNCHANGED <<tree, par, lk, rem>>
               ELSE LET t2 == Append(C!Link(tree, n, name, new), [k |-> "d", e |-> <<>>]) IN
                    /\ tree' = t2 /\ par' = Append(par, n) /\ lk' = Append(lk, 0) /\ rem' = Append(rem, FALSE)
                    /\ Lin(C!Mkdir(r.op.p, TRUE) /\ nodes' = t2, inpl)
          ELSE LET fl == [acc |-> "rw", cr |-> TRUE, ex |-> FALSE, tr |-> FALSE, ap |-> FALSE] IN
               IF name \in Kids(n)
               THEN /\ UNCHANGED <<tree, par, lk, rem>>          \* opens the existing entry
                    /\ Lin(C!Open(w, r.op.p, fl, TRUE) /\ nodes' = tree, inpl)
               ELSE LET t2 == Append(C!Link(tree, n, name, new), [k |-> "f", d |-> ""]) IN
                    /\ tree' = t2 /\ par' = Append(par, n) /\ lk' = Append(lk, 0) /\ rem' = Append(rem, FALSE)
                    /\ Lin(C!Open(w, r.op.p, fl, TRUE) /\ nodes' = t2, inpl)
    /\ SetW(w, Idle)
    /\ UNCHANGED <<mtx, cnt, hist>>

(* remove: dir.Lock() ... *)
RmLock(w) ==
    /\ wk[w].pc = "lock1" /\ wk[w].op.k = "remove"
    /\ lk[wk[w].cur] = 0
    /\ lk' = [lk EXCEPT ![wk[w].cur] = w]
    /\ SetW(w, [wk[w] EXCEPT !.pc = "rm_do"])
    /\ UNCHANGED <<cvars, tree, par, mtx, cnt, linbad, taint, lost, rem, hit, hist>>

(* ... then detach(): under the child's own lock the emptiness is tested AND the node marked       *)
(* removed (one critical section), so nothing can be added to it in between or afterwards ...       *)
RmDetach(w) ==
    /\ wk[w].pc = "rm_do"
    /\ LET r == wk[w]  dir == r.cur  name == Last(r.op.p) IN
       IF ~IsD(dir) \/ name \notin Kids(dir) \/ rem[dir]
       THEN /\ SetW(w, [r EXCEPT !.pc = "rm_fin", !.tgt = 0, !.empty = TRUE])
            /\ UNCHANGED rem
       ELSE LET c == tree[dir].e[name]
                ok == ~IsD(c) \/ Kids(c) = {} IN
            /\ IsD(c) => lk[c] = 0                            \* detach() blocks while somebody holds the directory
            /\ rem' = IF ok /\ IsD(c) THEN [rem EXCEPT ![c] = TRUE] ELSE rem
            /\ SetW(w, [r EXCEPT !.pc = "rm_fin", !.tgt = c, !.empty = ok])
    /\ UNCHANGED <<cvars, tree, par, lk, mtx, cnt, linbad, taint, lost, hit, hist>>

(* ... and the entry is deleted, dir.Unlock() *)
RmDo(w) ==
    /\ wk[w].pc = "rm_fin"
    /\ LET r == wk[w]  dir == r.cur  name == Last(r.op.p)
           inpl == InPlace(Front(r.op.p), dir) \/ (rem[dir] /\ IWalk(1, Front(r.op.p)) = 0) IN
       /\ hit' = (hit \/ (r.tgt = 0 /\ rem[dir]))
       /\ IF r.tgt = 0
          THEN /\ Lin(C!Remove(r.op.p, FALSE), inpl) /\ UNCHANGED <<tree, lost>>
          ELSE IF ~r.empty
          THEN /\ Lin(C!Remove(r.op.p, FALSE), inpl) /\ UNCHANGED <<tree, lost>>
          ELSE LET t2 == C!Unlink(tree, dir, name) IN
               /\ tree' = t2
               /\ lost' = (lost \/ (IsD(r.tgt) /\ Kids(r.tgt) # {}))   \* a non-empty directory unlinked by Remove
               /\ Lin(C!Remove(r.op.p, TRUE) /\ nodes' = t2, inpl)
       /\ lk' = [lk EXCEPT ![dir] = 0]
    /\ SetW(w, Idle)
    /\ UNCHANGED <<par, mtx, cnt, rem, hist>>

(* Rename: filesystem-wide mutex *)
RnMtx(w) ==
    /\ wk[w].pc = "rn_mtx" /\ mtx = 0
    /\ mtx' = w
    /\ SetW(w, [wk[w] EXCEPT !.pc = "rn_need"])
    /\ UNCHANGED <<cvars, tree, par, lk, cnt, linbad, taint, lost, rem, hit, hist>>

RECURSIVE Chain(_, _)
Chain(i, fuel) == IF i = 1 \/ fuel = 0 THEN <<1>> ELSE <<i>> \o Chain(par[i], fuel - 1)   \* i, parent, ..., root
RECURSIVE Rev(_)
Rev(s) == IF s = <<>> THEN <<>> ELSE Append(Rev(Tail(s)), Head(s))
RECURSIVE Dedup(_, _)
Dedup(s, seen) == IF s = <<>> THEN <<>>
                  ELSE IF Head(s) \in seen THEN Dedup(Tail(s), seen)
                  ELSE <<Head(s)>> \o Dedup(Tail(s), seen \cup {Head(s)})

(* needLock: the two directories and all their ancestors (node.Parent() read-locks each for an instant) *)
RnNeed(w) ==
    /\ wk[w].pc = "rn_need"
    /\ LET r == wk[w]
           c1 == Chain(r.od, Len(tree))  c2 == Chain(r.nd, Len(tree)) IN
       /\ \A j \in 1 .. Len(c1) : lk[c1[j]] = 0
       /\ \A j \in 1 .. Len(c2) : lk[c2[j]] = 0
       \* locked from the end of [od chain, nd chain] backwards: root .. nd, then the rest of root .. od
       /\ SetW(w, [r EXCEPT !.pc = "rn_lock", !.need = Dedup(Rev(c2) \o Rev(c1), {})])
    /\ UNCHANGED <<cvars, tree, par, lk, mtx, cnt, linbad, taint, lost, rem, hit, hist>>

RnLock(w) ==
    /\ wk[w].pc = "rn_lock" /\ wk[w].need # <<>>
    /\ LET n == Head(wk[w].need) IN
       /\ lk[n] = 0
       /\ lk' = [lk EXCEPT ![n] = w]
       /\ SetW(w, [wk[w] EXCEPT !.need = Tail(@), !.held = Append(@, n)])
    /\ UNCHANGED <<cvars, tree, par, mtx, cnt, linbad, taint, lost, rem, hit, hist>>

RnDo(w) ==
    /\ wk[w].pc = "rn_lock" /\ wk[w].need = <<>>
    /\ LET r == wk[w]  od == r.od  nd == r.nd
           on == Last(r.op.p)  nn == Last(r.op.q)
           heldset == {r.held[j] : j \in 1 .. Len(r.held)}
           inpl == InPlace(Front(r.op.p), od) /\ InPlace(Front(r.op.q), nd)
           \* the removed flag is tested by olddir.Child first, then (after the not-found, own-subtree
           \* and onto-itself tests) by newdir.Child
           gone == \/ (IsD(od) /\ rem[od])
                   \/ /\ IsD(od) /\ on \in Kids(od) /\ tree[od].e[on] \notin heldset /\ ~(od = nd /\ on = nn)
                      /\ IsD(nd) /\ rem[nd]
           goneJudged == IWalk(1, Front(r.op.p)) = 0 \/ IWalk(1, Front(r.op.q)) = 0
           moves == /\ ~gone
                    /\ IsD(od) /\ on \in Kids(od) /\ tree[od].e[on] \notin heldset /\ ~(od = nd /\ on = nn)
                    /\ IsD(nd) /\ ~(nn \in Kids(nd) /\ IsD(tree[nd].e[nn]))
           unlockAll == [j \in 1 .. Len(lk) |-> IF lk[j] = w THEN 0 ELSE lk[j]] IN
       /\ lost' = (lost \/ (moves /\ ~IsAttached(nd)))
       /\ hit' = (hit \/ gone)
       /\ IF gone                                               \* olddir.Child / newdir.Child refuse: os.ErrNotExist
          THEN /\ Lin(C!Rename(r.op.p, r.op.q, FALSE), goneJudged) /\ UNCHANGED <<tree, par>> /\ lk' = unlockAll
          ELSE IF ~IsD(od) \/ on \notin Kids(od)
          THEN /\ Lin(C!Rename(r.op.p, r.op.q, FALSE), inpl) /\ UNCHANGED <<tree, par>> /\ lk' = unlockAll
          ELSE LET o == tree[od].e[on] IN
               IF o \in heldset                                  \* cannot become a descendant of itself
               THEN /\ Lin(C!Rename(r.op.p, r.op.q, FALSE), inpl) /\ UNCHANGED <<tree, par>> /\ lk' = unlockAll
               ELSE IF od = nd /\ on = nn                        \* onto itself: no-op (fix c6fc126)
               THEN /\ Lin(C!Rename(r.op.p, r.op.q, TRUE) /\ nodes' = tree, inpl) /\ UNCHANGED <<tree, par>> /\ lk' = unlockAll
               ELSE IF ~IsD(nd) \/ (nn \in Kids(nd) /\ IsD(tree[nd].e[nn]))
               THEN /\ Lin(C!Rename(r.op.p, r.op.q, FALSE), inpl) /\ UNCHANGED <<tree, par>> /\ lk' = unlockAll
               ELSE /\ lk[o] = 0                                 \* SetParent takes the moved inode's lock
                    /\ LET t2 == C!Link(C!Unlink(tree, od, on), nd, nn, o) IN
                       /\ tree' = t2
                       /\ par' = [par EXCEPT ![o] = nd]
                       /\ Lin(C!Rename(r.op.p, r.op.q, TRUE) /\ nodes' = t2, inpl)
                    /\ lk' = unlockAll
    /\ mtx' = 0
    /\ SetW(w, Idle)
    /\ UNCHANGED <<cnt, rem, hist>>

RECURSIVE SetSeq(_)
SetSeq(S) == IF S = {} THEN <<>> ELSE LET x == CHOOSE y \in S : \A z \in S : y <= z IN <<x>> \o SetSeq(S \ {x})

(* MarshalManifest: lock the root, then every child, top-down *)
MaLock(w) ==
    /\ wk[w].pc = "ma_lock" /\ wk[w].queue # <<>>
    /\ LET n == Head(wk[w].queue)
           kids == IF IsD(n) THEN {tree[n].e[x] : x \in Kids(n)} ELSE {} IN
       /\ lk[n] = 0
       /\ lk' = [lk EXCEPT ![n] = w]
       /\ SetW(w, [wk[w] EXCEPT !.queue = Tail(@) \o SetSeq(kids), !.held = Append(@, n)])
    /\ UNCHANGED <<cvars, tree, par, mtx, cnt, linbad, taint, lost, rem, hit, hist>>

MaDone(w) ==
    /\ wk[w].pc = "ma_lock" /\ wk[w].queue = <<>>
    /\ lk' = [j \in 1 .. Len(lk) |-> IF lk[j] = w THEN 0 ELSE lk[j]]
    /\ SetW(w, Idle)
    /\ UNCHANGED <<cvars, tree, par, mtx, cnt, linbad, taint, lost, rem, hit, hist>>

AllDone == \A w \in Workers : wk[w].pc = "idle" /\ cnt[w] = OpsPerWorker
Done == AllDone /\ UNCHANGED vars

Next ==
    \/ \E w \in Workers, op \in Menu : Start(w, op)
    \/ \E w \in Workers : Look(w) \/ StatDo(w) \/ Lock1(w) \/ RmLock(w) \/ RmDetach(w) \/ RmDo(w)
                          \/ RnMtx(w) \/ RnNeed(w) \/ RnLock(w) \/ RnDo(w) \/ MaLock(w) \/ MaDone(w)
    \/ Done

Spec == Init /\ [][Next]_vars

-----------------------------------------------------------------------------
Linearizable == ~linbad
TreeAgree == linbad \/ taint \/ tree = nodes
LocksOK == /\ Len(rem) = Len(tree)
           /\ \A i \in 1 .. Len(lk) : lk[i] \in {0} \cup Workers
           /\ Len(lk) = Len(tree) /\ Len(par) = Len(tree)
           /\ (AllDone => (mtx = 0 /\ \A i \in 1 .. Len(lk) : lk[i] = 0))
NoLost == ~lost          \* failed before fix 9333098 (KF-C13-1): see the header

(* Scenario emission: the behaviours in which the removed flag decided (the race of KF-C13-1) *)
Emit == (hit /\ AllDone) =>
          Serialize(<<[steps |-> hist]>>, IOEnv.VERIF_OUT,
                    [format |-> "NDJSON", charset |-> "UTF-8", openOptions |-> <<"WRITE", "CREATE", "APPEND">>])
=============================================================================
