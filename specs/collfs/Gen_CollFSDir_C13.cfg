SPECIFICATION Spec
CONSTANTS
  Workers = {1, 2}
  OpsPerWorker = 1
  MaxHist = 20
INVARIANTS Emit Linearizable NoLost TreeAgree LocksOK
CHECK_DEADLOCK TRUE
