SPECIFICATION Spec
CONSTANTS
  Workers = {1, 2}
  OpsPerWorker = 2
  MaxHist = 0
VIEW view
INVARIANTS Linearizable NoLost TreeAgree LocksOK
CHECK_DEADLOCK TRUE
