--------------------------- MODULE CollFSFlushDir ---------------------------
(***************************************************************************)
(* Implementation-shaped model of WHICH segments an explicit flush writes  *)
(* and how it packs them (sdk/go/arvados/fs_collection.go:                 *)
(* collectionFileSystem.Flush, dirnode.flush, commitBlock,                 *)
(* marshalManifest), over two directories:                                 *)
(*      .  : files a, b, directory d          d : files c, e               *)
(* It complements CollFSFlush.tla (one directory; the write loop, pointers, *)
(* copy-on-write, throttle, re-validation in full detail); here files only  *)
(* grow by appends and the focus is the directory structure of a flush.     *)
(*                                                                         *)
(* As the code has it:                                                     *)
(*   Flush(path, shortBlocks)                                              *)
(*     path = ""     the root and, recursively, every directory below      *)
(*     path # ""     (also "." !) only the FILES directly in that          *)
(*                   directory: subdirectories are dropped from the names  *)
(*     asynchronous: returns after the block writes were started           *)
(*   dirnode.flush walks the files of ONE directory in name order; a       *)
(*     memSegment longer than maxBlockSize/2 becomes a block of its own,   *)
(*     smaller ones are collected in `pending` and written as one block    *)
(*     when the next one would not fit; the last pending group is written  *)
(*     only if shortBlocks.  `pending` belongs to the call for one         *)
(*     directory: a subdirectory is flushed by a recursive call with its   *)
(*     own list, so a block never holds segments of two directories.       *)
(*   commitBlock (async) skips the whole block if one of its segments is   *)
(*     still being flushed; afterwards it replaces a segment only if it    *)
(*     still carries the block's token.                                    *)
(*   pruneMemSegments writes a segment that reached maxBlockSize in the    *)
(*     background (after a failure the segment keeps a non-nil, closed     *)
(*     channel and is never pruned again, only flushed).                   *)
(*   MarshalManifest / Sync: waitPrune, then per directory flush(files,    *)
(*     sync, shortBlocks = TRUE), subdirectories by recursive              *)
(*     marshalManifest; fails if any of its writes fails.                  *)
(*                                                                         *)
(* Checked:                                                                *)
(*   ContentOK    no flush, completion or failure changes any file's bytes *)
(*                (so everything stays readable)                           *)
(*   NoCrossDir   every block holds segments of one directory only         *)
(*   ScopeOK      Flush(dir) starts writes for files directly in dir only  *)
(*   Untouched    (action property) a flush step for scope s leaves the    *)
(*                segment lists of all files outside s exactly as they are *)
(*   PackOK       a block is at most maxBlockSize; a packed block consists *)
(*                of segments of at most maxBlockSize/2 each               *)
(*   ClaimOK      once the writes of an undisturbed Flush(s, short) have   *)
(*                succeeded: shortBlocks => every segment in s is stored;  *)
(*                ~shortBlocks => per directory the remaining memSegments  *)
(*                are each <= maxBlockSize/2 and together <= maxBlockSize  *)
(*   SavedOK      (assert) a successful MarshalManifest leaves no          *)
(*                memSegment anywhere; a failed one changed no content     *)
(***************************************************************************)
EXTENDS Integers, Sequences, FiniteSets, TLC, Json, IOUtils

CONSTANTS Bs,         \* block size limits to choose from
          MaxOps,     \* foreground operations
          AllowFail,  \* may Keep writes fail
          Eager,      \* TRUE (Gen): every started write completes before the next foreground call
          MaxHist

VARIABLES B, segs, content, puts, blocks, ntok, marsh, claim, lastact, nops, hist

vars == <<B, segs, content, puts, blocks, ntok, marsh, claim, lastact, nops, hist>>
view == <<B, segs, content, puts, blocks, ntok, marsh, claim, lastact, nops>>

Files == {"a", "b", "c", "e"}
DirOf(f) == IF f \in {"a", "b"} THEN "." ELSE "d"
FilesIn(dir) == IF dir = "." THEN <<"a", "b">> ELSE <<"c", "e">>       \* sorted by name
Scopes == {"all", "rootonly", "d"}
PathOf(scope) == CASE scope = "all" -> "" [] scope = "rootonly" -> "." [] OTHER -> "d"
DirsOf(scope) == CASE scope = "all" -> <<".", "d">> [] scope = "rootonly" -> <<".">> [] OTHER -> <<"d">>
InScope(f, scope) == \E i \in 1 .. Len(DirsOf(scope)) : DirsOf(scope)[i] = DirOf(f)
Min(x, y) == IF x < y THEN x ELSE y

SegLen(s) == Len(s.d)
RECURSIVE Cat(_, _)
Cat(ss, i) == IF i > Len(ss) THEN "" ELSE ss[i].d \o Cat(ss, i + 1)
Live(t) == \E p \in puts : p.tok = t
AllStored(f) == \A i \in 1 .. Len(segs[f]) : segs[f][i].k = "s"
Quiet == puts = {} /\ marsh.on = FALSE

Rec(r) == hist' = IF Len(hist) < MaxHist THEN Append(hist, r) ELSE hist

Init ==
    /\ B \in Bs
    /\ segs = [f \in Files |-> <<>>]
    /\ content = [f \in Files |-> ""]
    /\ puts = {} /\ blocks = 0 /\ ntok = 0
    /\ marsh = [on |-> FALSE, err |-> FALSE, toks |-> {}]
    /\ claim = [on |-> FALSE, scope |-> "all", short |-> TRUE, toks |-> {}]
    /\ lastact = [k |-> "init", scope |-> "all"]
    /\ nops = 0 /\ hist = <<>>

-----------------------------------------------------------------------------
(* Append at EOF (filenode.Write, the at-EOF branch): grow the last memSegment up to B (new array,  *)
(* flushing token dropped, if a flush shares it), then new memSegments of at most B bytes; segments *)
(* that reached B are handed to pruneMemSegments.                                                   *)
RECURSIVE Chop(_)
Chop(d) == IF d = "" THEN <<>>
           ELSE <<[k |-> "m", d |-> SubSeq(d, 1, Min(B, Len(d))), fl |-> 0]>> \o Chop(SubSeq(d, Min(B, Len(d)) + 1, Len(d)))

AppendSegs(ss, d) ==
    IF ss # <<>> /\ ss[Len(ss)].k = "m" /\ SegLen(ss[Len(ss)]) < B
    THEN LET g == Min(B - SegLen(ss[Len(ss)]), Len(d)) IN
         [ss EXCEPT ![Len(ss)] = [k |-> "m", d |-> @.d \o SubSeq(d, 1, g), fl |-> 0]] \o Chop(SubSeq(d, g + 1, Len(d)))
    ELSE ss \o Chop(d)

PruneIdx(ss) == {i \in 1 .. Len(ss) : ss[i].k = "m" /\ SegLen(ss[i]) >= B /\ ss[i].fl = 0}
RECURSIVE StartPrunes(_, _, _, _)
StartPrunes(f, ss, idxs, t) ==      \* <<segments, set of new puts>>
    IF idxs = {} THEN <<ss, {}>>
    ELSE LET i == CHOOSE j \in idxs : \A m \in idxs : j <= m
             r == StartPrunes(f, [ss EXCEPT ![i].fl = t + 1], idxs \ {i}, t + 1) IN
         <<r[1], r[2] \cup {[tok |-> t + 1, kind |-> "prune", dir |-> DirOf(f), scope |-> "prune",
                            refs |-> <<[f |-> f, idx |-> i]>>, data |-> ss[i].d, lens |-> <<Len(ss[i].d)>>]}>>

AppendOp(f, d) ==
    /\ ~marsh.on /\ nops < MaxOps /\ (Eager => puts = {})
    /\ LET ss1 == AppendSegs(segs[f], d)
           filled == Len(ss1) > 0 /\ \E i \in 1 .. Len(ss1) : i >= Len(segs[f]) /\ ss1[i].k = "m" /\ SegLen(ss1[i]) >= B
           r == IF filled THEN StartPrunes(f, ss1, PruneIdx(ss1), ntok) ELSE <<ss1, {}>> IN
       /\ segs' = [segs EXCEPT ![f] = r[1]]
       /\ puts' = puts \cup r[2]
       /\ ntok' = ntok + Cardinality(r[2])
    /\ content' = [content EXCEPT ![f] = @ \o d]
    /\ claim' = IF claim.on /\ InScope(f, claim.scope) THEN [claim EXCEPT !.on = FALSE] ELSE claim
    /\ lastact' = [k |-> "append", scope |-> "all"]
    /\ nops' = nops + 1
    /\ Rec([op |-> "append", f |-> f, d |-> d])
    /\ UNCHANGED <<B, blocks, marsh>>

-----------------------------------------------------------------------------
(* dirnode.flush for ONE directory: the blocks (lists of [f, idx]) it commits *)
MemRefs(dir) ==
    LET R(f) == LET I == {i \in 1 .. Len(segs[f]) : segs[f][i].k = "m"} IN
                [j \in 1 .. Cardinality(I) |-> [f |-> f, idx |-> CHOOSE i \in I : Cardinality({m \in I : m < i}) = j - 1]] IN
    R(FilesIn(dir)[1]) \o R(FilesIn(dir)[2])
RefSeg(r) == segs[r.f][r.idx]

RECURSIVE Part(_, _, _, _, _)
Part(rs, i, pend, plen, short) ==
    IF i > Len(rs) THEN (IF short /\ pend # <<>> THEN <<pend>> ELSE <<>>)
    ELSE LET l == SegLen(RefSeg(rs[i])) IN
         IF l > B \div 2 THEN <<<<rs[i]>>>> \o Part(rs, i + 1, pend, plen, short)
         ELSE IF plen + l > B THEN <<pend>> \o Part(rs, i + 1, <<rs[i]>>, l, short)
         ELSE Part(rs, i + 1, Append(pend, rs[i]), plen + l, short)

BlocksOf(scope, short) ==      \* sequence of [dir, refs]
    LET D(dir) == LET bl == Part(MemRefs(dir), 1, <<>>, 0, short) IN [j \in 1 .. Len(bl) |-> [dir |-> dir, refs |-> bl[j]]] IN
    IF Len(DirsOf(scope)) = 2 THEN D(".") \o D("d") ELSE D(DirsOf(scope)[1])

RECURSIVE CatRefs(_, _)
CatRefs(rs, i) == IF i > Len(rs) THEN "" ELSE RefSeg(rs[i]).d \o CatRefs(rs, i + 1)
Busy(rs) == \E i \in 1 .. Len(rs) : RefSeg(rs[i]).fl > 0 /\ Live(RefSeg(rs[i]).fl)

(* commitBlock for every block: token set on the segments, write started (async: skipped if busy) *)
RECURSIVE Commit(_, _, _, _, _, _)
Commit(bl, i, ss, t, sync, scope) ==     \* <<segs, new puts, skipped any>>
    IF i > Len(bl) THEN <<ss, {}, FALSE>>
    ELSE LET b == bl[i] IN
         IF ~sync /\ Busy(b.refs)
         THEN LET r == Commit(bl, i + 1, ss, t, sync, scope) IN <<r[1], r[2], TRUE>>
         ELSE LET ss2 == [f \in Files |-> [k \in 1 .. Len(ss[f]) |->
                             IF \E j \in 1 .. Len(b.refs) : b.refs[j].f = f /\ b.refs[j].idx = k
                             THEN [ss[f][k] EXCEPT !.fl = t + 1] ELSE ss[f][k]]]
                  r == Commit(bl, i + 1, ss2, t + 1, sync, scope) IN
              <<r[1], r[2] \cup {[tok |-> t + 1, kind |-> IF sync THEN "sync" ELSE "async", dir |-> b.dir, scope |-> scope,
                                 refs |-> b.refs, data |-> CatRefs(b.refs, 1),
                                 lens |-> [j \in 1 .. Len(b.refs) |-> SegLen(RefSeg(b.refs[j]))]]}, r[3]>>

FlushOp(scope, short) ==
    /\ ~marsh.on /\ nops < MaxOps /\ (Eager => puts = {})
    /\ LET r == Commit(BlocksOf(scope, short), 1, segs, ntok, FALSE, scope) IN
       /\ segs' = r[1]
       /\ puts' = puts \cup r[2]
       /\ ntok' = ntok + Cardinality(r[2])
       \* an undisturbed flush: nothing in its scope was skipped or is still being pruned
       /\ claim' = [on |-> ~r[3] /\ \A f \in Files : InScope(f, scope) =>
                                       \A k \in 1 .. Len(segs[f]) : segs[f][k].k = "m" => ~(segs[f][k].fl > 0 /\ Live(segs[f][k].fl)),
                    scope |-> scope, short |-> short, toks |-> {p.tok : p \in r[2]}]
    /\ lastact' = [k |-> "flush", scope |-> scope]
    /\ nops' = nops + 1
    /\ Rec([op |-> "flush", path |-> PathOf(scope), short |-> short])
    /\ UNCHANGED <<B, content, blocks, marsh>>

(* MarshalManifest / Sync *)
MarshalStart ==
    /\ ~marsh.on /\ nops < MaxOps /\ (Eager => puts = {})
    /\ \A f \in Files : \A k \in 1 .. Len(segs[f]) : segs[f][k].k = "m" => ~(segs[f][k].fl > 0 /\ Live(segs[f][k].fl))   \* waitPrune
    /\ LET r == Commit(BlocksOf("all", TRUE), 1, segs, ntok, TRUE, "all") IN
       /\ segs' = r[1]
       /\ puts' = puts \cup r[2]
       /\ ntok' = ntok + Cardinality(r[2])
       /\ marsh' = [on |-> TRUE, err |-> FALSE, toks |-> {p.tok : p \in r[2]}]
    /\ claim' = [claim EXCEPT !.on = FALSE]
    /\ lastact' = [k |-> "flush", scope |-> "all"]
    /\ nops' = nops + 1
    /\ Rec([op |-> "marshal"])
    /\ UNCHANGED <<B, content, blocks>>

MarshalEnd ==
    /\ marsh.on /\ \A p \in puts : p.tok \notin marsh.toks
    /\ Assert(marsh.err \/ \A f \in Files : AllStored(f), "SavedOK: a successful save left a memSegment behind")
    /\ marsh' = [on |-> FALSE, err |-> FALSE, toks |-> {}]
    /\ lastact' = [k |-> "marshalend", scope |-> "all"]
    /\ Rec([op |-> "marshalend", ok |-> ~marsh.err])
    /\ UNCHANGED <<B, segs, content, puts, blocks, ntok, claim, nops>>

(* a Keep write returns; the segment is replaced only if it still carries the token *)
PutDone(t, ok) ==
    /\ \E p \in puts :
         /\ p.tok = t /\ (ok \/ AllowFail)
         /\ puts' = puts \ {p}
         /\ blocks' = IF ok THEN blocks + 1 ELSE blocks
         /\ segs' = [f \in Files |-> [k \in 1 .. Len(segs[f]) |->
                       IF segs[f][k].k = "m" /\ segs[f][k].fl = t
                       THEN IF ok THEN [k |-> "s", d |-> segs[f][k].d, fl |-> 0, blk |-> blocks + 1, dir |-> p.dir]
                            ELSE [segs[f][k] EXCEPT !.fl = IF p.kind = "prune" THEN -1 ELSE 0]    \* prune: closed, non-nil channel
                       ELSE segs[f][k]]]
         /\ marsh' = IF ~ok /\ t \in marsh.toks THEN [marsh EXCEPT !.err = TRUE] ELSE marsh
         /\ claim' = IF ~ok /\ t \in claim.toks THEN [claim EXCEPT !.on = FALSE] ELSE claim
         /\ lastact' = [k |-> "put", scope |-> p.scope]
    /\ UNCHANGED <<B, content, ntok, nops, hist>>

AppendDatas == {"x", "yx", "xyy"}
Next ==
    \/ \E f \in Files, d \in AppendDatas : AppendOp(f, d)
    \/ \E s \in Scopes, sh \in BOOLEAN : FlushOp(s, sh)
    \/ MarshalStart \/ MarshalEnd
    \/ \E t \in 1 .. (ntok + 1), ok \in BOOLEAN : PutDone(t, ok)
    \/ (nops = MaxOps /\ Quiet /\ UNCHANGED vars)

Spec == Init /\ [][Next]_vars

-----------------------------------------------------------------------------
ContentOK == \A f \in Files : Cat(segs[f], 1) = content[f]
NoCrossDir == \A p \in puts : \A i \in 1 .. Len(p.refs) : DirOf(p.refs[i].f) = p.dir
ScopeOK == \A p \in puts : /\ p.scope = "d" => p.dir = "d"
                           /\ p.scope = "rootonly" => p.dir = "."
PackOK == \A p \in puts : /\ Len(p.data) <= B
                          /\ Len(p.refs) > 1 => \A i \in 1 .. Len(p.lens) : 2 * p.lens[i] <= B
StoredDirOK == \A f \in Files : \A k \in 1 .. Len(segs[f]) : segs[f][k].k = "s" => segs[f][k].dir = DirOf(f)

RECURSIVE SumMem(_, _)
SumMem(ss, i) == IF i > Len(ss) THEN 0 ELSE (IF ss[i].k = "m" THEN SegLen(ss[i]) ELSE 0) + SumMem(ss, i + 1)
ClaimOK ==
    (claim.on /\ \A p \in puts : p.tok \notin claim.toks) =>
       IF claim.short
       THEN \A f \in Files : InScope(f, claim.scope) => AllStored(f)
       ELSE \A i \in 1 .. Len(DirsOf(claim.scope)) :
              LET dir == DirsOf(claim.scope)[i]  fs == FilesIn(dir) IN
              /\ SumMem(segs[fs[1]], 1) + SumMem(segs[fs[2]], 1) <= B
              /\ \A j \in 1 .. 2 : \A k \in 1 .. Len(segs[fs[j]]) : segs[fs[j]][k].k = "m" => 2 * SegLen(segs[fs[j]][k]) <= B

(* a flush step for a directory scope does not touch files outside it *)
Untouched == [][ (nops' # nops /\ lastact'.k = "flush") =>
                   \A f \in Files : ~InScope(f, lastact'.scope) => segs'[f] = segs[f] ]_vars

-----------------------------------------------------------------------------
(* Gen: with Eager = TRUE and AllowFail = FALSE every behaviour is a deterministic scenario; the     *)
(* record carries, after every foreground call at quiescence, which files consist of stored segments *)
(* only - what the driver observes on the real filesystem.                                           *)
StoredNow == [f \in Files |-> AllStored(f)]
Observe ==
    /\ Quiet /\ hist # <<>> /\ hist[Len(hist)].op # "expect" /\ Len(hist) < MaxHist
    /\ hist' = Append(hist, [op |-> "expect", stored |-> StoredNow])
    /\ UNCHANGED <<B, segs, content, puts, blocks, ntok, marsh, claim, lastact, nops>>
NeedObserve == Quiet /\ hist # <<>> /\ hist[Len(hist)].op # "expect"
GenNext ==
    \/ Observe
    \/ /\ ~NeedObserve
       /\ \/ \E f \in Files, d \in AppendDatas : AppendOp(f, d)
          \/ \E s \in Scopes, sh \in BOOLEAN : FlushOp(s, sh)
          \/ MarshalStart
    \/ MarshalEnd
    \/ \E t \in 1 .. (ntok + 1) : PutDone(t, TRUE)
GenSpec == Init /\ [][GenNext]_vars
Emit == (nops = MaxOps /\ Quiet /\ ~NeedObserve) =>
          Serialize(<<[bs |-> B, fsteps |-> hist]>>, IOEnv.VERIF_OUT,
                    [format |-> "NDJSON", charset |-> "UTF-8", openOptions |-> <<"WRITE", "CREATE", "APPEND">>])
=============================================================================
