SPECIFICATION GenSpec
CONSTANTS
  Bs = {2, 4}
  MaxOps = 3
  AllowFail = FALSE
  Eager = TRUE
  MaxHist = 40
INVARIANTS Emit ContentOK NoCrossDir ScopeOK PackOK ClaimOK
CHECK_DEADLOCK FALSE
