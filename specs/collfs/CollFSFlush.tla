----------------------------- MODULE CollFSFlush -----------------------------
(***************************************************************************)
(* Implementation-shaped model of the data path of a collection filesystem  *)
(* (sdk/go/arvados/fs_collection.go), shared by C08, C09 and C13.           *)
(*                                                                         *)
(* A file (filenode) is a list of segments:                                *)
(*   memSegment    [k "m", sid (object identity), bid (identity of the     *)
(*                 backing array), d (bytes), fl (flushing token, 0 = nil)] *)
(*   storedSegment [k "s", blk (block written to Keep), o (offset), n]      *)
(* plus fileinfo.size, and per handle a filenodePtr [off, si, so, v] where  *)
(* v abstracts "ptr.repacked == fn.repacked" (exact: the two counters are   *)
(* only ever copied or incremented together).                               *)
(*                                                                         *)
(* One action per critical section / loop step of the code:                 *)
(*   SeekOp, ReadOp, TruncOp         filehandle.Seek / filenode.Read /      *)
(*                                   filenode.truncate (under the lock)     *)
(*   WriteStart, WriteIter, WriteEnd one iteration of the loop in           *)
(*                                   filenode.Write (three-way case split,  *)
(*                                   memSegment.WriteAt copy-on-write)      *)
(*   PruneStep                       pruneMemSegments: one `go PutB(buf)`   *)
(*                                   per full, not yet flushing segment;    *)
(*                                   blocks on the throttle under the lock  *)
(*   FlushStart, CommitStart,        dirnode.flush packing small segments   *)
(*   FlushEnd                        into blocks, commitBlock (sync for     *)
(*                                   MarshalManifest, async for Flush)      *)
(*   PutDone(tok, ok)                the Keep write returns (throttle       *)
(*                                   released BEFORE the file lock is       *)
(*                                   taken); sync commits replace segments  *)
(*                                   at once, the caller holds the locks    *)
(*   BgFinish(tok)                   background goroutine re-locks the file *)
(*                                   and replaces the segment only if       *)
(*                                   token, index, identity (and for prune  *)
(*                                   the length) still match                *)
(* Deliberate properties of the code that are modelled as they are:         *)
(*   - memSegment.Truncate shrinks IN PLACE and keeps the flushing token;   *)
(*   - a failed background write leaves the memSegment (and a closed,       *)
(*     non-nil flushing channel, so pruneMemSegments skips it later);       *)
(*   - async commitBlock skips the whole block if any segment is still      *)
(*     being flushed; sync commitBlock overrides the token;                 *)
(*   - async commitBlock does not compare lengths (the prefix is right);    *)
(*   - the insert branch of Write always bumps `repacked`.                  *)
(* Not modelled: two foreground operations inside their critical sections   *)
(* at the same time (they exclude each other per file; only the case        *)
(* "A waits for the throttle inside Write while B works on another file"    *)
(* is lost), Rename's lock order, directories.                              *)
(*                                                                         *)
(* Ghost state = the CollFS contract (nodes, handles) for a fixed tree      *)
(* (root with files a, b).  Checked: Refines (every step is a contract step *)
(* or a stutter), ContentOK (concatenation of segments = contract bytes     *)
(* whenever no Write is in progress: background steps never change what a   *)
(* reader sees), PtrOK, NoHazard (no in-place modification of an array      *)
(* shared with an in-flight Keep write), SavedOK (after a successful sync   *)
(* flush every segment is stored), ReadAssert inside ReadOp.                *)
(***************************************************************************)
EXTENDS Integers, Sequences, FiniteSets, TLC, Json, IOUtils

CONSTANTS MaxB,         \* block size limits 1..MaxB (chosen in Init)
          MinW, MaxW,   \* throttle sizes MinW..MaxW (concurrentWriters; the schedules handed to the driver use >= 2)
          NFiles,       \* 1 or 2 files
          SecondHandle, \* TRUE: a second (append) handle on file 1
          MaxSize,      \* bound on file sizes
          MaxOps,       \* bound on foreground operations
          MaxPuts,      \* bound on Keep writes
          AllowFail,    \* may Keep writes fail
          MaxHist

VARIABLES nodes, handles,                 \* CollFS contract (ghost)
          cfg, segs, size, ptr, fg, puts, blocks, thr, nops, nputs, hazard, saved, hist

C == INSTANCE CollFS
cvars == <<nodes, handles>>
ivars == <<cfg, segs, size, ptr, fg, puts, blocks, thr, nops, nputs, hazard, saved>>
vars  == <<cvars, ivars, hist>>
view  == <<cvars, ivars>>

Files == 1 .. NFiles
NH == IF SecondHandle THEN NFiles + 1 ELSE NFiles
Hs == 1 .. NH
FileOf(h) == IF h <= NFiles THEN h ELSE 1
Ino(f) == f + 1
FName(f) == IF f = 1 THEN "a" ELSE "b"
Min(a, b) == IF a < b THEN a ELSE b

SegLen(s) == IF s.k = "m" THEN Len(s.d) ELSE s.n
SegData(s) == IF s.k = "m" THEN s.d ELSE SubSeq(blocks[s.blk], s.o + 1, s.o + s.n)
RECURSIVE Cat(_, _)
Cat(ss, i) == IF i > Len(ss) THEN "" ELSE SegData(ss[i]) \o Cat(ss, i + 1)
Content(f) == Cat(segs[f], 1)
RECURSIVE Cum(_, _)
Cum(ss, i) == IF i = 0 THEN 0 ELSE SegLen(ss[i]) + Cum(ss, i - 1)

\* identities: smallest unused numbers (keeps the state space canonical)
MemSegs == UNION {{segs[f][i] : i \in {j \in 1 .. Len(segs[f]) : segs[f][j].k = "m"}} : f \in Files}
UsedIds == {s.sid : s \in MemSegs} \cup {s.bid : s \in MemSegs}
             \cup UNION {{p.refs[i].sid : i \in 1 .. Len(p.refs)} \cup p.bids : p \in puts}
RECURSIVE FreeFrom(_, _)
FreeFrom(c, k) == IF k = 0 THEN <<>> ELSE IF c \in UsedIds THEN FreeFrom(c + 1, k) ELSE <<c>> \o FreeFrom(c + 1, k - 1)
Fresh(k) == FreeFrom(1, k)                                  \* sequence of the k smallest unused ids
NthOf(S, n) == CHOOSE x \in S : Cardinality({y \in S : y < x}) = n - 1
UsedToks == {s.fl : s \in MemSegs} \cup {p.tok : p \in puts}
FreshTok == CHOOSE t \in 1 .. (Cardinality(UsedToks) + 1) : t \notin UsedToks

Live(t) == \E p \in puts : p.tok = t                       \* the goroutine has not finished (channel open)
Shared(b) == \E p \in puts : p.st = "fly" /\ b \in p.bids  \* array still being read by PutB

NewMem(d, id1, id2) == [k |-> "m", sid |-> id1, bid |-> id2, d |-> d, fl |-> 0]
SliceS(s, off, len) == [s EXCEPT !.o = @ + off, !.n = IF len < 0 THEN @ - off ELSE Min(@ - off, len)]
Ins(ss, i, x) == SubSeq(ss, 1, i) \o <<x>> \o SubSeq(ss, i + 1, Len(ss))      \* x becomes Go index i
Del(ss, i) == SubSeq(ss, 1, i) \o SubSeq(ss, i + 2, Len(ss))                   \* drop Go index i
Set(ss, i, x) == [ss EXCEPT ![i + 1] = x]

\* filenode.seek
Locate(ss, pos) ==
    LET i == CHOOSE j \in 0 .. Len(ss) : Cum(ss, j) >= pos /\ \A m \in 0 .. (j - 1) : Cum(ss, m) < pos IN
    IF Cum(ss, i) = pos THEN <<i, 0>> ELSE <<i - 1, pos - Cum(ss, i - 1)>>
SeekPtr(f, p) ==
    IF p.off >= size[f] THEN [off |-> p.off, si |-> Len(segs[f]), so |-> 0, v |-> TRUE]
    ELSE IF p.v THEN (IF p.so >= SegLen(segs[f][p.si + 1]) THEN [p EXCEPT !.si = @ + 1, !.so = 0] ELSE p)
    ELSE LET lc == Locate(segs[f], p.off) IN [off |-> p.off, si |-> lc[1], so |-> lc[2], v |-> TRUE]

Invalidate(f, keep) == [h \in Hs |-> IF FileOf(h) = f /\ h # keep THEN [ptr[h] EXCEPT !.v = FALSE] ELSE ptr[h]]

Idle == fg.pc = "idle"
Rec(r) == hist' = IF Len(hist) < MaxHist THEN Append(hist, r) ELSE hist
Budget == TRUE                      \* bounds are imposed by CONSTRAINT Bound, so that CHECK_DEADLOCK sees real deadlocks only
Bound == nops <= MaxOps /\ nputs <= MaxPuts
Tick == nops' = nops + 1

-----------------------------------------------------------------------------
Init ==
    /\ \E b \in 1 .. MaxB, w \in MinW .. MaxW : cfg = [B |-> b, W |-> w]
    /\ nodes = <<[k |-> "d", e |-> [n \in {FName(f) : f \in Files} |-> IF n = "a" THEN 2 ELSE 3]]>>
                 \o [f \in Files |-> [k |-> "f", d |-> ""]]
    /\ handles = [h \in Hs |-> [ino |-> Ino(FileOf(h)), off |-> 0, rd |-> TRUE, wr |-> TRUE, ap |-> h > NFiles]]
    /\ segs = [f \in Files |-> <<>>]
    /\ size = [f \in Files |-> 0]
    /\ ptr = [h \in Hs |-> [off |-> 0, si |-> 0, so |-> 0, v |-> TRUE]]
    /\ fg = [pc |-> "idle"]
    /\ puts = {} /\ blocks = <<>> /\ thr = 0 /\ nops = 0 /\ nputs = 0
    /\ hazard = FALSE /\ saved = "none" /\ hist = <<>>

-----------------------------------------------------------------------------
(* filehandle.Seek: only the offset moves, the pointer is marked stale *)
SeekOp(h, off) ==
    /\ Idle /\ Budget /\ off # ptr[h].off
    /\ ptr' = [ptr EXCEPT ![h] = [@ EXCEPT !.off = off, !.v = FALSE]]
    /\ C!Seek(h, off, 0, off, TRUE)
    /\ Tick /\ Rec([op |-> "seek", h |-> h, off |-> off])
    /\ UNCHANGED <<cfg, segs, size, fg, puts, blocks, thr, nputs, hazard, saved>>

(* filenode.Read: data of a single segment *)
ReadOp(h, len) ==
    /\ Idle /\ Budget
    /\ LET f == FileOf(h)
           p == SeekPtr(f, ptr[h]) IN
       IF p.si >= Len(segs[f])
       THEN /\ Assert(handles[h].off = p.off /\ p.off >= Len(nodes[Ino(f)].d), "ReadAssert: EOF reported before the end")
            /\ C!Read(h, len, "", "eof")
            /\ ptr' = [ptr EXCEPT ![h] = p]
       ELSE LET s == segs[f][p.si + 1]
                n == Min(len, SegLen(s) - p.so)
                d == SubSeq(SegData(s), p.so + 1, p.so + n)
                atend == p.so + n = SegLen(s)
                np == IF atend THEN [p EXCEPT !.off = @ + n, !.si = @ + 1, !.so = 0] ELSE [p EXCEPT !.off = @ + n, !.so = @ + n]
                res == IF n < len /\ np.si >= Len(segs[f]) THEN "eof" ELSE "nil" IN
            /\ Assert(handles[h].off = p.off /\ n > 0
                      /\ d = SubSeq(nodes[Ino(f)].d, p.off + 1, p.off + n), "ReadAssert: wrong bytes")
            /\ C!Read(h, len, d, res)
            /\ ptr' = [ptr EXCEPT ![h] = np]
    /\ Tick /\ Rec([op |-> "read", h |-> h, n |-> len])
    /\ UNCHANGED <<cfg, segs, size, fg, puts, blocks, thr, nputs, hazard, saved>>

(* memSegment.Truncate(n) growing: new array when a flush shares the old one *)
GrowMem(s, n, id) ==
    IF s.fl # 0 THEN [s EXCEPT !.d = C!Pad(@, n), !.bid = id, !.fl = 0]
    ELSE [s EXCEPT !.d = C!Pad(@, n)]
GrowHazard(s) == s.fl = 0 /\ Shared(s.bid)

(* filenode.truncate *)
RECURSIVE GrowSegs(_, _, _, _)
GrowSegs(ss, want, ids, hz) ==     \* returns <<segments, hazard>>
    LET B == cfg.B
        cur == Cum(ss, Len(ss)) IN
    IF cur >= want THEN <<ss, hz>>
    ELSE IF Len(ss) > 0 /\ ss[Len(ss)].k = "m" /\ SegLen(ss[Len(ss)]) < B
         THEN LET s == ss[Len(ss)]
                  g == Min(want - cur, B - SegLen(s)) IN
              GrowSegs([ss EXCEPT ![Len(ss)] = GrowMem(s, SegLen(s) + g, ids[1])], want,
                       Tail(ids), hz \/ GrowHazard(s))
         ELSE LET g == Min(want - cur, B) IN
              GrowSegs(Append(ss, NewMem(C!Z(g), ids[1], ids[2])), want, Tail(Tail(ids)), hz)

TruncOp(h, n) ==
    /\ Idle /\ Budget /\ n <= MaxSize
    /\ LET f == FileOf(h)
           ss == segs[f] IN
       IF n = size[f] THEN UNCHANGED <<segs, size, ptr, hazard>>
       ELSE IF n < size[f]
       THEN LET lc == Locate(ss, n)
                si == lc[1]  so == lc[2] IN
            /\ segs' = [segs EXCEPT ![f] =
                   IF so = 0 THEN SubSeq(ss, 1, si)
                   ELSE LET s == ss[si + 1] IN
                        Append(SubSeq(ss, 1, si),
                               IF s.k = "m" THEN [s EXCEPT !.d = SubSeq(@, 1, so)]     \* in place, token kept
                               ELSE SliceS(s, 0, so))]
            /\ size' = [size EXCEPT ![f] = n]
            /\ ptr' = Invalidate(f, 0)
            /\ UNCHANGED hazard
       ELSE LET r == GrowSegs(ss, n, Fresh(2 * (n - size[f]) + 2), FALSE) IN
            /\ segs' = [segs EXCEPT ![f] = r[1]]
            /\ size' = [size EXCEPT ![f] = n]
            /\ ptr' = Invalidate(f, 0)
            /\ hazard' = (hazard \/ r[2])
    /\ C!Truncate(h, n, TRUE)
    /\ Tick /\ Rec([op |-> "trunc", h |-> h, n |-> n])
    /\ UNCHANGED <<cfg, fg, puts, blocks, thr, nputs, saved>>

-----------------------------------------------------------------------------
(* filehandle.Write / filenode.Write *)
WriteStart(h, d) ==
    /\ Idle /\ Budget
    /\ LET f == FileOf(h)
           p0 == IF handles[h].ap THEN [off |-> size[f], si |-> Len(segs[f]), so |-> 0, v |-> TRUE] ELSE ptr[h] IN
       /\ p0.off + Len(d) <= MaxSize
       /\ IF p0.off > size[f]
          THEN LET r == GrowSegs(segs[f], p0.off, Fresh(2 * (p0.off - size[f]) + 2), FALSE) IN
               /\ segs' = [segs EXCEPT ![f] = r[1]]
               /\ size' = [size EXCEPT ![f] = p0.off]
               /\ ptr' = [Invalidate(f, 0) EXCEPT ![h] = [p0 EXCEPT !.v = FALSE]]
               /\ hazard' = (hazard \/ r[2])
          ELSE /\ ptr' = [ptr EXCEPT ![h] = p0]
               /\ UNCHANGED <<segs, size, hazard>>
       /\ fg' = [pc |-> "wseek", h |-> h, f |-> f, d |-> d, rest |-> d, n |-> 0]
    /\ Tick /\ Rec([op |-> "write", h |-> h, d |-> d])
    /\ UNCHANGED <<cvars, cfg, puts, blocks, thr, nputs, saved>>

WriteSeek ==
    /\ fg.pc = "wseek"
    /\ ptr' = [ptr EXCEPT ![fg.h] = SeekPtr(fg.f, ptr[fg.h])]
    /\ fg' = [fg EXCEPT !.pc = "write"]
    /\ UNCHANGED <<cvars, cfg, segs, size, puts, blocks, thr, nops, nputs, hazard, saved, hist>>

\* memSegment.WriteAt with copy-on-write
WriteAtMem(s, so, data, id) ==
    LET nd == SubSeq(s.d, 1, so) \o data \o SubSeq(s.d, so + Len(data) + 1, Len(s.d)) IN
    IF s.fl # 0 THEN [s EXCEPT !.d = nd, !.bid = id, !.fl = 0] ELSE [s EXCEPT !.d = nd]

WriteIter ==
    /\ fg.pc = "write" /\ fg.rest # ""
    /\ LET f == fg.f  h == fg.h  B == cfg.B
           ss == segs[f]  p == ptr[h]
           ids == Fresh(3)
           cando0 == SubSeq(fg.rest, 1, Min(Len(fg.rest), B))
           cur == p.si  prev == p.si - 1
           curW == cur < Len(ss) /\ ss[cur + 1].k = "m"
           prevA == prev >= 0 /\ ss[prev + 1].k = "m" /\ SegLen(ss[prev + 1]) < B
           \* r = [ss, p, cando, grow (bytes added to size), rp (repacked bumped), hz]
           r == IF p.so > 0 /\ ~curW
                THEN \* split a stored segment
                     LET mx == SegLen(ss[cur + 1]) - p.so
                         cando == IF mx <= Len(cando0) THEN SubSeq(cando0, 1, mx) ELSE cando0
                         left == SliceS(ss[cur + 1], 0, p.so)
                         newm == NewMem(C!Z(Len(cando)), ids[1], ids[2]) IN
                     [ss |-> IF mx <= Len(cando0)
                             THEN SubSeq(ss, 1, cur) \o <<left, newm>> \o SubSeq(ss, cur + 2, Len(ss))
                             ELSE SubSeq(ss, 1, cur) \o <<left, newm, SliceS(ss[cur + 1], p.so + Len(cando), -1)>>
                                    \o SubSeq(ss, cur + 2, Len(ss)),
                      p |-> [p EXCEPT !.si = @ + 1, !.so = 0], cando |-> cando, grow |-> 0, rp |-> TRUE, hz |-> FALSE]
                ELSE IF curW
                THEN LET fit == SegLen(ss[cur + 1]) - p.so IN
                     [ss |-> ss, p |-> p, cando |-> SubSeq(cando0, 1, Min(fit, Len(cando0))), grow |-> 0,
                      rp |-> FALSE, hz |-> FALSE]
                ELSE LET c1 == IF prevA /\ B - SegLen(ss[prev + 1]) < Len(cando0)
                               THEN SubSeq(cando0, 1, B - SegLen(ss[prev + 1])) ELSE cando0
                         atEOF == cur = Len(ss)
                         eat == ~atEOF /\ SegLen(ss[cur + 1]) <= Len(c1)
                         cando == IF eat THEN SubSeq(c1, 1, SegLen(ss[cur + 1])) ELSE c1
                         ss1 == IF atEOF THEN ss
                                ELSE IF eat THEN Del(ss, cur)
                                ELSE Set(ss, cur, SliceS(ss[cur + 1], Len(cando), -1)) IN
                     IF prevA
                     THEN LET so2 == SegLen(ss[prev + 1]) IN
                          [ss |-> Set(ss1, prev, GrowMem(ss1[prev + 1], so2 + Len(cando), ids[1])),
                           p |-> [p EXCEPT !.si = prev, !.so = so2], cando |-> cando,
                           grow |-> IF atEOF THEN Len(cando) ELSE 0, rp |-> TRUE, hz |-> GrowHazard(ss1[prev + 1])]
                     ELSE [ss |-> Ins(ss1, cur, NewMem(C!Z(Len(cando)), ids[1], ids[2])),
                           p |-> p, cando |-> cando, grow |-> IF atEOF THEN Len(cando) ELSE 0, rp |-> TRUE, hz |-> FALSE]
           tgt == r.ss[r.p.si + 1]
           ss3 == Set(r.ss, r.p.si, WriteAtMem(tgt, r.p.so, r.cando, ids[3]))
           np == [r.p EXCEPT !.off = @ + Len(r.cando), !.so = @ + Len(r.cando)]
           hz == r.hz \/ (tgt.fl = 0 /\ Shared(tgt.bid)) IN
       /\ segs' = [segs EXCEPT ![f] = ss3]
       /\ size' = [size EXCEPT ![f] = @ + r.grow]
       /\ ptr' = [(IF r.rp THEN Invalidate(f, h) ELSE ptr) EXCEPT ![h] = np]
       /\ hazard' = (hazard \/ hz)
       /\ fg' = [fg EXCEPT !.rest = SubSeq(@, Len(r.cando) + 1, Len(@)), !.n = @ + Len(r.cando),
                           !.pc = IF np.so >= B THEN "prune" ELSE "wpost"]
    /\ UNCHANGED <<cvars, cfg, puts, blocks, thr, nops, nputs, saved, hist>>

(* pruneMemSegments: next full, not flushing memSegment; Acquire() blocks while the throttle is full *)
PruneCand(f) == {i \in 1 .. Len(segs[f]) : segs[f][i].k = "m" /\ SegLen(segs[f][i]) >= cfg.B /\ segs[f][i].fl = 0}
PruneStep ==
    /\ fg.pc = "prune"
    /\ IF PruneCand(fg.f) = {} THEN /\ fg' = [fg EXCEPT !.pc = "wpost"]
                                    /\ UNCHANGED <<segs, puts, thr, nputs>>
       ELSE LET i == CHOOSE j \in PruneCand(fg.f) : \A m \in PruneCand(fg.f) : j <= m
                s == segs[fg.f][i]
                t == FreshTok IN
            /\ thr < cfg.W
            /\ segs' = [segs EXCEPT ![fg.f][i].fl = t]
            /\ puts' = puts \cup {[tok |-> t, kind |-> "prune", st |-> "fly", data |-> s.d, bids |-> {s.bid},
                                   refs |-> <<[f |-> fg.f, idx |-> i - 1, sid |-> s.sid, o |-> 0, len |-> Len(s.d)]>>,
                                   blk |-> 0, next |-> 1]}
            /\ thr' = thr + 1 /\ nputs' = nputs + 1
            /\ UNCHANGED fg
    /\ UNCHANGED <<cvars, cfg, size, ptr, blocks, nops, hazard, saved, hist>>

WritePost ==
    /\ fg.pc = "wpost"
    /\ LET p == ptr[fg.h] IN
       ptr' = [ptr EXCEPT ![fg.h] = IF SegLen(segs[fg.f][p.si + 1]) = p.so THEN [p EXCEPT !.si = @ + 1, !.so = 0] ELSE p]
    /\ fg' = [fg EXCEPT !.pc = "write"]
    /\ UNCHANGED <<cvars, cfg, segs, size, puts, blocks, thr, nops, nputs, hazard, saved, hist>>

WriteEnd ==
    /\ fg.pc = "write" /\ fg.rest = ""
    /\ C!Write(fg.h, fg.d, fg.n, TRUE)
    /\ fg' = [pc |-> "idle"]
    /\ UNCHANGED <<cfg, segs, size, ptr, puts, blocks, thr, nops, nputs, hazard, saved, hist>>

-----------------------------------------------------------------------------
(* dirnode.flush: pack the memSegments of all files into blocks *)
AllRefs == LET R(f) == [j \in 1 .. Cardinality({i \in 1 .. Len(segs[f]) : segs[f][i].k = "m"}) |->
                          [f |-> f, idx |-> NthOf({i \in 1 .. Len(segs[f]) : segs[f][i].k = "m"}, j) - 1]] IN
           IF NFiles = 1 THEN R(1) ELSE R(1) \o R(2)
RefSeg(r) == segs[r.f][r.idx + 1]

RECURSIVE Part(_, _, _, _, _)
Part(rs, i, pend, plen, short) ==
    IF i > Len(rs) THEN (IF short /\ pend # <<>> THEN <<pend>> ELSE <<>>)
    ELSE LET l == SegLen(RefSeg(rs[i])) IN
         IF l > cfg.B \div 2 THEN <<<<rs[i]>>>> \o Part(rs, i + 1, pend, plen, short)
         ELSE IF plen + l > cfg.B THEN <<pend>> \o Part(rs, i + 1, <<rs[i]>>, l, short)
         ELSE Part(rs, i + 1, Append(pend, rs[i]), plen + l, short)

(* fs.Flush("", short) is asynchronous; MarshalManifest flushes synchronously after waitPrune *)
FlushStart(sync, short) ==
    /\ Idle /\ Budget
    /\ sync => (short /\ \A s \in MemSegs : s.fl # 0 => ~Live(s.fl))       \* waitPrune
    /\ fg' = [pc |-> "flush", sync |-> sync, todo |-> Part(AllRefs, 1, <<>>, 0, short), mine |-> {}, err |-> FALSE]
    /\ saved' = "none"
    /\ Tick /\ Rec([op |-> IF sync THEN "marshal" ELSE "flush", short |-> short])
    /\ UNCHANGED <<cvars, cfg, segs, size, ptr, puts, blocks, thr, nputs, hazard>>

RECURSIVE Offsets(_, _, _)
Offsets(rs, i, acc) == IF i > Len(rs) THEN <<>> ELSE <<acc>> \o Offsets(rs, i + 1, acc + SegLen(RefSeg(rs[i])))
RECURSIVE CatRefs(_, _)
CatRefs(rs, i) == IF i > Len(rs) THEN "" ELSE RefSeg(rs[i]).d \o CatRefs(rs, i + 1)

(* commitBlock up to `go PutB(block)` *)
CommitStartX(syncSkip) ==
    /\ fg.pc = "flush" /\ fg.todo # <<>>
    /\ \E ti \in 1 .. Len(fg.todo) :        \* the commitBlock goroutines of one flush run concurrently: any order
       LET rs == fg.todo[ti]
           rest == SubSeq(fg.todo, 1, ti - 1) \o SubSeq(fg.todo, ti + 1, Len(fg.todo))
           busy == \E i \in 1 .. Len(rs) : RefSeg(rs[i]).fl # 0 /\ Live(RefSeg(rs[i]).fl)
           t == FreshTok
           offs == Offsets(rs, 1, 0) IN
       \/ \* async: another flush of one of the segments is unfinished -> skip the block;
          \* sync after an error: the context is cancelled, the block may be skipped
          /\ (~fg.sync /\ busy) \/ (fg.sync /\ fg.err /\ syncSkip)
          /\ fg' = [fg EXCEPT !.todo = rest]
          /\ UNCHANGED <<segs, puts, thr, nputs>>
       \/ /\ fg.sync \/ ~busy
          /\ thr < cfg.W
          /\ segs' = [f \in Files |-> [i \in 1 .. Len(segs[f]) |->
                        IF \E j \in 1 .. Len(rs) : rs[j].f = f /\ rs[j].idx = i - 1
                        THEN [segs[f][i] EXCEPT !.fl = t] ELSE segs[f][i]]]
          /\ puts' = puts \cup {[tok |-> t, kind |-> IF fg.sync THEN "sync" ELSE "async", st |-> "fly",
                                 data |-> CatRefs(rs, 1),
                                 bids |-> IF Len(rs) = 1 THEN {RefSeg(rs[1]).bid} ELSE {},
                                 refs |-> [j \in 1 .. Len(rs) |-> [f |-> rs[j].f, idx |-> rs[j].idx, sid |-> RefSeg(rs[j]).sid,
                                                                 o |-> offs[j], len |-> SegLen(RefSeg(rs[j]))]],
                                 blk |-> 0, next |-> 1]}
          /\ thr' = thr + 1 /\ nputs' = nputs + 1
          /\ fg' = [fg EXCEPT !.todo = rest, !.mine = @ \cup {t}]
    /\ UNCHANGED <<cvars, cfg, size, ptr, blocks, nops, hazard, saved, hist>>

CommitStart == CommitStartX(TRUE)

FlushEnd ==
    /\ fg.pc = "flush" /\ fg.todo = <<>>
    /\ fg.sync => \A p \in puts : p.tok \notin fg.mine
    /\ Assert((fg.sync /\ ~fg.err) => \A f \in Files : \A i \in 1 .. Len(segs[f]) : segs[f][i].k = "s",
              "SavedOK: a successful synchronous flush left a memSegment behind")
    /\ saved' = IF ~fg.sync THEN "none" ELSE IF fg.err THEN "err" ELSE "ok"
    /\ fg' = [pc |-> "idle"]
    /\ Rec([op |-> "flushend", ok |-> ~fg.err])
    /\ UNCHANGED <<cvars, cfg, segs, size, ptr, puts, blocks, thr, nops, nputs, hazard>>

-----------------------------------------------------------------------------
(* The Keep write returns.  throttle.Release() happens before any lock is taken. *)
PutDone(t, ok) ==
    /\ \E p \in puts :
         /\ p.tok = t /\ p.st = "fly"
         /\ ok \/ AllowFail
         /\ thr' = thr - 1
         /\ blocks' = IF ok THEN Append(blocks, p.data) ELSE blocks
         /\ IF p.kind = "sync"
            THEN \* the caller of the flush holds every lock: replace at once, no re-validation
                 /\ puts' = puts \ {p}
                 /\ IF ok
                    THEN /\ segs' = [f \in Files |-> [i \in 1 .. Len(segs[f]) |->
                                  IF \E j \in 1 .. Len(p.refs) : p.refs[j].f = f /\ p.refs[j].idx = i - 1
                                  THEN LET j == CHOOSE j \in 1 .. Len(p.refs) : p.refs[j].f = f /\ p.refs[j].idx = i - 1 IN
                                       [k |-> "s", blk |-> Len(blocks) + 1, o |-> p.refs[j].o, n |-> SegLen(segs[f][i])]
                                  ELSE segs[f][i]]]
                         /\ UNCHANGED fg
                    ELSE /\ fg' = [fg EXCEPT !.err = TRUE]
                         /\ UNCHANGED segs
            ELSE /\ puts' = (puts \ {p}) \cup {[p EXCEPT !.st = IF ok THEN "ok" ELSE "fail", !.blk = Len(blocks) + 1]}
                 /\ UNCHANGED <<segs, fg>>
    /\ Rec([op |-> "put", data |-> (CHOOSE p \in puts : p.tok = t).data, ok |-> ok,
            kind |-> (CHOOSE p \in puts : p.tok = t).kind])
    /\ UNCHANGED <<cvars, cfg, size, ptr, nops, nputs, hazard, saved>>

(* The background goroutine takes the file lock (not available while a foreground operation is *)
(* inside its critical section on that file; a flush holds every lock) and re-validates.        *)
LockFree(f) == fg.pc = "idle" \/ (fg.pc \in {"wseek", "write", "prune", "wpost"} /\ fg.f # f)

BgFinish(t) ==
    /\ \E p \in puts :
         /\ p.tok = t /\ p.st \in {"ok", "fail"}
         /\ LET r == p.refs[p.next]
                ss == segs[r.f]
                last == p.next = Len(p.refs) \/ p.st = "fail" \/ p.kind = "prune"
                same == /\ r.idx < Len(ss) /\ ss[r.idx + 1].k = "m"
                        /\ ss[r.idx + 1].sid = r.sid /\ ss[r.idx + 1].fl = t
                objTok == \A f \in Files : \A i \in 1 .. Len(segs[f]) :
                             (segs[f][i].k = "m" /\ segs[f][i].sid = r.sid) => segs[f][i].fl = t
                replace == IF p.kind = "prune"
                           THEN p.st = "ok" /\ objTok /\ same /\ Len(ss[r.idx + 1].d) = r.len
                           ELSE p.st = "ok" /\ same IN
            /\ (p.st = "fail" /\ p.kind = "async") \/ LockFree(r.f)       \* a failed async commit takes no lock
            /\ segs' = IF replace
                       THEN [segs EXCEPT ![r.f][r.idx + 1] =
                               [k |-> "s", blk |-> p.blk, o |-> r.o,
                                n |-> IF p.kind = "prune" THEN r.len           \* prune: len(buf) as captured at the start
                                      ELSE Len(ss[r.idx + 1].d)]]              \* async commit: len of the current buffer
                       ELSE segs
            /\ puts' = IF last THEN puts \ {p} ELSE (puts \ {p}) \cup {[p EXCEPT !.next = @ + 1]}
    /\ UNCHANGED <<cvars, cfg, size, ptr, fg, blocks, thr, nops, nputs, hazard, saved, hist>>

-----------------------------------------------------------------------------
WriteDatas == {"x", "yx"}

Next ==
    \/ \E h \in Hs, off \in 0 .. MaxSize : SeekOp(h, off)
    \/ \E h \in Hs, len \in 1 .. 2 : ReadOp(h, len)
    \/ \E h \in Hs, n \in 0 .. MaxSize : TruncOp(h, n)
    \/ \E h \in Hs, d \in WriteDatas : WriteStart(h, d)
    \/ WriteSeek \/ WriteIter \/ PruneStep \/ WritePost \/ WriteEnd
    \/ \E sync \in BOOLEAN, short \in BOOLEAN : FlushStart(sync, short)
    \/ CommitStart \/ FlushEnd
    \/ \E t \in 1 .. (MaxPuts + 2), ok \in BOOLEAN : PutDone(t, ok)
    \/ \E t \in 1 .. (MaxPuts + 2) : BgFinish(t)

Spec == Init /\ [][Next]_vars
FairSpec == Spec /\ WF_vars(Next)

-----------------------------------------------------------------------------
(* Design-level checks *)
Refines == [][ \/ UNCHANGED cvars
               \/ \E h \in Hs, off \in 0 .. MaxSize : C!Seek(h, off, 0, off, TRUE)
               \/ \E h \in Hs, len \in 1 .. 2, res \in {"nil", "eof"} :
                     \E n \in 0 .. len : /\ handles[h].off + n <= Len(nodes[handles[h].ino].d)
                                        /\ C!Read(h, len, SubSeq(nodes[handles[h].ino].d, handles[h].off + 1, handles[h].off + n), res)
               \/ \E h \in Hs, n \in 0 .. MaxSize : C!Truncate(h, n, TRUE)
               \/ \E h \in Hs, d \in WriteDatas : C!Write(h, d, Len(d), TRUE) ]_vars

Quiet == fg.pc \in {"idle", "flush"}
ContentOK == Quiet => \A f \in Files : /\ Content(f) = nodes[Ino(f)].d
                                       /\ size[f] = Len(nodes[Ino(f)].d)
SizeOK == \A f \in Files : size[f] = Cum(segs[f], Len(segs[f])) \/ fg.pc \in {"write", "prune", "wpost"}
PtrOK == Idle => \A h \in Hs :
            /\ ptr[h].off = handles[h].off
            /\ (ptr[h].v /\ ptr[h].off < size[FileOf(h)]) =>
                  /\ ptr[h].si <= Len(segs[FileOf(h)])
                  /\ Cum(segs[FileOf(h)], ptr[h].si) + ptr[h].so = ptr[h].off
NoEmptySeg == Idle => \A f \in Files : \A i \in 1 .. Len(segs[f]) : SegLen(segs[f][i]) > 0
BlockLimit == \A s \in MemSegs : Len(s.d) <= cfg.B
NoHazard == ~hazard
SharedFlushing == \A p \in puts : p.st = "fly" =>
                     \A s \in MemSegs : s.bid \in p.bids => s.fl # 0        \* copy-on-write will happen
ThrottleOK == thr = Cardinality({p \in puts : p.st = "fly"}) /\ thr <= cfg.W
TypeOK == /\ fg.pc \in {"idle", "wseek", "write", "prune", "wpost", "flush"}
          /\ thr \in 0 .. MaxW

\* Deadlock freedom is checked by TLC itself (CHECK_DEADLOCK TRUE): budgets are a CONSTRAINT, and
\* the only states without a successor would be operations stuck on the throttle or a lock.
-----------------------------------------------------------------------------
(* Scenario emission (C13 schedules): foreground calls interleaved with completions of Keep     *)
(* writes (identified by their data) - emitted when the foreground budget is used up and         *)
(* everything has drained.                                                                       *)
Drained == Idle /\ puts = {}
\* a reduced alphabet of foreground calls: what matters for a schedule is which call falls between
\* the start and the completion of which Keep write
\* Only REPLAYABLE schedules are emitted: a driver without hooks in the code controls nothing but
\* when a gated Keep write returns.  So (a) a foreground call runs on while it can (Keep writes
\* return only while the foreground is idle or blocked on the throttle / on its own writes),
\* (b) once a write has returned, its goroutine re-locks the file as soon as the lock is free,
\* before the next foreground call or completion, (c) the commitBlock goroutines of a flush have
\* passed their cancellation check before any of their writes returns.  (The exhaustive MC
\* configurations keep all the other interleavings.)
NoFinishPending == \A p \in puts : p.st = "fly"
FinishPossible == \E p \in puts : /\ p.st \in {"ok", "fail"}
                                   /\ ((p.st = "fail" /\ p.kind = "async") \/ LockFree(p.refs[p.next].f))
CommitPossible ==
    fg.pc = "flush" /\ \E ti \in 1 .. Len(fg.todo) :
        LET rs == fg.todo[ti]
            busy == \E i \in 1 .. Len(rs) : RefSeg(rs[i]).fl # 0 /\ Live(RefSeg(rs[i]).fl) IN
        (~fg.sync /\ busy) \/ ((fg.sync \/ ~busy) /\ thr < cfg.W)
FgCanStep ==
    \/ fg.pc \in {"wseek", "write", "wpost"}
    \/ fg.pc = "prune" /\ (PruneCand(fg.f) = {} \/ thr < cfg.W)
    \/ CommitPossible
    \/ fg.pc = "flush" /\ fg.todo = <<>> /\ (fg.sync => \A p \in puts : p.tok \notin fg.mine)
GenNext ==
    \/ /\ NoFinishPending
       /\ \/ \E h \in Hs : SeekOp(h, 0)
          \/ \E h \in Hs, n \in {0, 1, 2} : TruncOp(h, n)      \* (2: also a pure GROW of a segment being flushed)
          \/ \E h \in Hs, d \in WriteDatas : WriteStart(h, d)
          \/ \E sync \in BOOLEAN : FlushStart(sync, TRUE)
    \/ WriteSeek \/ WriteIter \/ PruneStep \/ WritePost \/ WriteEnd
    \/ CommitStartX(FALSE) \/ FlushEnd
    \/ /\ ~FgCanStep /\ ~FinishPossible
       /\ \E t \in 1 .. (MaxPuts + 2), ok \in BOOLEAN : PutDone(t, ok)
    \/ \E t \in 1 .. (MaxPuts + 2) : BgFinish(t)
GenSpec == Init /\ [][GenNext]_vars
HasPut == \E i \in 1 .. Len(hist) : hist[i].op = "put"
Emit == (Drained /\ nops = MaxOps /\ HasPut) =>
          Serialize(<<[bs |-> cfg.B, w |-> cfg.W, steps |-> hist]>>, IOEnv.VERIF_OUT,
                    [format |-> "NDJSON", charset |-> "UTF-8", openOptions |-> <<"WRITE", "CREATE", "APPEND">>])
=============================================================================
