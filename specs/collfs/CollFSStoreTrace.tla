-------------------------- MODULE CollFSStoreTrace --------------------------
(***************************************************************************)
(* Judge for C09: CollFSTrace's events plus                                 *)
(*  {"ev":"putb","k":k,"ok":b,"insave":b,"n":bytes}                         *)
(*  {"ev":"savecall","kind":"marshal|sync|flushmarshal"}                    *)
(*  {"ev":"save","kind":..,"ok":b,"m":{"gok":b,"streams":[{"name":[..],     *)
(*        "blocks":[{"d":..,"sz":n,"known":b,"orig":b,"put":b,"md5":b}],    *)
(*        "files":[{"pos":p,"len":l,"name":[..]}]}]}}                       *)
(*  {"ev":"reload","ok":b,"ents":[..],"total":n}                            *)
(***************************************************************************)
EXTENDS CollFSStore, TraceIO

TraceInit == l = 1 /\ FSInit /\ StoreInit

Flags(e) == [acc |-> e.acc, cr |-> e.cr, ex |-> e.ex, tr |-> e.tr, ap |-> e.ap]

TraceReset == /\ IsEvent("reset")
              /\ nodes' = Ev.nodes
              /\ handles' = <<>>
              /\ insave' = FALSE /\ nfail' = 0

FS(a) == a /\ UNCHANGED svars

TraceNext ==
    \/ TraceReset
    \/ IsEvent("open")      /\ FS(Open(Ev.h, Ev.p, Flags(Ev), Ev.ok))
    \/ IsEvent("close")     /\ FS(Close(Ev.h))
    \/ IsEvent("write")     /\ FS(Write(Ev.h, Ev.d, Ev.n, Ev.ok))
    \/ IsEvent("read")      /\ FS(Read(Ev.h, Ev.n, Ev.d, Ev.res))
    \/ IsEvent("seek")      /\ FS(Seek(Ev.h, Ev.off, Ev.wh, Ev.pos, Ev.ok))
    \/ IsEvent("trunc")     /\ FS(Truncate(Ev.h, Ev.n, Ev.ok))
    \/ IsEvent("size")      /\ FS(Size(Ev.h, Ev.n))
    \/ IsEvent("mkdir")     /\ FS(Mkdir(Ev.p, Ev.ok))
    \/ IsEvent("rename")    /\ FS(Rename(Ev.p, Ev.q, Ev.ok))
    \/ IsEvent("remove")    /\ FS(Remove(Ev.p, Ev.ok))
    \/ IsEvent("removeall") /\ FS(RemoveAll(Ev.p, Ev.ok))
    \/ IsEvent("stat")      /\ FS(Stat(Ev.p, Ev.ok, Ev.dir, Ev.n))
    \/ IsEvent("readdir")   /\ FS(Readdir(Ev.p, Ev.ok, Ev.ents))
    \/ IsEvent("flush")     /\ FS(Flush)
    \/ IsEvent("snap")      /\ FS(Snap(Ev.ents, Ev.total))
    \/ IsEvent("putb")      /\ PutB(Ev.ok)
    \/ IsEvent("savecall")  /\ SaveCall
    \/ IsEvent("save")      /\ Save(Ev.ok, Ev.m)
    \/ IsEvent("reload")    /\ Reload(Ev.ok, Ev.ents, Ev.total)

TraceSpec == TraceInit /\ [][TraceNext]_<<allvars, l>>
=============================================================================
