---------------------------- MODULE CollFSTrace ----------------------------
(***************************************************************************)
(* Judge for C08: validates ndjson traces recorded from a real collection  *)
(* filesystem (harness/C08_arvados/collfs_driver_test.go) against CollFS.  *)
(* Events (paths are arrays of names, [] = root; contents are strings):    *)
(*  {"ev":"reset","scn":id,"nodes":[{"k":"d","e":{"a":2}},{"k":"f","d":"xy"}],...} *)
(*  {"ev":"open","h":1,"p":[..],"acc":"r|w|rw","cr":b,"ex":b,"tr":b,"ap":b,"ok":b} *)
(*  {"ev":"close","h":1}                                                   *)
(*  {"ev":"write","h":1,"d":"xy","n":2,"ok":b}                             *)
(*  {"ev":"read","h":1,"n":len,"d":"xy","res":"nil|eof|err"}               *)
(*  {"ev":"seek","h":1,"off":o,"wh":0|1|2,"pos":p,"ok":b}                  *)
(*  {"ev":"trunc","h":1,"n":size,"ok":b}                                   *)
(*  {"ev":"size","h":1,"n":size}                                           *)
(*  {"ev":"mkdir"|"remove"|"removeall","p":[..],"ok":b}                    *)
(*  {"ev":"rename","p":[..],"q":[..],"ok":b}                               *)
(*  {"ev":"stat","p":[..],"ok":b,"dir":b,"n":size}                         *)
(*  {"ev":"readdir","p":[..],"ok":b,"ents":[[name,isdir,size],..]}         *)
(*  {"ev":"flush","kind":..,"ok":b}                                        *)
(*  {"ev":"snap","ents":[[path,"f"|"d",content],..],"total":n}             *)
(* Anything else ("panic", "hang") is not an action of the contract.       *)
(***************************************************************************)
EXTENDS CollFS, TraceIO

TraceInit == l = 1 /\ FSInit

Flags(e) == [acc |-> e.acc, cr |-> e.cr, ex |-> e.ex, tr |-> e.tr, ap |-> e.ap]

TraceReset == /\ IsEvent("reset")
              /\ nodes' = Ev.nodes
              /\ handles' = <<>>

TraceNext ==
    \/ TraceReset
    \/ IsEvent("open")      /\ Open(Ev.h, Ev.p, Flags(Ev), Ev.ok)
    \/ IsEvent("close")     /\ Close(Ev.h)
    \/ IsEvent("write")     /\ Write(Ev.h, Ev.d, Ev.n, Ev.ok)
    \/ IsEvent("read")      /\ Read(Ev.h, Ev.n, Ev.d, Ev.res)
    \/ IsEvent("seek")      /\ Seek(Ev.h, Ev.off, Ev.wh, Ev.pos, Ev.ok)
    \/ IsEvent("trunc")     /\ Truncate(Ev.h, Ev.n, Ev.ok)
    \/ IsEvent("size")      /\ Size(Ev.h, Ev.n)
    \/ IsEvent("mkdir")     /\ Mkdir(Ev.p, Ev.ok)
    \/ IsEvent("rename")    /\ Rename(Ev.p, Ev.q, Ev.ok)
    \/ IsEvent("remove")    /\ Remove(Ev.p, Ev.ok)
    \/ IsEvent("removeall") /\ RemoveAll(Ev.p, Ev.ok)
    \/ IsEvent("stat")      /\ Stat(Ev.p, Ev.ok, Ev.dir, Ev.n)
    \/ IsEvent("readdir")   /\ Readdir(Ev.p, Ev.ok, Ev.ents)
    \/ IsEvent("flush")     /\ Flush
    \/ IsEvent("snap")      /\ Snap(Ev.ents, Ev.total)

TraceSpec == TraceInit /\ [][TraceNext]_<<fsvars, l>>
=============================================================================
