\* C10 design-level check over the name pool: 1..2 streams, every file name x stream name
SPECIFICATION Spec
CONSTANTS
  MaxStreams = 2
  MaxBlocks = 1
  BlockIds <- Ids1
  MaxToks = 1
  FileNames <- NamesAll
  StreamNames <- StreamsAll
  PlainNames <- PlainAll
  WholeOnly = TRUE
INVARIANTS GeneratorValid GoFsRefines GoFsReadRefines GoManRefines PyRefines PyReadRefines UnescapersAgree EscapersRoundTrip GoFsEscapeClean OldSearchWasWrong OldEscapeWasWrong OldLoaderWasWrong DoubleBackslashReadings StreamNameChecks RangeChecksExact OldRangeChecksWrong
CHECK_DEADLOCK FALSE
