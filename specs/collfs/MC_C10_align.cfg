\* C10 design-level check, alignment-exhaustive: 1 stream x 1..3 blocks (sizes 0..2) x 1..2 tokens at every (pos,len)
SPECIFICATION Spec
CONSTANTS
  MaxStreams = 1
  MaxBlocks = 3
  BlockIds <- Ids012
  MaxToks = 2
  FileNames <- NamesAlign
  StreamNames <- StreamsOne
  PlainNames <- PlainAll
  WholeOnly = FALSE
INVARIANTS GeneratorValid GoFsRefines GoFsReadRefines GoManRefines PyRefines PyReadRefines UnescapersAgree EscapersRoundTrip GoFsEscapeClean OldSearchWasWrong OldEscapeWasWrong OldLoaderWasWrong DoubleBackslashReadings StreamNameChecks RangeChecksExact OldRangeChecksWrong
CHECK_DEADLOCK FALSE
