--------------------------- MODULE OutputCopyTrace ---------------------------
(***************************************************************************)
(* Judge for C17: validates traces recorded by harness/C17_crunchrun from  *)
(* the real copier.Copy against OutputCopy!CopyOK.  Events:                *)
(*  {"ev":"reset","scn":id,"nodes":[{path,k,c,abs,tg}..],"mroot":[name..],       *)
(*        "mpath":[name..],"mount":[stream..],"sec":[name..]}              *)
(*  {"ev":"copy","kind":"ok"|"error"|"panic"|"unparseable",                *)
(*        "out":[stream..],"nb":[{"id":i,"segs":[[cid,off,len]..]}..]}     *)
(* As in ManifestTrace the judge does not stop at a rejected execution: it *)
(* prints <<"REJECTED_LINE", l>> and goes on (checks/C17.py classifies);   *)
(* an accepted execution failing the drift-only clause CopyDriftOK is      *)
(* printed as <<"DRIFT_LINE", l>>.                                         *)
(***************************************************************************)
EXTENDS OutputCopy, TraceIO

VARIABLE skipping
tvars == <<sc, l, skipping>>

EmptyTree == [p \in {} |-> None]
TraceInit == /\ l = 1
             /\ skipping = FALSE
             /\ sc = [tree |-> EmptyTree, mroot |-> <<>>, mpath |-> <<>>, mount |-> <<>>, sec |-> <<>>, done |-> TRUE]

NodeFrom(nodes, p) == LET n == CHOOSE x \in Range(nodes) : x.path = p IN Mk(n.k, n.c, n.abs, n.tg)
TraceReset == /\ IsEvent("reset")
              /\ sc' = [tree |-> [p \in {x.path : x \in Range(Ev.nodes)} |-> NodeFrom(Ev.nodes, p)],
                        mroot |-> Ev.mroot, mpath |-> Ev.mpath, mount |-> Ev.mount, sec |-> Ev.sec, done |-> TRUE]
              /\ skipping' = FALSE

TraceCopy == /\ l <= Len(Trace)
             /\ Trace[l].ev = "copy"
             /\ l' = l + 1
             /\ UNCHANGED sc
             /\ IF skipping \/ CopyOK(Trace[l].kind, Trace[l].out, Trace[l].nb)
                THEN /\ UNCHANGED skipping
                     /\ IF skipping \/ CopyDriftOK(Trace[l].kind) THEN TRUE ELSE PrintT(<<"DRIFT_LINE", l>>)
                ELSE PrintT(<<"REJECTED_LINE", l>>) /\ skipping' = TRUE

TraceNext == TraceReset \/ TraceCopy
TraceSpec == TraceInit /\ [][TraceNext]_tvars
=============================================================================
