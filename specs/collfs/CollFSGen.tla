----------------------------- MODULE CollFSGen -----------------------------
(***************************************************************************)
(* GEN for C08: TLC explores the CollFS contract ITSELF over a tiny world   *)
(* (names a, b and a directory name d, paths of depth <= 2, bytes x / y,    *)
(* file sizes <= MaxSize, handle slots 1..MaxH) and emits call sequences.   *)
(* Only the CALLS are emitted (hist); the results are whatever the real     *)
(* code returns and are judged by CollFSTrace.  Where the contract allows   *)
(* several outcomes every one of them is explored, so the emitted prefixes  *)
(* cover both continuations (duplicates are removed by checks/C08.py).      *)
(*                                                                         *)
(* MC_CollFS_C08.cfg explores the same world exhaustively (VIEW without     *)
(* hist) and checks the contract's own well-formedness invariant TreeOK     *)
(* and SizeOK, i.e. that the model of "an ordinary filesystem" is itself    *)
(* consistent (no hard links, no dangling entries, handles valid).          *)
(***************************************************************************)
EXTENDS CollFS, Json, IOUtils

CONSTANTS MaxOps,     \* bound on the length of an emitted call sequence
          AllFlags,   \* TRUE: every distinguishable flag combination; FALSE: a representative subset
          MaxSize,    \* bound on file sizes
          MaxH,       \* handle slots
          MaxIno      \* bound on the inode table (creations)

VARIABLES hist

gvars == <<nodes, handles, hist>>
view  == <<nodes, handles>>

Names == {"a", "b", "d"}
Paths == {<<n>> : n \in Names} \cup {<<m, n>> : m \in {"a", "d"}, n \in Names}
Slots == 1 .. MaxH
Datas == {"x", "yx", "xyy"}
FlagSet == {[acc |-> a, cr |-> c, ex |-> e, tr |-> t, ap |-> p] :
              a \in {"r", "w", "rw"}, c \in BOOLEAN, e \in BOOLEAN, t \in BOOLEAN, p \in BOOLEAN}
\* flag combinations worth distinguishing (O_EXCL only with O_CREATE, O_TRUNC/O_APPEND one at a time)
FlagsFull == {f \in FlagSet : (f.ex => f.cr) /\ ~(f.tr /\ f.ap) /\ (f.ex => ~f.tr /\ ~f.ap)}
FlagsSmall == {f \in FlagsFull : \/ (f.acc = "rw" /\ ~f.ap)
                                 \/ (f.acc = "r" /\ ~f.cr /\ ~f.tr /\ ~f.ap)
                                 \/ (f.acc = "w" /\ f.ap /\ ~f.cr)}
Flags == IF AllFlags THEN FlagsFull ELSE FlagsSmall

Rec(r) == hist' = Append(hist, r)

SizeOK == \A i \in 1 .. Len(nodes) : nodes[i].k = "f" => Len(nodes[i].d) <= MaxSize

Init == FSInit /\ hist = <<>>

\* Only calls that can change the contract state are enumerated (a call that fails or merely
\* observes leads to the same state and would be discarded by the VIEW anyway; such calls are
\* appended by checks/C08.py).
GOpen == \E p \in Paths :
           /\ Resolve(p) # 0 \/ IsDir(ParentOf(p))
           /\ \E h \in Slots, f \in Flags :
                /\ Last(p) # "d" \/ ~f.cr              \* files are never called d
                /\ Open(h, p, f, TRUE)
                /\ Rec([op |-> "open", h |-> h, p |-> p, acc |-> f.acc, cr |-> f.cr, ex |-> f.ex, tr |-> f.tr, ap |-> f.ap])
GClose == \E h \in DOMAIN handles : Close(h) /\ Rec([op |-> "close", h |-> h])
GWrite == \E h \in DOMAIN handles, d \in Datas :
           /\ IsFile(handles[h].ino) /\ handles[h].wr
           /\ Write(h, d, Len(d), TRUE)
           /\ Rec([op |-> "write", h |-> h, d |-> d])
GRead == \E h \in DOMAIN handles, len \in 1 .. 2 :
           /\ LET hd == handles[h] IN
              /\ IsFile(hd.ino) /\ hd.rd /\ Len(nodes[hd.ino].d) > hd.off
              /\ LET data == nodes[hd.ino].d
                     n == IF Len(data) - hd.off < len THEN Len(data) - hd.off ELSE len IN
                 Read(h, len, SubSeq(data, hd.off + 1, hd.off + n), "nil")
           /\ Rec([op |-> "read", h |-> h, n |-> len])
GSeek == \E h \in DOMAIN handles, wh \in 0 .. 2, off \in -1 .. MaxSize :
           /\ IsFile(handles[h].ino)
           /\ LET base == CASE wh = 0 -> 0 [] wh = 1 -> handles[h].off [] OTHER -> Len(nodes[handles[h].ino].d) IN
              /\ base + off >= 0 /\ base + off <= MaxSize /\ base + off # handles[h].off
              /\ Seek(h, off, wh, base + off, TRUE)
           /\ Rec([op |-> "seek", h |-> h, off |-> off, wh |-> wh])
GTrunc == \E h \in DOMAIN handles, n \in 0 .. MaxSize :
           /\ IsFile(handles[h].ino)
           /\ Truncate(h, n, TRUE)
           /\ Rec([op |-> "trunc", h |-> h, n |-> n])
GMkdir == \E p \in Paths :
           /\ Last(p) = "d"                          \* directories are only ever created as d
           /\ Mkdir(p, TRUE) /\ Rec([op |-> "mkdir", p |-> p])
GRename == \E p \in Paths :
           /\ Resolve(p) # 0
           /\ \E q \in Paths : Rename(p, q, TRUE) /\ Rec([op |-> "rename", p |-> p, q |-> q])
GRemove == \E p \in Paths :
           /\ Resolve(p) # 0
           /\ Remove(p, TRUE) /\ Rec([op |-> "remove", p |-> p])
GRemoveAll == \E p \in Paths :
           /\ Resolve(p) # 0 /\ IsDir(Resolve(p))
           /\ RemoveAll(p, TRUE) /\ Rec([op |-> "removeall", p |-> p])

GenNext == /\ Len(hist) < MaxOps
           /\ Len(nodes) <= MaxIno
           /\ (GOpen \/ GClose \/ GWrite \/ GRead \/ GSeek \/ GTrunc \/ GMkdir \/ GRename \/ GRemove \/ GRemoveAll)
           /\ SizeOK'

GenSpec == Init /\ [][GenNext]_gvars

(* One call sequence per distinct contract state (VIEW view): the first (shortest, BFS) call     *)
(* sequence that reaches it.  checks/C08.py appends a few seeded calls from the same alphabet   *)
(* to each, so that failing and observing calls are exercised in every reachable state class.   *)
Emit == Serialize(<<[ops |-> hist]>>, IOEnv.VERIF_OUT,
                  [format |-> "NDJSON", charset |-> "UTF-8", openOptions |-> <<"WRITE", "CREATE", "APPEND">>])

=============================================================================
