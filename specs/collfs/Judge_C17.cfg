SPECIFICATION TraceSpec
CONSTANTS
  TargetIds = {1}
  MountModes = {"none"}
  SecretModes = {"none"}
CONSTRAINT Mark
POSTCONDITION Accepted
CHECK_DEADLOCK FALSE
