SPECIFICATION TraceSpec
CONSTANTS
  TargetIds = {1}
  MountCfgIds = {1}
  SecretIds = {1}
CONSTRAINT Mark
POSTCONDITION Accepted
CHECK_DEADLOCK FALSE
