---------------------------- MODULE ManifestTrace ----------------------------
(***************************************************************************)
(* Judge for C10: validates ndjson traces recorded from the three codecs   *)
(* (harness/C10_manifest, harness/C10_arvados, harness/C10_python) against *)
(* ManifestContract.  Events:                                              *)
(*  {"ev":"reset","scn":id,"codec":c,"streams":[...],"mut":"none"|kind}    *)
(*  {"ev":"load","kind":"ok"|"error"|"panic"|"hang","paths":[[byte..]..],  *)
(*        "reads":[{"kind":k,"n":bytes}..]}                                *)
(*  {"ev":"file","path":[..],"kind":k,                                     *)
(*        "obs":[{"via":..,"start":s,"n":n|-1,"segs":[[id,off,len]..]}..]} *)
(*  {"ev":"out","src":[..],"rel":[..],"slash":b,"kind":k,"out":[stream..]} *)
(*  {"ev":"pdh","got":str,"want":str,"dkind":k,"blocks":[id..]}            *)
(* Extra fields (detail, via, op, annotations of the check) are ignored.   *)
(***************************************************************************)
EXTENDS ManifestContract, TraceIO

(* Thousands of executions are judged in one run and some are expected to  *)
(* be rejected (known findings), so the judge does not stop at the first   *)
(* event the contract does not allow: it prints <<"REJECTED_LINE", l>>,    *)
(* skips the rest of that execution and goes on with the next reset.       *)
(* checks/C10.py classifies every printed line (known finding / VIOLATION).*)
(* An allowed event that fails a DRIFT-ONLY clause of the contract is       *)
(* printed as <<"DRIFT_LINE", l>> and the execution goes on.                *)
VARIABLE skipping
tvars == <<cvars, l, skipping>>

TraceInit == /\ l = 1
             /\ skipping = FALSE
             /\ CInit(<<>>, "none", "none")

TraceReset == /\ IsEvent("reset")
              /\ m' = Ev.streams
              /\ codec' = Ev.codec
              /\ mut' = Ev.mut
              /\ loaded' = "no"
              /\ skipping' = FALSE

Allowed(e) ==
    CASE e.ev = "load" -> LoadOK(e.kind, e.paths, e.reads)
      [] e.ev = "file" -> FileOK(e.path, e.kind, e.obs)
      [] e.ev = "out"  -> OutOK(e.src, e.rel, e.slash, e.kind, e.out)
      [] e.ev = "pdh"  -> PdhOK(e.got, e.want)

\* clauses that go beyond the statement: failing one of them is printed as <<"DRIFT_LINE", l>> and changes nothing
DriftOK(e) ==
    CASE e.ev = "out" -> OutHintsOK(e.out) /\ OutConventionOK(e.src, e.rel, e.slash, e.out)
      [] e.ev = "file" -> FileSegsOK(e.path, e.obs)
      [] e.ev = "pdh" -> DigestsOK(e.dkind, e.blocks)
      [] OTHER -> TRUE

Known == {"load", "file", "out", "pdh"}

TraceStep == /\ l <= Len(Trace)
             /\ Trace[l].ev \in Known
             /\ ~skipping
             /\ l' = l + 1
             /\ IF Allowed(Trace[l])
                THEN /\ skipping' = FALSE
                     /\ IF DriftOK(Trace[l]) THEN TRUE ELSE PrintT(<<"DRIFT_LINE", l>>)
                     /\ IF Trace[l].ev = "load" THEN Load(Trace[l].kind, Trace[l].paths, Trace[l].reads) ELSE UNCHANGED cvars
                ELSE /\ PrintT(<<"REJECTED_LINE", l>>)
                     /\ skipping' = TRUE
                     /\ UNCHANGED cvars

TraceSkip == /\ l <= Len(Trace)
             /\ Trace[l].ev \in Known
             /\ skipping
             /\ l' = l + 1
             /\ UNCHANGED <<cvars, skipping>>

TraceNext == TraceReset \/ TraceStep \/ TraceSkip

TraceSpec == TraceInit /\ [][TraceNext]_tvars
=============================================================================
