----------------------------- MODULE CollFSConc -----------------------------
(***************************************************************************)
(* C13 - contract for CONCURRENT use of a collection filesystem.           *)
(*                                                                         *)
(* Observables: for every API call of every worker goroutine a `call`      *)
(* event and a `ret` event, globally ordered by one mutex-protected        *)
(* append (the call event is recorded before the call starts, the ret      *)
(* event after it returned; the results are attached to the call record    *)
(* after the fact, as a prophecy that keeps the search finite).  Between   *)
(* its call and its ret every operation takes effect atomically at some    *)
(* point (internal step Lin) according to the sequential CollFS contract.  *)
(* Keep writes (putb) and a proven deadlock (deadlock / hang) are events    *)
(* too; the latter are not actions of the contract.                        *)
(*                                                                         *)
(* Clauses of the statement (properties.jsonl C13):                        *)
(*  "no operation deadlocks"             no action for event "deadlock"    *)
(*  "every file's final content is the result of applying the operations   *)
(*   issued on that file in their per-handle order"                        *)
(*                                       a worker's calls do not overlap,  *)
(*                                       so Lin respects per-handle order; *)
(*                                       the Snap at quiescence must equal *)
(*                                       the model state                   *)
(*  "every manifest saved during or after the activity loads cleanly with  *)
(*   each file holding a content that file actually passed through"        *)
(*                                       Ret of a marshal: grammar, blocks *)
(*                                       (as C09), the directory structure *)
(*                                       at its Lin point, and per file a  *)
(*                                       content the file had at some time *)
(*                                       between the call and the return   *)
(*                                       (not necessarily the same instant *)
(*                                       for all files)                    *)
(*  "slow, reordered or failing background block writes never change what  *)
(*   readers see and never resurrect overwritten data"                     *)
(*                                       Read results are judged by Lin of *)
(*                                       CollFS!Read; a saved content that *)
(*                                       was overwritten before the save   *)
(*                                       began is not in the interval      *)
(*  a failed save                        only if a Keep write failed since *)
(*                                       a save last returned successfully *)
(*  The directory STRUCTURE of a saved manifest must be the tree at one    *)
(*  point between call and return ("never loses": an entry missing from    *)
(*  every such point is lost); contents need not be from one instant.      *)
(*  race-detector reports                not in the statement: reported as *)
(*                                       DRIFT by checks/C13.py, no event  *)
(***************************************************************************)
EXTENDS CollFSStore, TraceIO

VARIABLES pend,     \* [call id -> [i (line of the call record, which carries the results), lin, from, snap, f0]]
          chist,    \* per inode: sequence of all contents it has had
          fails,    \* number of failed Keep writes so far
          okfails   \* value of `fails` when a save last returned successfully (0 at the start)

cvars2 == <<pend, chist, fails, okfails>>
concvars == <<fsvars, svars, cvars2>>

ConcInit == pend = <<>> /\ chist = << <<>> >> /\ fails = 0 /\ okfails = 0

Flags(e) == [acc |-> e.acc, cr |-> e.cr, ex |-> e.ex, tr |-> e.tr, ap |-> e.ap]

Apply(e) ==
    CASE e.op = "open"      -> Open(e.h, e.p, Flags(e), e.ok)
      [] e.op = "close"     -> Close(e.h)
      [] e.op = "write"     -> Write(e.h, e.d, e.n, e.ok)
      [] e.op = "read"      -> Read(e.h, e.n, e.d, e.res)
      [] e.op = "seek"      -> Seek(e.h, e.off, e.wh, e.pos, e.ok)
      [] e.op = "trunc"     -> Truncate(e.h, e.n, e.ok)
      [] e.op = "size"      -> Size(e.h, e.n)
      [] e.op = "mkdir"     -> Mkdir(e.p, e.ok)
      [] e.op = "rename"    -> Rename(e.p, e.q, e.ok)
      [] e.op = "remove"    -> Remove(e.p, e.ok)
      [] e.op = "removeall" -> RemoveAll(e.p, e.ok)
      [] e.op = "stat"      -> Stat(e.p, e.ok, e.dir, e.n)
      [] e.op = "readdir"   -> ReaddirNames(e.p, e.ok, e.ents)   \* sizes of the entries are not one snapshot
      [] e.op = "flush"     -> Flush
      [] OTHER              -> FALSE

RECURSIVE ListingI(_, _)
ListingI(i, prefix) ==
    UNION { LET c == nodes[i].e[n]  p == Append(prefix, n) IN
            IF IsDir(c) THEN {<<p, "d", c>>} \cup ListingI(c, p) ELSE {<<p, "f", c>>}
            : n \in DOMAIN nodes[i].e }

NextHist == [i \in 1 .. Len(nodes') |->
               IF i > Len(nodes) THEN (IF nodes'[i].k = "f" THEN <<nodes'[i].d>> ELSE <<>>)
               ELSE IF nodes'[i].k = "f" /\ nodes'[i].d # nodes[i].d THEN Append(chist[i], nodes'[i].d)
               ELSE chist[i]]

E(id) == Trace[pend[id].i]          \* the call record of a pending call (kept out of the state)

-----------------------------------------------------------------------------
(* Search reduction (sound and complete).  Linearisation points can always be  *)
(* moved as late as possible: operations need to take effect only in a burst   *)
(* immediately before some operation y returns, and only those that must       *)
(* precede y: the operations connected to y by a chain of DEPENDENT pending    *)
(* operations (two operations are independent if their Lin steps commute: same *)
(* results, same state in either order).  Dep over-approximates dependence:    *)
(*   handle calls (write/read/seek/trunc/size/close) on the same inode;        *)
(*   a content-changing call (write, trunc, open with O_TRUNC) and stat (it    *)
(*   reports the size; readdir is compared by names and kinds only here);      *)
(*   a structural call (mkdir, rename, remove, removeall, open with O_CREATE   *)
(*   or O_TRUNC) and a marshal (whose Lin records the directory structure), or *)
(*   any structural or path-observing call one of whose paths is a prefix of   *)
(*   (or equal to) one of the other's (no links: an entry has one path);       *)
(*   open with O_TRUNC and any handle call.                                    *)
(* The content check at the return of a marshal depends on the Lin of pending  *)
(* content-changing calls, so those seed the burst before a marshal returns.   *)
IsA(e) == e.op \in {"write", "read", "seek", "trunc", "size", "close"}
OpenT(e) == e.op = "open" /\ e.tr
Changing(e) == e.op \in {"write", "trunc"} \/ OpenT(e)
IsC(e) == e.op \in {"mkdir", "rename", "remove", "removeall"} \/ (e.op = "open" /\ (e.cr \/ e.tr))
IsD(e) == e.op \in {"stat", "readdir"} \/ (e.op = "open" /\ ~e.cr /\ ~e.tr)
IsM(e) == e.op = "marshal"
PathsOf(e) == IF e.op = "rename" THEN {e.p, e.q} ELSE {e.p}
Comparable(p, q) == LET n == IF Len(p) < Len(q) THEN Len(p) ELSE Len(q) IN SubSeq(p, 1, n) = SubSeq(q, 1, n)
PathsMeet(a, b) == \E p \in PathsOf(a), q \in PathsOf(b) : Comparable(p, q)
InoA(e) == IF e.h \in DOMAIN handles THEN handles[e.h].ino ELSE 0
Dep1(a, b) ==
    \/ IsA(a) /\ IsA(b) /\ (InoA(a) = InoA(b) \/ InoA(a) = 0 \/ InoA(b) = 0)
    \/ Changing(a) /\ b.op = "stat"
    \/ IsC(a) /\ IsM(b)
    \/ IsC(a) /\ (IsC(b) \/ IsD(b)) /\ PathsMeet(a, b)
    \/ OpenT(a) /\ IsA(b)
Dep(a, b) == Dep1(a, b) \/ Dep1(b, a)

Unlin == {x \in DOMAIN pend : ~pend[x].lin}
RECURSIVE Closure(_)
Closure(S) == LET N == {x \in Unlin \ S : \E z \in S : Dep(E(x), E(z))} IN
              IF N = {} THEN S ELSE Closure(S \cup N)
Burst(y) == IF y \notin DOMAIN pend THEN {}
            ELSE Closure((IF pend[y].lin THEN {} ELSE {y})
                         \cup (IF IsM(E(y)) THEN {x \in Unlin : Changing(E(x))} ELSE {}))


(* Only what the statement asks for is judged exactly.  The result of an OBSERVING call (stat,     *)
(* size, readdir) and the ERROR result of a directory-level call (open, mkdir, rename, remove) are  *)
(* judged exactly only if no conflicting call (Dep, below) was in progress at any time during the   *)
(* call; otherwise any result is accepted (`ovl`): the statement does not promise an atomic view of  *)
(* a shared directory or of a size under concurrent change; nor does it speak of a read that        *)
(* overlaps a foreground write / truncate of the same file through ANOTHER handle ("each through    *)
(* its own handle"): such a read may return anything.  Reads not overlapping a conflicting call      *)
(* (background block writes are no calls), successful structural calls, the quiescent tree and      *)
(* saved manifests stay exact.                                                                      *)
Call(id, i) ==
    /\ id \notin DOMAIN pend
    /\ LET clash == {x \in DOMAIN pend : Dep(E(x), Trace[i])}
           rec == [i |-> i, lin |-> FALSE, snap |-> {}, f0 |-> fails, ovl |-> clash # {},
                   from |-> IF Trace[i].op = "marshal" THEN [j \in 1 .. Len(nodes) |-> Len(chist[j])] ELSE <<>>] IN
       pend' = (id :> rec) @@ [x \in DOMAIN pend |-> IF x \in clash THEN [pend[x] EXCEPT !.ovl = TRUE] ELSE pend[x]]
    /\ UNCHANGED <<fsvars, svars, chist, fails, okfails>>

Relaxed(e) == \/ e.op \in {"stat", "size", "readdir"}
              \/ (e.op \in {"open", "mkdir", "rename", "remove", "removeall"} /\ ~e.ok)

Lin(id) ==
    /\ id \in DOMAIN pend /\ ~pend[id].lin
    /\ IF E(id).op = "marshal"
       THEN /\ pend' = [pend EXCEPT ![id].lin = TRUE, ![id].snap = ListingI(1, <<>>)]
            /\ UNCHANGED <<fsvars, chist>>
       ELSE /\ \/ Apply(E(id))
               \/ pend[id].ovl /\ Relaxed(E(id)) /\ UNCHANGED fsvars       \* any result, no effect
               \/ /\ pend[id].ovl /\ E(id).op = "read"                    \* a read overlapping another handle's
                  /\ E(id).h \in DOMAIN handles /\ E(id).res # "err"       \* write/truncate of the file: any bytes
                  /\ handles' = [handles EXCEPT ![E(id).h].off = @ + Len(E(id).d)]
                  /\ UNCHANGED nodes
            /\ pend' = [pend EXCEPT ![id].lin = TRUE]
            /\ chist' = NextHist
    /\ UNCHANGED <<svars, fails, okfails>>

SavedContentOK(p, m) ==
    \A s \in p.snap : s[2] = "f" =>
        LET i == s[3]
            lo == IF i <= Len(p.from) THEN p.from[i] ELSE 1 IN
        \E k \in lo .. Len(chist[i]) : chist[i][k] = MCat(m, s[1], 1, 1)

Ret(id) ==
    /\ id \in DOMAIN pend /\ pend[id].lin
    /\ LET p == pend[id]  e == E(id) IN
       e.op = "marshal" =>
         IF e.ok
         THEN /\ SemOK(e.m)       \* ("loads cleanly"; grammar and locator provenance are C09's, reported as drift here)
              /\ {<<x[1], x[2]>> : x \in MListing(e.m)} = {<<s[1], s[2]>> : s \in p.snap}
              /\ SavedContentOK(p, e.m)
         ELSE fails > okfails   \* some Keep write failed since a save last succeeded (errors may be reported late)
    /\ okfails' = IF E(id).op = "marshal" /\ E(id).ok THEN fails ELSE okfails
    /\ pend' = [x \in (DOMAIN pend) \ {id} |-> pend[x]]
    /\ UNCHANGED <<fsvars, svars, chist, fails>>

PutBConc(ok) == /\ fails' = IF ok THEN fails ELSE fails + 1
                /\ UNCHANGED <<fsvars, svars, pend, chist, okfails>>

(* whole-tree observation while no call is in progress *)
QuietSnap(ents, total) == pend = <<>> /\ Snap(ents, total) /\ UNCHANGED <<svars, cvars2>>
=============================================================================
