----------------------------- MODULE CollFSConc -----------------------------
(***************************************************************************)
(* C13 - contract for CONCURRENT use of a collection filesystem.           *)
(*                                                                         *)
(* Observables: for every API call of every worker goroutine a `call`      *)
(* event and a `ret` event, globally ordered by one mutex-protected        *)
(* append (the call event is recorded before the call starts, the ret      *)
(* event after it returned; the results are attached to the call record    *)
(* after the fact, as a prophecy that keeps the search finite).  Between   *)
(* its call and its ret every operation takes effect atomically at some    *)
(* point (internal step Lin) according to the sequential CollFS contract.  *)
(* Keep writes (putb), race-detector reports (race) and a proven deadlock  *)
(* (deadlock) are events too; the last two are not actions of the contract.*)
(*                                                                         *)
(* Clauses of the statement (properties.jsonl C13):                        *)
(*  "no operation deadlocks"             no action for event "deadlock"    *)
(*  "every file's final content is the result of applying the operations   *)
(*   issued on that file in their per-handle order"                        *)
(*                                       a worker's calls do not overlap,  *)
(*                                       so Lin respects per-handle order; *)
(*                                       the Snap at quiescence must equal *)
(*                                       the model state                   *)
(*  "every manifest saved during or after the activity loads cleanly with  *)
(*   each file holding a content that file actually passed through"        *)
(*                                       Ret of a marshal: grammar, blocks *)
(*                                       (as C09), the directory structure *)
(*                                       at its Lin point, and per file a  *)
(*                                       content the file had at some time *)
(*                                       between the call and the return   *)
(*                                       (not necessarily the same instant *)
(*                                       for all files)                    *)
(*  "slow, reordered or failing background block writes never change what  *)
(*   readers see and never resurrect overwritten data"                     *)
(*                                       Read results are judged by Lin of *)
(*                                       CollFS!Read; a saved content that *)
(*                                       was overwritten before the save   *)
(*                                       began is not in the interval      *)
(*  a failed save                        only if a Keep write failed       *)
(*                                       between its call and its return   *)
(*  absence of race-detector reports     no action for event "race" (the   *)
(*                                       check emits it only for reports   *)
(*                                       whose racing accesses are both in *)
(*                                       the anchored files)               *)
(***************************************************************************)
EXTENDS CollFSStore

VARIABLES pend,     \* [call id -> [e (call record with results), lin, from, snap, f0]]
          chist,    \* per inode: sequence of all contents it has had
          fails     \* number of failed Keep writes so far

cvars2 == <<pend, chist, fails>>
concvars == <<fsvars, svars, cvars2>>

ConcInit == pend = <<>> /\ chist = << <<>> >> /\ fails = 0

Flags(e) == [acc |-> e.acc, cr |-> e.cr, ex |-> e.ex, tr |-> e.tr, ap |-> e.ap]

Apply(e) ==
    CASE e.op = "open"      -> Open(e.h, e.p, Flags(e), e.ok)
      [] e.op = "close"     -> Close(e.h)
      [] e.op = "write"     -> Write(e.h, e.d, e.n, e.ok)
      [] e.op = "read"      -> Read(e.h, e.n, e.d, e.res)
      [] e.op = "seek"      -> Seek(e.h, e.off, e.wh, e.pos, e.ok)
      [] e.op = "trunc"     -> Truncate(e.h, e.n, e.ok)
      [] e.op = "size"      -> Size(e.h, e.n)
      [] e.op = "mkdir"     -> Mkdir(e.p, e.ok)
      [] e.op = "rename"    -> Rename(e.p, e.q, e.ok)
      [] e.op = "remove"    -> Remove(e.p, e.ok)
      [] e.op = "removeall" -> RemoveAll(e.p, e.ok)
      [] e.op = "stat"      -> Stat(e.p, e.ok, e.dir, e.n)
      [] e.op = "readdir"   -> Readdir(e.p, e.ok, e.ents)
      [] e.op = "flush"     -> Flush
      [] OTHER              -> FALSE

RECURSIVE ListingI(_, _)
ListingI(i, prefix) ==
    UNION { LET c == nodes[i].e[n]  p == Append(prefix, n) IN
            IF IsDir(c) THEN {<<p, "d", c>>} \cup ListingI(c, p) ELSE {<<p, "f", c>>}
            : n \in DOMAIN nodes[i].e }

NextHist == [i \in 1 .. Len(nodes') |->
               IF i > Len(nodes) THEN (IF nodes'[i].k = "f" THEN <<nodes'[i].d>> ELSE <<>>)
               ELSE IF nodes'[i].k = "f" /\ nodes'[i].d # nodes[i].d THEN Append(chist[i], nodes'[i].d)
               ELSE chist[i]]

Call(id, e) ==
    /\ id \notin DOMAIN pend
    /\ pend' = (id :> [e |-> e, lin |-> FALSE, snap |-> {}, f0 |-> fails,
                       from |-> [i \in 1 .. Len(nodes) |-> Len(chist[i])]]) @@ pend
    /\ UNCHANGED <<fsvars, svars, chist, fails>>

Lin(id) ==
    /\ id \in DOMAIN pend /\ ~pend[id].lin
    /\ IF pend[id].e.op = "marshal"
       THEN /\ pend' = [pend EXCEPT ![id].lin = TRUE, ![id].snap = ListingI(1, <<>>)]
            /\ UNCHANGED <<fsvars, chist>>
       ELSE /\ Apply(pend[id].e)
            /\ pend' = [pend EXCEPT ![id].lin = TRUE]
            /\ chist' = NextHist
    /\ UNCHANGED <<svars, fails>>

SavedContentOK(p, m) ==
    \A s \in p.snap : s[2] = "f" =>
        LET i == s[3]
            lo == IF i <= Len(p.from) THEN p.from[i] ELSE 1 IN
        \E k \in lo .. Len(chist[i]) : chist[i][k] = MCat(m, s[1], 1, 1)

Ret(id) ==
    /\ id \in DOMAIN pend /\ pend[id].lin
    /\ LET p == pend[id]  e == p.e IN
       e.op = "marshal" =>
         IF e.ok
         THEN /\ e.m.gok /\ BlocksOK(e.m) /\ SemOK(e.m)
              /\ {<<x[1], x[2]>> : x \in MListing(e.m)} = {<<s[1], s[2]>> : s \in p.snap}
              /\ SavedContentOK(p, e.m)
         ELSE fails > p.f0
    /\ pend' = [x \in (DOMAIN pend) \ {id} |-> pend[x]]
    /\ UNCHANGED <<fsvars, svars, chist, fails>>

PutBConc(ok) == /\ fails' = IF ok THEN fails ELSE fails + 1
                /\ UNCHANGED <<fsvars, svars, pend, chist>>

(* whole-tree observation while no call is in progress *)
QuietSnap(ents, total) == pend = <<>> /\ Snap(ents, total) /\ UNCHANGED <<svars, cvars2>>
=============================================================================
