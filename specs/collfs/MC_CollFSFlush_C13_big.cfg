SPECIFICATION Spec
CONSTANTS
  MaxB = 1
  MinW = 1
  MaxW = 2
  NFiles = 2
  SecondHandle = FALSE
  MaxSize = 2
  MaxOps = 3
  MaxPuts = 3
  AllowFail = TRUE
  MaxHist = 0
VIEW view
CONSTRAINT Bound
INVARIANTS TypeOK ContentOK SizeOK PtrOK NoEmptySeg BlockLimit NoHazard SharedFlushing ThrottleOK
PROPERTIES Refines
CHECK_DEADLOCK TRUE
