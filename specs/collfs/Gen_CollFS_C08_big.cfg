SPECIFICATION GenSpec
CONSTANTS
  MaxOps = 1000000
  AllFlags = TRUE
  MaxSize = 2
  MaxH = 1
  MaxIno = 3
VIEW view
INVARIANTS TreeOK SizeOK Emit
CHECK_DEADLOCK FALSE
