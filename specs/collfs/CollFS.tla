------------------------------- MODULE CollFS -------------------------------
(***************************************************************************)
(* C08 - sequential contract of a collection filesystem: "behaves like an  *)
(* ordinary in-memory filesystem".                                         *)
(*                                                                         *)
(* State: an inode table (regular files holding a byte string, directories *)
(* holding name -> inode) and a table of open handles (inode, offset,      *)
(* readable, writable, append).  One action per API call; the call's       *)
(* arguments AND its observed result are parameters, so a recorded trace   *)
(* is judged linearly: an event is accepted iff the result is one the      *)
(* model allows in the current state.                                      *)
(*                                                                         *)
(* Bytes are characters of TLA+ strings.  "." stands for the zero byte     *)
(* (holes made by truncate-grow / write past EOF), any other character for *)
(* itself (the drivers write letters only).                                *)
(*                                                                         *)
(* Clauses of the statement (properties.jsonl C08) and where they are:     *)
(*  "every read returns exactly the bytes a plain byte-array-per-file      *)
(*   model predicts"                          Read, Snap (fresh handles)   *)
(*  "reported sizes and directory listings equal the model's"              *)
(*                                            Stat, Size, Readdir, Snap    *)
(*  "an operation fails exactly when the model says it must":              *)
(*     missing path                           Open(~create)/Stat/Remove/   *)
(*                                            Rename(src)/Readdir/Mkdir    *)
(*                                            (missing parent)             *)
(*     existing target                        Mkdir, Open(O_CREATE|O_EXCL) *)
(*     non-empty directory                    Remove                       *)
(*     directory moved into itself            Rename                       *)
(*     file renamed onto a directory          Rename                       *)
(*     write through a read-only handle       Write                        *)
(*     read through a write-only handle       Read                         *)
(*   and in every other listed case the call must SUCCEED with the plain   *)
(*   model's effect.                                                       *)
(*  "every block size / straddling / flushes in between": driver           *)
(*   dimensions; Flush is a stuttering step here.                          *)
(*                                                                         *)
(* Where the statement is silent the contract accepts every outcome        *)
(* (`any` below = the call may fail leaving everything unchanged, or       *)
(* succeed with the effect an ordinary filesystem would give):             *)
(*   - O_EXCL without O_CREATE on an existing path; any open of the root   *)
(*   - opening a directory for writing or with O_TRUNC; I/O on a           *)
(*     directory handle (no effect on the tree in any case)                *)
(*   - O_TRUNC on a read-only handle (fail / open / open+truncate)         *)
(*   - Truncate through a read-only handle (fail / truncate)               *)
(*   - a zero-length write at an offset past EOF (extends or not)          *)
(*   - Read with an empty buffer                                           *)
(*   - renaming a directory onto an existing directory or file; renaming a *)
(*     file onto an existing file (replace, or fail as "existing target")  *)
(*     or onto itself (any result, no effect)                              *)
(*   - O_CREATE on an existing directory; the start offset of an O_APPEND  *)
(*     handle (0 or size); n of a failed write; a seek to a negative       *)
(*     offset (any result; never generated)                                *)
(*   - Remove/RemoveAll/Rename of the root, RemoveAll of a missing path,   *)
(*     Readdir of a regular file                                           *)
(*   - error identities: only success/failure (and io.EOF for reads)       *)
(*     are compared.                                                       *)
(* Not modelled: modification times, permissions, MemorySize, paths with   *)
(* "..", O_SYNC, O_WRONLY|O_RDWR, negative truncate sizes, path            *)
(* decorations ("//", "/./", leading "/"): never generated, every judged   *)
(* call uses the canonical relative path ("." for the root).               *)
(***************************************************************************)
EXTENDS Integers, Sequences, FiniteSets, TLC

VARIABLES nodes,     \* sequence of inode records, inode number = index, 1 = root
                     \*   [k |-> "f", d |-> string]            regular file
                     \*   [k |-> "d", e |-> [name -> inode]]   directory
          handles    \* [handle id -> [ino, off, rd, wr, ap]]

fsvars == <<nodes, handles>>

RECURSIVE Z(_)
Z(n) == IF n <= 0 THEN "" ELSE IF n >= 8 THEN "........" \o Z(n - 8) ELSE "." \o Z(n - 1)

Front(p) == SubSeq(p, 1, Len(p) - 1)
Last(p)  == p[Len(p)]

IsDir(i)  == i # 0 /\ nodes[i].k = "d"
IsFile(i) == i # 0 /\ nodes[i].k = "f"

RECURSIVE Walk(_, _)
Walk(i, path) ==
    IF path = <<>> THEN i
    ELSE IF i = 0 THEN 0
    ELSE IF nodes[i].k # "d" THEN 0
    ELSE IF Head(path) \notin DOMAIN nodes[i].e THEN 0
    ELSE Walk(nodes[i].e[Head(path)], Tail(path))

Resolve(path) == Walk(1, path)                       \* 0 = no such path
ParentOf(path) == IF path = <<>> THEN 0 ELSE Resolve(Front(path))

RECURSIVE Desc(_)
Desc(i) == IF nodes[i].k # "d" THEN {i}
           ELSE {i} \cup UNION {Desc(nodes[i].e[n]) : n \in DOMAIN nodes[i].e}

Pad(s, n) == IF Len(s) >= n THEN s ELSE s \o Z(n - Len(s))
Resize(s, n) == IF n <= Len(s) THEN SubSeq(s, 1, n) ELSE Pad(s, n)
WriteAt(s, pos, d) ==
    LET p == Pad(s, pos) IN
    SubSeq(p, 1, pos) \o d \o (IF pos + Len(d) < Len(p) THEN SubSeq(p, pos + Len(d) + 1, Len(p)) ELSE "")

Without(f, n) == [x \in (DOMAIN f) \ {n} |-> f[x]]

Link(tbl, dir, name, i) == [tbl EXCEPT ![dir].e = (name :> i) @@ @]
Unlink(tbl, dir, name)  == [tbl EXCEPT ![dir].e = Without(@, name)]

Unchanged == UNCHANGED fsvars

-----------------------------------------------------------------------------
(* Init: empty collection *)
FSInit == /\ nodes = << [k |-> "d", e |-> <<>>] >>
          /\ handles = <<>>

-----------------------------------------------------------------------------
(* Open.  f = [acc \in {"r","w","rw"}, cr, ex, tr, ap : BOOLEAN] *)
Wr(f) == f.acc \in {"w", "rw"}
Rd(f) == f.acc \in {"r", "rw"}

OpenMayFail(path, f) ==
    LET t == Resolve(path) IN
    IF t # 0
    THEN \/ path = <<>>                              \* the root: any
         \/ f.ex                                     \* O_CREATE|O_EXCL: must; O_EXCL alone: any
         \/ (IsDir(t) /\ (Wr(f) \/ f.tr \/ f.cr))    \* any (also O_CREATE on a directory: EISDIR elsewhere)
         \/ (IsFile(t) /\ f.tr /\ ~Wr(f))            \* any
    ELSE ~f.cr \/ ~IsDir(ParentOf(path))             \* missing path / missing parent: must
OpenMayPlain(path, f) ==
    LET t == Resolve(path) IN
    /\ t # 0 /\ (~(f.cr /\ f.ex) \/ path = <<>>)
    /\ (IsDir(t) \/ ~f.tr \/ ~Wr(f))
OpenMayTrunc(path, f) ==
    LET t == Resolve(path) IN
    /\ t # 0 /\ IsFile(t) /\ f.tr /\ ~(f.cr /\ f.ex)
OpenMayCreate(path, f) ==
    /\ Resolve(path) = 0 /\ f.cr /\ IsDir(ParentOf(path))

NewHandle(i, f, o) == [ino |-> i, off |-> o, rd |-> Rd(f), wr |-> Wr(f), ap |-> f.ap]
\* the offset of a fresh handle is 0; for O_APPEND on a regular file it may also be the size
\* (the statement does not say where an append handle reads from before its first write)
StartOffs(tbl, i, f) == IF f.ap /\ i <= Len(tbl) /\ tbl[i].k = "f" THEN {0, Len(tbl[i].d)} ELSE {0}

Open(h, path, f, ok) ==
    LET t == Resolve(path) IN
    \/ /\ ~ok /\ OpenMayFail(path, f) /\ Unchanged
    \/ /\ ok /\ OpenMayPlain(path, f)
       /\ \E o \in StartOffs(nodes, t, f) : handles' = (h :> NewHandle(t, f, o)) @@ handles
       /\ UNCHANGED nodes
    \/ /\ ok /\ OpenMayTrunc(path, f)
       /\ handles' = (h :> NewHandle(t, f, 0)) @@ handles
       /\ nodes' = [nodes EXCEPT ![t].d = ""]
    \/ /\ ok /\ OpenMayCreate(path, f)
       /\ handles' = (h :> NewHandle(Len(nodes) + 1, f, 0)) @@ handles
       /\ nodes' = Append(Link(nodes, ParentOf(path), Last(path), Len(nodes) + 1), [k |-> "f", d |-> ""])

Close(h) == /\ h \in DOMAIN handles
            /\ handles' = Without(handles, h)
            /\ UNCHANGED nodes

-----------------------------------------------------------------------------
(* I/O through a handle *)
Write(h, d, n, ok) ==
    /\ h \in DOMAIN handles
    /\ LET hd == handles[h]  i == hd.ino IN
       IF IsDir(i) THEN Unchanged                               \* any result
       ELSE IF ~hd.wr THEN ~ok /\ Unchanged                     \* read-only handle: must fail (n not compared)
       ELSE LET old == nodes[i].d
                pos == IF hd.ap THEN Len(old) ELSE hd.off IN
            /\ ok /\ n = Len(d)
            /\ \/ nodes' = [nodes EXCEPT ![i].d = WriteAt(old, pos, d)]
               \/ d = "" /\ UNCHANGED nodes                     \* empty write past EOF need not extend
            /\ handles' = [handles EXCEPT ![h].off = pos + n]

(* res: "nil" (no error), "eof" (io.EOF), "err" (any other error) *)
Read(h, len, d, res) ==
    /\ h \in DOMAIN handles
    /\ LET hd == handles[h]  i == hd.ino IN
       IF IsDir(i) THEN Unchanged                               \* any result
       ELSE IF ~hd.rd THEN res = "err" /\ d = "" /\ Unchanged   \* write-only handle: must fail
       ELSE IF len = 0 THEN d = "" /\ Unchanged                 \* any res
       ELSE LET data == nodes[i].d
                avail == Len(data) - hd.off IN
            IF avail <= 0 THEN res = "eof" /\ d = "" /\ Unchanged
            ELSE /\ res \in {"nil", "eof"}
                 /\ Len(d) >= 1 /\ Len(d) <= len /\ Len(d) <= avail          \* short reads allowed
                 /\ d = SubSeq(data, hd.off + 1, hd.off + Len(d))
                 /\ res = "eof" => Len(d) = avail
                 /\ handles' = [handles EXCEPT ![h].off = hd.off + Len(d)]
                 /\ UNCHANGED nodes

Seek(h, off, wh, pos, ok) ==
    /\ h \in DOMAIN handles
    /\ LET hd == handles[h]  i == hd.ino IN
       IF IsDir(i) THEN Unchanged                               \* any result
       ELSE LET base == CASE wh = 0 -> 0 [] wh = 1 -> hd.off [] OTHER -> Len(nodes[i].d)
                np == base + off IN
            IF np < 0 THEN Unchanged          \* any (not among the statement's failure causes; never generated)
            ELSE /\ ok /\ pos = np
                 /\ handles' = [handles EXCEPT ![h].off = np]
                 /\ UNCHANGED nodes

Truncate(h, n, ok) ==
    /\ h \in DOMAIN handles /\ n >= 0
    /\ LET hd == handles[h]  i == hd.ino IN
       IF IsDir(i) THEN Unchanged                               \* any result
       ELSE \/ ~ok /\ ~hd.wr /\ Unchanged                       \* read-only handle: any
            \/ /\ ok
               /\ nodes' = [nodes EXCEPT ![i].d = Resize(@, n)]
               /\ UNCHANGED handles

Size(h, n) ==
    /\ h \in DOMAIN handles
    /\ IsFile(handles[h].ino) => n = Len(nodes[handles[h].ino].d)
    /\ Unchanged

-----------------------------------------------------------------------------
(* Directory-level operations on paths (sequences of names) *)
Mkdir(path, ok) ==
    LET par == ParentOf(path) IN
    IF path # <<>> /\ IsDir(par) /\ Resolve(path) = 0
    THEN /\ ok
         /\ nodes' = Append(Link(nodes, par, Last(path), Len(nodes) + 1), [k |-> "d", e |-> <<>>])
         /\ UNCHANGED handles
    ELSE ~ok /\ Unchanged                 \* existing target / missing parent: must fail

RenameMustFail(p, q) ==
    LET src == Resolve(p)  dpar == ParentOf(q)  dst == Resolve(q) IN
    \/ p = <<>> \/ q = <<>>
    \/ src = 0                                           \* missing path
    \/ ~IsDir(dpar)                                      \* missing target directory
    \/ (IsDir(src) /\ dpar \in Desc(src))                \* directory moved into itself
    \/ (IsFile(src) /\ IsDir(dst))                       \* file renamed onto a directory

Move(p, q) ==
    LET src == Resolve(p) IN
    nodes' = Link(Unlink(nodes, ParentOf(p), Last(p)), ParentOf(q), Last(q), src)

Rename(p, q, ok) ==
    IF RenameMustFail(p, q) THEN ~ok /\ Unchanged
    ELSE LET src == Resolve(p)  dst == Resolve(q) IN
         CASE dst = 0 -> ok /\ Move(p, q) /\ UNCHANGED handles
           [] dst = src /\ IsFile(src) -> Unchanged                \* a file onto itself: any result, nothing happens
           [] dst = src /\ IsDir(src) -> Unchanged                 \* any
           [] IsFile(dst) /\ IsFile(src) ->                        \* any: replaces the file, or "existing target"
                  \/ ~ok /\ Unchanged
                  \/ ok /\ Move(p, q) /\ UNCHANGED handles
           [] IsFile(dst) /\ IsDir(src) ->                         \* any
                  \/ ~ok /\ Unchanged
                  \/ ok /\ Move(p, q) /\ UNCHANGED handles
           [] OTHER ->                                             \* directory onto directory: any
                  \/ ~ok /\ Unchanged
                  \/ ok /\ DOMAIN nodes[dst].e = {} /\ Move(p, q) /\ UNCHANGED handles

Remove(p, ok) ==
    LET t == Resolve(p) IN
    IF p = <<>> THEN Unchanged                                     \* any
    ELSE IF t = 0 THEN ~ok /\ Unchanged                            \* missing path
    ELSE IF IsDir(t) /\ DOMAIN nodes[t].e # {} THEN ~ok /\ Unchanged    \* non-empty directory
    ELSE /\ ok
         /\ nodes' = Unlink(nodes, ParentOf(p), Last(p))
         /\ UNCHANGED handles

RemoveAll(p, ok) ==
    LET t == Resolve(p) IN
    IF p = <<>> \/ t = 0 THEN Unchanged                            \* any
    ELSE /\ ok
         /\ nodes' = Unlink(nodes, ParentOf(p), Last(p))
         /\ UNCHANGED handles

Stat(p, ok, dir, n) ==
    LET t == Resolve(p) IN
    /\ Unchanged
    /\ IF t = 0 THEN ~ok
       ELSE /\ ok /\ dir = IsDir(t)
            /\ IsFile(t) => n = Len(nodes[t].d)

(* ents: sequence of <<name, isdir, size>> with size 0 reported for directories *)
DirEntries(t) == { <<n, IsDir(nodes[t].e[n]), IF IsDir(nodes[t].e[n]) THEN 0 ELSE Len(nodes[nodes[t].e[n]].d)>> :
                   n \in DOMAIN nodes[t].e }
Readdir(p, ok, ents) ==
    LET t == Resolve(p) IN
    /\ Unchanged
    /\ IF t = 0 THEN ~ok
       ELSE IF IsFile(t) THEN TRUE                                 \* any
       ELSE /\ ok
            /\ {ents[j] : j \in DOMAIN ents} = DirEntries(t)
            /\ Len(ents) = Cardinality(DirEntries(t))

(* names and kinds only (used where entries are observed while other goroutines write: the     *)
(* sizes of different entries are then read at different instants)                            *)
ReaddirNames(p, ok, ents) ==
    LET t == Resolve(p) IN
    /\ Unchanged
    /\ IF t = 0 THEN ~ok
       ELSE IF IsFile(t) THEN TRUE
       ELSE /\ ok
            /\ {<<ents[j][1], ents[j][2]>> : j \in DOMAIN ents} = {<<x[1], x[2]>> : x \in DirEntries(t)}
            /\ Len(ents) = Cardinality(DirEntries(t))

(* explicit Flush / Sync / MarshalManifest: invisible here *)
Flush == Unchanged

(* The whole tree as observed through Readdir and fresh read-only handles:   *)
(* a sequence of <<path, "f"|"d", content>>, total = fs.Size().              *)
RECURSIVE Listing(_, _)
Listing(i, prefix) ==
    UNION { LET c == nodes[i].e[n]  p == Append(prefix, n) IN
            IF IsDir(c) THEN {<<p, "d", "">>} \cup Listing(c, p) ELSE {<<p, "f", nodes[c].d>>}
            : n \in DOMAIN nodes[i].e }

RECURSIVE SumLen(_, _)
SumLen(ents, j) == IF j > Len(ents) THEN 0 ELSE Len(ents[j][3]) + SumLen(ents, j + 1)

Snap(ents, total) ==
    /\ Unchanged
    /\ {ents[j] : j \in DOMAIN ents} = Listing(1, <<>>)
    /\ Len(ents) = Cardinality(Listing(1, <<>>))
    /\ total = SumLen(ents, 1)

-----------------------------------------------------------------------------
(* Well-formedness of the contract state (checked by MC_CollFS.cfg and on    *)
(* every judged trace)                                                       *)
TreeOK ==
    /\ Len(nodes) >= 1 /\ nodes[1].k = "d"
    /\ \A i \in 1 .. Len(nodes) : nodes[i].k = "d" =>
          \A n \in DOMAIN nodes[i].e : nodes[i].e[n] \in 2 .. Len(nodes)
    /\ \A i, j \in 1 .. Len(nodes) :            \* no hard links: an inode has at most one name
          (nodes[i].k = "d" /\ nodes[j].k = "d") =>
             \A n \in DOMAIN nodes[i].e, m \in DOMAIN nodes[j].e :
                 nodes[i].e[n] = nodes[j].e[m] => (i = j /\ n = m)
    /\ \A h \in DOMAIN handles : handles[h].ino \in 1 .. Len(nodes) /\ handles[h].off >= 0
=============================================================================
