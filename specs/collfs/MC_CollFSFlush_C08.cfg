SPECIFICATION Spec
CONSTANTS
  MaxB = 2
  MinW = 1
  MaxW = 1
  NFiles = 1
  SecondHandle = TRUE
  MaxSize = 3
  MaxOps = 3
  MaxPuts = 3
  AllowFail = FALSE
  MaxHist = 0
VIEW view
CONSTRAINT Bound
INVARIANTS TypeOK ContentOK SizeOK PtrOK NoEmptySeg BlockLimit NoHazard SharedFlushing ThrottleOK
PROPERTIES Refines
CHECK_DEADLOCK TRUE
