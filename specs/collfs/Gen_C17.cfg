\* C17 scenarios (quick): every tree over 5 candidate paths x 9 link targets x 4 mount configurations x 2 secret roots
SPECIFICATION Spec
CONSTANTS
  TargetIds = {1, 3, 4, 7, 9, 10, 12, 13, 15}
  MountCfgIds = {2, 6, 8, 10}
  SecretIds = {2, 4}
INVARIANTS Emit
CHECK_DEADLOCK FALSE
