--------------------------- MODULE ManifestCodecs ---------------------------
(***************************************************************************)
(* C10 - implementation-shaped model of the three manifest range mappers   *)
(* and the three name escapers/unescapers, one recursion step per loop     *)
(* iteration of the real code, and the scenario generator.                 *)
(*                                                                         *)
(*   GoFs*   sdk/go/arvados/fs_collection.go  dirnode.loadManifest         *)
(*           (linear scan with (segIdx,pos) carried from token to token,   *)
(*           rewind when a token starts before pos)                        *)
(*   GoMan*  sdk/go/manifest/manifest.go  firstBlock (binary search) +     *)
(*           sendFileSegmentIterByName; EscapeName / UnescapeName          *)
(*   Py*     sdk/python/arvados/_ranges.py first_block +                   *)
(*           locators_and_ranges; _normalize_stream.escape                 *)
(*                                                                         *)
(* A behaviour only builds the input: it ranges over the bounded space of  *)
(* manifests (one stream opened and filled per two steps) and the          *)
(* invariants say that each model algorithm computes what ManifestContract *)
(* demands (refinement of a one-step contract), at token level and at file *)
(* level (every sub-range read).                                           *)
(* The models follow the code as of /repo commits d02d736 (Go firstBlock = *)
(* sort.Search lower bound), b303e5c (Python first_block likewise),        *)
(* bc06505 (EscapeName escapes the backslash), 64bfb12 (loadManifest       *)
(* creates no zero-length segment) and 6bfe9ac (manifestEscape also        *)
(* escapes DEL and invalid UTF-8), 600e812 and 70b8032 (range checks of    *)
(* both Go parsers do not wrap around).  The defects those commits         *)
(* repaired (KF-C10-1a/1b/1c, -2, -3, -5, -6) are kept as HISTORY          *)
(* operators with checkable lemmas; no invariant has an exclusion.         *)
(* ecab3b5 (loadManifest checks the stream name: KF-C10-4, fixed;          *)
(* StreamNameChecks).                                                      *)
(***************************************************************************)
EXTENDS Manifest, TLC, Json, IOUtils

CONSTANTS MaxStreams,     \* 1..MaxStreams streams
          MaxBlocks,      \* 1..MaxBlocks blocks per stream
          BlockIds,       \* block ids to choose from (size = id % 100; 0 = the empty block)
          MaxToks,        \* 1..MaxToks file tokens per stream
          FileNames,      \* set of file names (text form)
          StreamNames,    \* set of stream names (text form)
          PlainNames,     \* set of UNESCAPED names for the escaper round trips
          WholeOnly       \* TRUE: only the token 0:<stream length> (name-oriented configurations)


(***************************************************************************)
(* Name pools (text form unless said otherwise); cfg files pick with <-    *)
(***************************************************************************)
T_a      == <<97>>                                    \* a
T_b      == <<98>>                                    \* b
T_sp     == <<97, BS, 48, 52, 48, 98>>                \* a\040b      -> "a b"
T_bsoct  == <<BS, 49, 51, 52, 49, 48, 49>>            \* \134101     -> "\101"  (backslash + digits as data)
T_colon  == <<97, COLON, 98>>                         \* a:b
T_colesc == <<97, BS, 48, 55, 50, 98>>                \* a\072b      -> "a:b" (same path, other spelling)
T_sub    == <<100, SL, 97>>                           \* d/a
T_hi     == <<195, 169>>                              \* raw non-ASCII bytes (UTF-8 e-acute)
T_hiesc  == <<BS, 51, 48, 51, BS, 50, 53, 49>>        \* \303\251    -> the same two bytes
T_lone   == <<97, BS, 98>>                            \* a\b         lone backslash, not an escape
T_bs2    == <<97, BS, 49, 48>>                        \* a\10        backslash + two digits, not an escape
T_dotted == <<DOT, 97, DOT>>                          \* .a.
T_lat1   == <<BS, 51, 53, 49, 97>>                    \* \351a        -> the Latin-1 byte 0xE9, "a": a name that is not UTF-8
T_ff     == <<97, BS, 51, 55, 55>>                    \* a\377        -> "a", 0xFF
S_root   == <<DOT>>                                   \* .
S_d      == <<DOT, SL, 100>>                          \* ./d
S_dsp    == <<DOT, SL, 100, BS, 48, 52, 48, 101>>     \* ./d\040e     -> "./d e"
S_deep   == <<DOT, SL, 100, SL, 101>>                 \* ./d/e
S_d1     == <<DOT, SL, 100, 49>>                      \* ./d1         (its name extends ./d: Extract("./d") must leave it alone)

NamesAlign  == {T_a}
NamesAlign2 == {T_a, T_b}
NamesAll    == {T_a, T_sp, T_bsoct, T_colon, T_colesc, T_sub, T_hi, T_hiesc, T_lone, T_bs2, T_dotted, T_lat1, T_ff}
StreamsOne  == {S_root}
StreamsAll  == {S_root, S_d, S_dsp, S_deep, S_d1}
StreamsTwo  == {S_root, S_d}
PlainAll    == {Unescape(t) : t \in NamesAll \cup StreamsAll} \cup
               { <<97, 9, 98>>, <<97, 10, 98>>, <<BS>>, <<BS, 52, 48, 48>>, <<97, BS, 48, 52, 48>>, <<255, 0, 1>>,
                 <<97, 127>>, <<233>>, <<195>>, <<226, 130, 172>>, <<226, 130>>, <<237, 160, 128>>, <<240, 159, 152, 128>>,
                 <<BS, BS>>, <<192, 128>> }
Ids012      == {0, 1, 2}
Ids0123     == {0, 1, 2, 3}
Ids1        == {1}
Ids02dup    == {0, 2, 102}

VARIABLE sc               \* [streams |-> manifest]
vars == <<sc>>

(***************************************************************************)
(* dirnode.loadManifest, per stream (fs_collection.go:1027-1148)           *)
(***************************************************************************)
\* the "for ; segIdx < len(segments); segIdx++" loop for one file token; segIdx is 1-based here
\* keepZero = FALSE: the code since 64bfb12 ("if blkLen > 0"); TRUE: HISTORY, the loader before it (KF-C10-3, fixed)
RECURSIVE GoFsLoop(_, _, _, _, _, _, _)
GoFsLoop(blocks, segIdx, pos, offset, length, acc, keepZero) ==
    IF segIdx > Len(blocks) THEN [segIdx |-> segIdx, pos |-> pos, segs |-> acc]
    ELSE LET sz   == Size(blocks[segIdx])
             next == pos + sz
         IN IF next <= offset \/ sz = 0
            THEN GoFsLoop(blocks, segIdx + 1, next, offset, length, acc, keepZero)  \* pos = next; continue
            ELSE IF pos >= offset + length
            THEN [segIdx |-> segIdx, pos |-> pos, segs |-> acc]                    \* break
            ELSE LET blkOff  == IF pos < offset THEN offset - pos ELSE 0
                     blkLen0 == sz - blkOff
                     blkLen  == IF pos + blkOff + blkLen0 > offset + length
                                THEN offset + length - pos - blkOff ELSE blkLen0
                     acc2    == IF blkLen > 0 \/ keepZero                            \* "if blkLen > 0 {"
                                THEN Append(acc, <<blocks[segIdx], blkOff, blkLen>>)  \*    appendSegment
                                ELSE acc
                 IN IF next > offset + length
                    THEN [segIdx |-> segIdx, pos |-> pos, segs |-> acc2]            \* break
                    ELSE GoFsLoop(blocks, segIdx + 1, next, offset, length, acc2, keepZero)   \* pos = next

\* all tokens of a stream, carrying (segIdx, pos); result: sequence of [segs, err] per token
GoFsStreamK(s, keepZero) ==
    LET step(st, t) ==
            LET rew == IF st.pos > t.pos THEN [segIdx |-> 1, pos |-> 0] ELSE st      \* "Can't continue where we left off"
                r   == GoFsLoop(s.blocks, rew.segIdx, rew.pos, t.pos, t.len, <<>>, keepZero)
            IN [segIdx |-> r.segIdx, pos |-> r.pos,
                out |-> Append(st.out, [segs |-> r.segs,
                                        err |-> r.segIdx = Len(s.blocks) + 1 /\ r.pos < t.pos + t.len])]
        F[k \in 0 .. Len(s.toks)] == IF k = 0 THEN [segIdx |-> 1, pos |-> 0, out |-> <<>>]
                                     ELSE step(F[k-1], s.toks[k])
    IN F[Len(s.toks)].out

GoFsStream(s) == GoFsStreamK(s, FALSE)
\* filenode.segments after loadManifest for the file called f
GoFsFileK(s, f, keepZero) == LET r == GoFsStreamK(s, keepZero)
                      F[k \in 0 .. Len(s.toks)] ==
                          IF k = 0 THEN <<>> ELSE F[k-1] \o (IF s.toks[k].name = f THEN r[k].segs ELSE <<>>)
                  IN F[Len(s.toks)]
GoFsFile(s, f) == GoFsFileK(s, f, FALSE)
\* filenode.seek after filehandle.Seek (ptr.repacked = -1: recompute from the start), then filenode.Read of
\* one byte: the result is the byte (<<block, offset>>) or EOF
RECURSIVE GoFsSeek(_, _, _, _)
GoFsSeek(fsegs, idx, off, o) ==                  \* "for ...; off < ptr.off; ptr.segmentIdx++"
    IF ~(off < o) THEN [idx |-> idx, segOff |-> 0]
    ELSE IF off + fsegs[idx][3] > o THEN [idx |-> idx, segOff |-> o - off]
    ELSE GoFsSeek(fsegs, idx + 1, off + fsegs[idx][3], o)
EOF == <<-1, -1>>          \* n = 0, err = io.EOF
GoFsReadByte(fsegs, size, o) ==
    IF o >= size THEN EOF
    ELSE LET p == GoFsSeek(fsegs, 1, 0, o)
         IN IF p.idx > Len(fsegs) THEN EOF
            ELSE IF fsegs[p.idx][3] = 0 THEN EOF            \* storedSegment.ReadAt on a zero-length segment
            ELSE <<Strip(fsegs[p.idx][1]), fsegs[p.idx][2] + p.segOff>>

(***************************************************************************)
(* sdk/go/manifest: firstBlock + sendFileSegmentIterByName (0-based)       *)
(***************************************************************************)
Offsets(blocks) == [i \in 0 .. Len(blocks) |-> SumSizes(blocks, i)]       \* blockOffsets, len = n+1

\* sort.Search(n, f) / the while loop of first_block: smallest i in [lo, hi) whose block ends after rs, else hi
RECURSIVE LowerBound(_, _, _, _)
LowerBound(off, lo, hi, rs) ==
    IF ~(lo < hi) THEN lo
    ELSE LET h == (lo + hi) \div 2
         IN IF off[h+1] > rs THEN LowerBound(off, lo, h, rs) ELSE LowerBound(off, h + 1, hi, rs)
\* firstBlock (manifest.go, since d02d736): "if i == n { return -1 }"
GoFirstBlock(off, n, rs) == LET i == LowerBound(off, 0, n, rs) IN IF i = n THEN -1 ELSE i
\* first_block (_ranges.py, since b303e5c): "if lo == len(data_locators) or data_locators[lo].range_start > range_start"
PyFirstBlock(off, n, rs) == LET lo == LowerBound(off, 0, n, rs) IN IF lo = n \/ off[lo] > rs THEN -1 ELSE lo

\* HISTORY: the search both codecs had before those commits (KF-C10-1a/1b/1c, fixed).  Kept so that
\* OldSearchWasWrong documents, checkably, which inputs it failed on.
RECURSIVE OldBinSearch(_, _, _, _, _)
OldBinSearch(off, lo, hi, i, rs) ==
    IF rs >= off[i] /\ rs < off[i+1] THEN i
    ELSE IF lo = i THEN -1                         \* "must be out of range, fail"
    ELSE LET lo2 == IF rs > off[i] THEN i ELSE lo
             hi2 == IF rs > off[i] THEN hi ELSE i
         IN OldBinSearch(off, lo2, hi2, (hi2 + lo2) \div 2, rs)
OldFirstBlock(off, n, rs) == OldBinSearch(off, 0, n, n \div 2, rs)

RECURSIVE GoManLoop(_, _, _, _, _, _)
GoManLoop(blocks, off, i, wantPos, wantLen, acc) ==
    IF i >= Len(blocks) THEN [panic |-> FALSE, segs |-> acc]
    ELSE LET blockPos == off[i]
             blockEnd == off[i+1]
         IN IF blockEnd <= wantPos THEN [panic |-> TRUE, segs |-> acc]       \* "Block end comes before start"
            ELSE IF blockPos >= wantPos + wantLen THEN [panic |-> FALSE, segs |-> acc]
            ELSE LET o   == IF blockPos < wantPos THEN wantPos - blockPos ELSE 0
                     l0  == (blockEnd - blockPos) - o
                     l   == IF blockEnd > wantPos + wantLen THEN (wantPos + wantLen - blockPos) - o ELSE l0
                 IN GoManLoop(blocks, off, i + 1, wantPos, wantLen, Append(acc, <<blocks[i+1], o, l>>))

GoManToken(s, t) ==
    IF t.len = 0 THEN [panic |-> FALSE, segs |-> << <<0, 0, 0>> >>]           \* the d41d8...+0 pseudo segment
    ELSE LET off == Offsets(s.blocks)
             i   == GoFirstBlock(off, Len(s.blocks), t.pos)
         IN IF i = -1 THEN [panic |-> TRUE, segs |-> <<>>]                    \* "extends past end of stream"
            ELSE GoManLoop(s.blocks, off, i, t.pos, t.len, <<>>)

(***************************************************************************)
(* _ranges.py: first_block + locators_and_ranges                           *)
(***************************************************************************)
\* data_locators = sequence of ranges <<locator id, segment_offset, range_size>>, contiguous from 0
RangeOffsets(rs) == LET F[i \in 0 .. Len(rs)] == IF i = 0 THEN 0 ELSE F[i-1] + rs[i][3] IN F
RECURSIVE PyLoop(_, _, _, _, _, _)
PyLoop(rs, off, i, rst, re, acc) ==                       \* the while loop of locators_and_ranges, i 0-based
    IF i >= Len(rs) THEN acc
    ELSE LET bs == off[i]
             bz == rs[i+1][3]
             be == bs + bz
             so == rs[i+1][2]
             id == rs[i+1][1]
         IN IF re <= bs THEN acc
            ELSE LET seg == IF rst >= bs /\ re <= be THEN << <<id, so + (rst - bs), re - rst>> >>
                            ELSE IF rst >= bs /\ re > be THEN << <<id, so + (rst - bs), be - rst>> >>
                            ELSE IF rst < bs /\ re > be THEN << <<id, so, bz>> >>
                            ELSE IF rst < bs /\ re <= be THEN << <<id, so, re - bs>> >>
                            ELSE <<>>
                 IN PyLoop(rs, off, i + 1, rst, re, acc \o seg)
PyLR(rs, start, n) ==                                     \* locators_and_ranges(data_locators, start, n)
    IF n = 0 THEN <<>>
    ELSE LET off == RangeOffsets(rs)
             i   == PyFirstBlock(off, Len(rs), start)
         IN IF i = -1 THEN <<>>                            \* first_block returned None
            ELSE PyLoop(rs, off, i, start, start + n, <<>>)
StreamRanges(s) == [i \in DOMAIN s.blocks |-> <<s.blocks[i], 0, Size(s.blocks[i])>>]   \* _import_manifest
PyToken(s, t) == PyLR(StreamRanges(s), t.pos, t.len)
\* ArvadosFile._segments after add_segment for every token called f (zero-size entries are kept)
PyFile(s, f) == LET F[k \in 0 .. Len(s.toks)] ==
                        IF k = 0 THEN <<>>
                        ELSE F[k-1] \o (IF s.toks[k].name = f THEN PyToken(s, s.toks[k]) ELSE <<>>)
                IN F[Len(s.toks)]
PyReadFrom(s, f, start, n) == PyLR(PyFile(s, f), start, n)                            \* arvfile readfrom

(***************************************************************************)
(* escapers / unescapers over byte sequences                               *)
(***************************************************************************)
IsDec(c) == c >= 48 /\ c <= 57
Digit(c, dec) == IF dec THEN IsDec(c) ELSE IsOct(c)
MapBytes(n, f(_)) == LET F[i \in 0 .. Len(n)] == IF i = 0 THEN <<>> ELSE F[i-1] \o f(n[i])
                     IN F[Len(n)]

GoManEscape(n) == LET f(c) == IF c <= 32 \/ c = BS THEN Oct3(c) ELSE <<c>> IN MapBytes(n, f)     \* EscapeName (since bc06505)
OldGoManEscape(n) == LET f(c) == IF c <= 32 THEN Oct3(c) ELSE <<c>> IN MapBytes(n, f)           \* HISTORY: before bc06505 (KF-C10-2, fixed)
\* manifestEscape (since 6bfe9ac): control codes and space, DEL, ':' and '\', and every byte that is not part of
\* a valid UTF-8 sequence (utf8.DecodeRuneInString returns RuneError, 1) are written as \ooo
\* (Cont, Utf8Len: Manifest.tla)
RECURSIVE GoFsEscFrom(_, _)
GoFsEscFrom(n, i) ==
    IF i > Len(n) THEN <<>>
    ELSE LET c == n[i]  sz == Utf8Len(n, i)
         IN IF c <= 32 \/ c = 127 \/ c = COLON \/ c = BS \/ sz = 0
            THEN Oct3(c) \o GoFsEscFrom(n, i + 1)
            ELSE SubSeq(n, i, i + sz - 1) \o GoFsEscFrom(n, i + sz)
GoFsEscape(n)  == GoFsEscFrom(n, 1)
PyEscape(n)    == LET f1(c) == IF c = BS THEN Oct3(BS) ELSE <<c>>                                \* escape(): two passes
                      f2(c) == IF c <= 32 \/ c = COLON THEN Oct3(c) ELSE <<c>>
                  IN MapBytes(MapBytes(n, f1), f2)

\* regexp `\\([0-9]{3}|\\)` (digits = IsDec) / `\\([0-7]{3}|\\)` (digits = IsOct), leftmost, non-overlapping
RECURSIVE GoUnescFrom(_, _, _)
GoUnescFrom(t, i, dec) ==      \* dec: the digit class is [0-9] (manifest.go) rather than [0-7] (fs_collection.go)
    IF i > Len(t) THEN <<>>
    ELSE IF t[i] = BS /\ i + 3 <= Len(t) /\ Digit(t[i+1], dec) /\ Digit(t[i+2], dec) /\ Digit(t[i+3], dec)
         THEN (IF IsOct(t[i+1]) /\ IsOct(t[i+2]) /\ IsOct(t[i+3]) /\ OctVal(t[i+1], t[i+2], t[i+3]) <= 255
               THEN <<OctVal(t[i+1], t[i+2], t[i+3])>>
               ELSE SubSeq(t, i, i + 3))                      \* ParseUint failed: "can't unescape"
              \o GoUnescFrom(t, i + 4, dec)
    ELSE IF t[i] = BS /\ i + 1 <= Len(t) /\ t[i+1] = BS
         THEN <<BS>> \o GoUnescFrom(t, i + 2, dec)
    ELSE <<t[i]>> \o GoUnescFrom(t, i + 1, dec)
GoManUnescape(t) == GoUnescFrom(t, 1, TRUE)
GoFsUnescape(t)  == GoUnescFrom(t, 1, FALSE)

\* collection.py _unescape_manifest_path: `\\([0-3][0-7][0-7])`
RECURSIVE PyUnescFrom(_, _)
PyUnescFrom(t, i) ==
    IF i > Len(t) THEN <<>>
    ELSE IF t[i] = BS /\ i + 3 <= Len(t) /\ t[i+1] >= 48 /\ t[i+1] <= 51 /\ IsOct(t[i+2]) /\ IsOct(t[i+3])
         THEN <<OctVal(t[i+1], t[i+2], t[i+3])>> \o PyUnescFrom(t, i + 4)
         ELSE <<t[i]>> \o PyUnescFrom(t, i + 1)
PyUnescape(t) == PyUnescFrom(t, 1)

(***************************************************************************)
(* The former known-finding classes.  None is an exclusion any more: the   *)
(* defects they describe are fixed in the code and in this model; they     *)
(* serve OldSearchWasWrong / OldEscapeWasWrong / OldLoaderWasWrong and the  *)
(* labelling done by checks/C10.py.                                        *)
(***************************************************************************)
ZStart(s, t) == /\ t.len > 0
                /\ \E i \in DOMAIN s.blocks : /\ Size(s.blocks[i]) = 0
                                              /\ BlockStart(s.blocks, i) = t.pos
                                              /\ \E j \in DOMAIN s.blocks : j > i /\ Size(s.blocks[j]) > 0
\* a non-empty token that covers the stream offset of a zero-length block strictly inside its span: the Python
\* file then has a zero-size range inside and first_block fails for reads starting there
ZSpan(s, t) == \E i \in DOMAIN s.blocks : /\ Size(s.blocks[i]) = 0
                                           /\ t.pos < BlockStart(s.blocks, i)
                                           /\ BlockStart(s.blocks, i) < t.pos + t.len
\* KF_C10_3 (fixed by 64bfb12): an empty token positioned strictly inside a block: loadManifest appended a
\* zero-length storedSegment, at which a positioned read (Seek + Read) stopped with io.EOF
ZSeg(s, t) == /\ t.len = 0
              /\ \E i \in DOMAIN s.blocks : /\ BlockStart(s.blocks, i) < t.pos
                                            /\ t.pos < BlockStart(s.blocks, i) + Size(s.blocks[i])
BsOct(n) == \E i \in DOMAIN n : EscapeAt(n, i)

(***************************************************************************)
(* Scenario space                                                          *)
(***************************************************************************)
SeqsUpTo(S, n) == UNION {[1 .. k -> S] : k \in 1 .. n}
TokensFor(total) == IF WholeOnly THEN {[pos |-> 0, len |-> total, name |-> f] : f \in FileNames} ELSE
                    UNION {{[pos |-> p, len |-> l, name |-> f] : l \in 0 .. (total - p), f \in FileNames} :
                           p \in 0 .. total}

(* A behaviour opens a stream (name + blocks) and then gives it its file   *)
(* tokens, so every reachable state whose last stream has tokens is one    *)
(* scenario, and TLC's workers share the enumeration.                      *)
Init == sc = [streams |-> <<>>]
Complete == sc.streams # <<>> /\ sc.streams[Len(sc.streams)].toks # <<>>
OpenStream ==
    /\ Len(sc.streams) < MaxStreams
    /\ sc.streams = <<>> \/ Complete
    /\ \E d \in StreamNames : \E bl \in SeqsUpTo(BlockIds, MaxBlocks) :
          sc' = [streams |-> Append(sc.streams, [name |-> d, blocks |-> bl, toks |-> <<>>])]
AddTokens ==
    /\ sc.streams # <<>> /\ ~Complete
    /\ LET n  == Len(sc.streams)
           bl == sc.streams[n].blocks
       IN \E tk \in SeqsUpTo(TokensFor(SumSizes(bl, Len(bl))), MaxToks) :
            LET mm == [sc.streams EXCEPT ![n].toks = tk]
            IN /\ NoConflicts(mm)
               /\ sc' = [streams |-> mm]
Next == OpenStream \/ AddTokens
Spec == Init /\ [][Next]_vars

(***************************************************************************)
(* What TLC checks (MC_C10*.cfg)                                           *)
(***************************************************************************)
NonEmpty(segs) == SelectSeq(segs, LAMBDA x : x[3] > 0)

GeneratorValid == Complete => ValidManifest(sc.streams) /\ \A i \in DOMAIN sc.streams :
                      /\ Unambiguous(sc.streams[i].name)
                      /\ \A k \in DOMAIN sc.streams[i].toks : Unambiguous(sc.streams[i].toks[k].name)

\* the model of loadManifest computes the format's segments for every token, and never reports an error
GoFsRefines == \A i \in DOMAIN sc.streams :
    LET s == sc.streams[i]  r == GoFsStream(s)
    IN \A k \in DOMAIN s.toks : ~r[k].err /\ NonEmpty(r[k].segs) = Segments(s, s.toks[k])

\* the model of firstBlock + sendFileSegmentIterByName does too, and never panics
GoManRefines == \A i \in DOMAIN sc.streams :
    LET s == sc.streams[i]
    IN \A k \in DOMAIN s.toks :
         LET r == GoManToken(s, s.toks[k])
         IN ~r.panic /\ NonEmpty(r.segs) = Segments(s, s.toks[k])

\* and so does the model of first_block + locators_and_ranges
PyRefines == \A i \in DOMAIN sc.streams :
    LET s == sc.streams[i]
    IN \A k \in DOMAIN s.toks : NonEmpty(PyToken(s, s.toks[k])) = Segments(s, s.toks[k])

\* file level: every sub-range of every file, read the way arvfile.readfrom does
FileNamesOf(s) == {s.toks[k].name : k \in DOMAIN s.toks}
WantBytes(s, f) == LET F[k \in 0 .. Len(s.toks)] ==
                           IF k = 0 THEN <<>>
                           ELSE F[k-1] \o (IF s.toks[k].name = f THEN Segments(s, s.toks[k]) ELSE <<>>)
                   IN Flatten(F[Len(s.toks)])
PyReadRefines == \A i \in DOMAIN sc.streams :
    LET s == sc.streams[i]
    IN \A f \in FileNamesOf(s) :
         LET want == WantBytes(s, f)
         IN \A start \in 0 .. Len(want) - 1 : \A n \in 1 .. Len(want) - start :
                    Flatten(NonEmpty(PyReadFrom(s, f, start, n))) = SubSeq(want, start + 1, start + n)

\* file level: a positioned one-byte read at every offset of every file through filenode.seek/Read
GoFsReadRefines == \A i \in DOMAIN sc.streams :
    LET s == sc.streams[i]
    IN \A f \in FileNamesOf(s) :
         LET want == WantBytes(s, f)
             file == GoFsFile(s, f)
         IN /\ \A j \in DOMAIN file : file[j][3] > 0                 \* "filenode.seek/Read assume none exist"
            /\ \A o \in 0 .. Len(want) - 1 : GoFsReadByte(file, Len(want), o) = want[o + 1]

\* all unescapers read the generator's names the way the format does
UnescapersAgree == \A t \in FileNames \cup StreamNames :
    /\ GoManUnescape(t) = Unescape(t) /\ GoFsUnescape(t) = Unescape(t) /\ PyUnescape(t) = Unescape(t)

\* what manifestEscape writes may stand in a manifest: no blanks, no control codes, valid UTF-8
GoFsEscapeClean == \A n \in PlainNames :
    LET e == GoFsEscape(n) IN RawOK(e) /\ \A i \in DOMAIN e : e[i] < 128 \/ Utf8Len(e, i) > 0 \/ Cont(e[i])

\* escapers round-trip (through the format's reading AND through the codec's own unescaper)
EscapersRoundTrip == \A n \in PlainNames :
    /\ Unescape(RefEscape(n)) = n
    /\ Unescape(GoFsEscape(n)) = n /\ GoFsUnescape(GoFsEscape(n)) = n
    /\ Unescape(PyEscape(n)) = n /\ PyUnescape(PyEscape(n)) = n
    /\ Unescape(GoManEscape(n)) = n /\ GoManUnescape(GoManEscape(n)) = n

\* HISTORY, checkable: the old search failed only inside ZStart (stream level), and the old EscapeName
\* exactly on BsOct names.  (Negate SomeOldSearchFailure once to see that the class is inhabited.)
OldSearchWasWrong == \A i \in DOMAIN sc.streams :
    LET s == sc.streams[i]
    IN \A k \in DOMAIN s.toks :
         LET t == s.toks[k]  off == Offsets(s.blocks)
         IN t.len > 0 /\ OldFirstBlock(off, Len(s.blocks), t.pos) # GoFirstBlock(off, Len(s.blocks), t.pos) => ZStart(s, t)
SomeOldSearchFailure == \E i \in DOMAIN sc.streams : \E k \in DOMAIN sc.streams[i].toks :
    LET s == sc.streams[i]  t == s.toks[k]
    IN t.len > 0 /\ OldFirstBlock(Offsets(s.blocks), Len(s.blocks), t.pos) = -1
OldEscapeWasWrong == \A n \in PlainNames : (Unescape(OldGoManEscape(n)) # n) <=> BsOct(n)
\* ... and the old loader (zero-length segments kept) misread a file only when one of its tokens is in ZSeg
OldLoaderWasWrong == \A i \in DOMAIN sc.streams :
    LET s == sc.streams[i]
    IN \A f \in FileNamesOf(s) :
         LET want == WantBytes(s, f)
             old  == GoFsFileK(s, f, TRUE)
         IN (\E o \in 0 .. Len(want) - 1 : GoFsReadByte(old, Len(want), o) # want[o + 1])
               => \E k \in DOMAIN s.toks : s.toks[k].name = f /\ ZSeg(s, s.toks[k])
SomeOldLoaderFailure == \E i \in DOMAIN sc.streams : \E f \in FileNamesOf(sc.streams[i]) :
    LET s == sc.streams[i]  want == WantBytes(s, f)
    IN \E o \in 0 .. Len(want) - 1 : GoFsReadByte(GoFsFileK(s, f, TRUE), Len(want), o) # want[o + 1]

\* The range checks of the two Go parsers, over machine integers that wrap around at W (uint64: W = 2^64;
\* int64: values 0 .. W-1 non-negative, a sum >= W is negative).  TLC integers are 32 bit, so W is small
\* here; the argument does not depend on its value.
W == 16
Wrap(x) == x % W
\* parseManifestStream since 600e812: reject iff SegLen > streamoffset || SegPos > streamoffset-SegLen
GoManRangeReject(pos, len, total) == len > total \/ pos > total - len
OldGoManRangeReject(pos, len, total) == Wrap(pos + len) > total                  \* HISTORY (KF-C10-5, fixed)
\* loadManifest since 70b8032: reject iff offset > MaxInt64-length, else whatever the scan decides, which
\* for a sum that did not wrap is "pos < offset+length at the end of the stream"
GoFsRangeReject(pos, len, total) == pos > (W - 1) - len \/ total < pos + len
OldGoFsRangeReject(pos, len, total) == IF pos + len >= W THEN FALSE ELSE total < pos + len   \* HISTORY (KF-C10-6, fixed): a negative end is never "past the end"
RangeChecksExact == \A total \in 0 .. W - 1 : \A pos \in 0 .. W - 1 : \A len \in 0 .. W - 1 :
    /\ GoManRangeReject(pos, len, total) <=> (pos + len > total)
    /\ GoFsRangeReject(pos, len, total) <=> (pos + len > total)
OldRangeChecksWrong == /\ \E total, pos, len \in 0 .. W - 1 : pos + len > total /\ ~OldGoManRangeReject(pos, len, total)
                       /\ \E total, pos, len \in 0 .. W - 1 : pos + len > total /\ ~OldGoFsRangeReject(pos, len, total)

\* Both Go parsers accept a first token as stream name iff, unescaped, it is "." or starts with "./"
\* (parseManifestStream always did; loadManifest since ecab3b5 - KF-C10-4, fixed)
StreamNameAccepted(t, unesc(_)) == LET u == unesc(t) IN u = <<DOT>> \/ (Len(u) >= 2 /\ u[1] = DOT /\ u[2] = SL)
StreamNameChecks ==
    /\ \A t \in StreamNames : StreamNameAccepted(t, GoFsUnescape) /\ StreamNameAccepted(t, GoManUnescape)
    /\ \A t \in {<<100, 52, 49>>, <<DOT, DOT>>, <<SL, 97>>, <<97>>, <<DOT, 97>>} :      \* a locator-like token, "..", "/a", "a", ".a"
           ~StreamNameAccepted(t, GoFsUnescape) /\ ~StreamNameAccepted(t, GoManUnescape)

\* The one place where the codecs disagree and the format document decides nothing (see ManifestContract,
\* "silent"): two consecutive backslashes in manifest text.  Recorded so that a change of either reading shows.
DoubleBackslashReadings == /\ GoManUnescape(<<BS, BS>>) = <<BS>> /\ GoFsUnescape(<<BS, BS>>) = <<BS>>
                           /\ PyUnescape(<<BS, BS>>) = <<BS, BS>> /\ Unescape(<<BS, BS>>) = <<BS, BS>>
                           /\ GoManUnescape(<<BS, BS, 49, 48, 49>>) = <<BS, 49, 48, 49>>     \* \\101 : Go "\101"
                           /\ PyUnescape(<<BS, BS, 49, 48, 49>>) = <<BS, 65>>               \*          Python "\A"

(***************************************************************************)
(* Scenario emission (Gen_C10*.cfg): the record is the input; the expected *)
(* outcome is recomputed by the judge from the same operators.             *)
(***************************************************************************)
Emit == Complete => Serialize(<<[streams |-> sc.streams]>>, IOEnv.VERIF_OUT,
                  [format |-> "NDJSON", charset |-> "UTF-8", openOptions |-> <<"WRITE", "CREATE", "APPEND">>])
=============================================================================
