\* C17 design-level check (quick): Walk = Expected, 9 link targets x 2 mount configurations x 2 secret roots
SPECIFICATION Spec
CONSTANTS
  TargetIds = {1, 3, 4, 7, 9, 10, 12, 13, 15}
  MountCfgIds = {5, 8}
  SecretIds = {2, 4}
INVARIANTS WalkRefinesExpected
CHECK_DEADLOCK FALSE
