\* C17 design-level check (quick): Walk = Expected: every tree over 5 candidate paths x 9 link targets x 2 mount modes x 2 secret modes
SPECIFICATION Spec
CONSTANTS
  TargetIds = {1, 3, 4, 7, 9, 10, 12, 13, 15}
  MountModes = {"outside", "beneath"}
  SecretModes = {"outside", "beneath"}
INVARIANTS WalkRefinesExpected
CHECK_DEADLOCK FALSE
