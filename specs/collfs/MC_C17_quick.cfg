\* C17 design-level check (quick): Walk = Expected
SPECIFICATION Spec
CONSTANTS
  TargetIds = {1, 3, 4, 7, 9, 10, 12, 13, 15}
  MountCfgIds = {2, 3, 5, 6}
  SecretIds = {2, 4}
INVARIANTS WalkRefinesExpected
CHECK_DEADLOCK FALSE
