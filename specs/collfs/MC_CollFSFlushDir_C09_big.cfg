SPECIFICATION Spec
CONSTANTS
  Bs = {2, 4}
  MaxOps = 4
  AllowFail = TRUE
  Eager = FALSE
  MaxHist = 0
VIEW view
INVARIANTS ContentOK NoCrossDir ScopeOK PackOK StoredDirOK ClaimOK
PROPERTIES Untouched
CHECK_DEADLOCK TRUE
