SPECIFICATION GenSpec
CONSTANTS
  MaxOps = 6
  AllFlags = FALSE
  MaxSize = 2
  MaxH = 1
  MaxIno = 3
VIEW view
INVARIANTS TreeOK SizeOK Emit
CHECK_DEADLOCK FALSE
