\* C10 scenarios, names and multi-stream paths: 1..2 streams x 1 block x the whole-stream token, every name of the pool
SPECIFICATION Spec
CONSTANTS
  MaxStreams = 2
  MaxBlocks = 1
  BlockIds <- Ids1
  MaxToks = 1
  FileNames <- NamesAll
  StreamNames <- StreamsAll
  PlainNames <- PlainAll
  WholeOnly = TRUE
INVARIANTS Emit
CHECK_DEADLOCK FALSE
