\* C17 scenarios (thorough): every tree over 5 candidate paths x 19 link targets x 9 mount configurations x 4 secret roots
SPECIFICATION Spec
CONSTANTS
  TargetIds = {1, 3, 4, 5, 7, 8, 9, 10, 11, 12, 13, 14, 15, 16, 17, 18, 19, 20, 21, 22, 23}
  MountCfgIds = {1, 2, 3, 4, 5, 6, 7, 8, 9, 10, 11}
  SecretIds = {1, 2, 3, 4}
INVARIANTS Emit
CHECK_DEADLOCK FALSE
