\* C17 scenarios (thorough): every tree over 5 candidate paths x 14 link targets x 3 mount modes x 3 secret modes
SPECIFICATION Spec
CONSTANTS
  TargetIds = {1, 3, 4, 5, 7, 8, 9, 10, 11, 12, 13, 14, 15, 16}
  MountModes = {"none", "outside", "beneath"}
  SecretModes = {"none", "outside", "beneath"}
INVARIANTS Emit
CHECK_DEADLOCK FALSE
