----------------------------- MODULE OutputCopy -----------------------------
(***************************************************************************)
(* C17 - a container's saved output is exactly what it left in its output  *)
(* directory (lib/crunchrun/copier.go).                                    *)
(*                                                                         *)
(* World of one scenario (sc):                                             *)
(*   the container's output directory /out (a "tmp" mount) holds a tree:   *)
(*   a function from paths to nodes; a node is absent, a directory, a      *)
(*   regular file (with a content id) or a symbolic link with a relative   *)
(*   or absolute target (the generator uses five candidate paths and a     *)
(*   list of targets, the judge accepts any tree: random larger ones too); *)
(*   optionally a read-only collection mount at sc.mroot (outside: /mnt;    *)
(*   beneath the output path: /out/m; or beneath a subdirectory of it:     *)
(*   /out/a/m, so that a link to /out/a must bring the mounted content     *)
(*   along) showing the subtree sc.mpath ("" or one      *)
(*   directory: arvados.Mount.Path) of the collection whose manifest is    *)
(*   sc.mount (one of MountFamily: among them directories whose names are  *)
(*   prefixes of one another), and a secret mount at sc.sec (outside:      *)
(*   /sec; beneath: /out/s; or deeper: /out/a/s, reachable through links   *)
(*   to its parent directory).                                             *)
(* Names are byte sequences, container paths are sequences of names (the   *)
(* root is <<>>), collection paths are the byte sequences of Manifest.tla. *)
(*                                                                         *)
(* Two descriptions of what the output collection must contain:            *)
(*  Expected  (CONTRACT, from the statement): follow links wherever they   *)
(*            lead; a link that is met again on the way down from the root *)
(*            is a cycle (error); a link leaving every mount or pointing   *)
(*            at nothing is an error; secrets vanish; collection content   *)
(*            is taken by reference; an empty directory stays.             *)
(*  Walk      (IMPLEMENTATION-SHAPED, copier.go walkMount / walkHostFS /   *)
(*            walkMountsBelow): the same descent with a symlink budget     *)
(*            (limitFollowSymlinks = 10, "maxSymlinks < 0" test) instead   *)
(*            of cycle detection, the secret/mount precedence rule of      *)
(*            walkMount, mounts below the source handled by a loop, the    *)
(*            mount point entries skipped in the directory listing.        *)
(* TLC checks Walk = Expected for every tree of the bounded space          *)
(* (WalkRefinesExpected), and the judge checks the manifest returned by    *)
(* the real copier.Copy against Expected (CopyOK).                         *)
(*                                                                         *)
(* Clauses of the statement (properties.jsonl C17):                        *)
(*  "the output collection ... contains exactly the same paths with        *)
(*   exactly the same bytes when read back"       CopyOK: FilesOK          *)
(*  "nested and empty directories"                CopyOK: EmptyDirsOK      *)
(*  "mounted-collection content included by reference to its existing      *)
(*   blocks"          expected bytes of such files are atoms of the mount's *)
(*                    blocks; data in newly written blocks resolves to     *)
(*                    atoms marked new (id + 10000)                        *)
(*  "Secret mounts never appear in the output"    Expected omits them; a   *)
(*                    LINK into a secret mount may be omitted or make the  *)
(*                    copy fail (Expected.sec), nothing else               *)
(*  "links that lead outside every mount or form cycles make the copy fail *)
(*   instead of being silently dropped or followed forever"                *)
(*                        CopyOK: Expected.err /\ Expected.hard => error;  *)
(*                        ~Expected.err => ok (the output must be saved)   *)
(* DRIFT-ONLY (a trace failing only this is reported as DRIFT):            *)
(*   CopyDriftOK  a link whose target names nothing at all (dangling)      *)
(*                makes the copy fail as well - the copier does that       *)
(*                (lstat), the statement does not speak of it; a link into *)
(*                a secret mount is omitted silently (the copier's         *)
(*                documented choice) rather than failing the copy          *)
(* Not judged (statement silent / generator avoids): a link whose target   *)
(* path passes THROUGH another link, a link to a path that does not exist  *)
(* inside a collection mount, whether a directory whose only entries were  *)
(* omitted secrets is kept, special files, writable collection mounts.     *)
(***************************************************************************)
EXTENDS Manifest, TLC, Json, IOUtils

A == <<97>>   B == <<98>>   X == <<120>>   Y == <<121>>
OUT == <<111, 117, 116>>   MNT == <<109, 110, 116>>   M == <<109>>   S == <<115>>   SECRET == <<115, 101, 99>>
K == <<107>>  ETC == <<101, 116, 99>>  F == <<102>>  D == <<100>>  H == <<104>>  G == <<103>>
UP == <<DOT, DOT>>

(* The mounted collections.  M1: ./f = 3 bytes of block 103 ++ 1 byte of   *)
(* block 202; ./g empty; ./d/h = the last byte of 202 and block 103 again. *)
(* M2: three directories d, d1, d1/e - the name of the first is a prefix   *)
(* of the name of the second (Extract("./d") must not take ./d1 along).    *)
D1 == D \o <<49>>   E == <<101>>   J == <<106>>
MountFamily ==
    << << [name |-> <<DOT>>, blocks |-> <<103, 0, 202>>,
           toks |-> << [pos |-> 0, len |-> 4, name |-> F], [pos |-> 1, len |-> 0, name |-> G] >>],
          [name |-> <<DOT, SL>> \o D, blocks |-> <<202, 103>>,
           toks |-> << [pos |-> 1, len |-> 4, name |-> H] >>] >>,
       << [name |-> <<DOT, SL>> \o D, blocks |-> <<103>>,
           toks |-> << [pos |-> 0, len |-> 3, name |-> H] >>],
          [name |-> <<DOT, SL>> \o D1, blocks |-> <<202>>,
           toks |-> << [pos |-> 0, len |-> 2, name |-> K] >>],
          [name |-> <<DOT, SL>> \o D1 \o <<SL>> \o E, blocks |-> <<202, 103>>,
           toks |-> << [pos |-> 1, len |-> 3, name |-> J] >>] >>,
       \* M3: names that are not UTF-8 (a Latin-1 byte, 0xFF), written in the manifest text as \351 and \377:
       \* the saved output must have exactly these paths, byte for byte
       << [name |-> <<DOT>>, blocks |-> <<103>>,
           toks |-> << [pos |-> 0, len |-> 3, name |-> <<BS, 51, 53, 49>>] >>],
          [name |-> <<DOT, SL, 100, BS, 51, 55, 55>>, blocks |-> <<202>>,
           toks |-> << [pos |-> 0, len |-> 2, name |-> H] >>] >> >>
LAT == <<233>>   DFF == <<100, 255>>
(* mount configurations [mode, fam, mpath] and secret roots to choose from *)
MountCfgs == << [mroot |-> <<>>,          fam |-> 1, mpath |-> <<>>],       \* 1  no collection mount
                [mroot |-> <<MNT>>,       fam |-> 1, mpath |-> <<>>],       \* 2  outside the output path
                [mroot |-> <<OUT, M>>,    fam |-> 1, mpath |-> <<>>],       \* 3  directly beneath it
                [mroot |-> <<MNT>>,       fam |-> 2, mpath |-> <<>>],       \* 4
                [mroot |-> <<MNT>>,       fam |-> 2, mpath |-> <<D>>],      \* 5  /mnt shows ./d only
                [mroot |-> <<OUT, M>>,    fam |-> 2, mpath |-> <<D>>],      \* 6  /out/m shows ./d only
                [mroot |-> <<OUT, M>>,    fam |-> 2, mpath |-> <<>>],       \* 7
                [mroot |-> <<OUT, A, M>>, fam |-> 1, mpath |-> <<>>],       \* 8  beneath the subdirectory /out/a: reached
                [mroot |-> <<OUT, A, M>>, fam |-> 2, mpath |-> <<D>>],      \* 9  again through every link to /out/a
                [mroot |-> <<OUT, M>>,    fam |-> 3, mpath |-> <<>>],       \* 10 non-UTF-8 names, beneath
                [mroot |-> <<MNT>>,       fam |-> 3, mpath |-> <<>>] >>     \* 11 non-UTF-8 names, outside (through links)
SecretRoots == << <<>>, <<SECRET>>, <<OUT, S>>, <<OUT, A, S>> >>        \* none, outside, beneath, deeper (below /out/a)

(* candidate paths below /out, and the content id of the file at each      *)
Cands == {<<A>>, <<B>>, <<A, X>>, <<A, Y>>, <<B, X>>}
ContentOf(p) == CASE p = <<A>> -> 302 [] p = <<B>> -> 0 [] p = <<A, X>> -> 401 [] p = <<A, Y>> -> 503 [] p = <<B, X>> -> 302
                  [] OTHER -> 0

(* link targets: [abs, comps]                                              *)
Targets == << [abs |-> FALSE, comps |-> <<X>>],              \* 1  sibling x (self loop for a/x, b/x)
              [abs |-> FALSE, comps |-> <<Y>>],              \* 2
              [abs |-> FALSE, comps |-> <<UP, B>>],          \* 3  ../b
              [abs |-> FALSE, comps |-> <<UP>>],             \* 4  ..   (the parent: a cycle from inside)
              [abs |-> FALSE, comps |-> <<B>>],              \* 5  b (from the top level)
              [abs |-> FALSE, comps |-> <<A, X>>],           \* 6  a/x
              [abs |-> TRUE,  comps |-> <<OUT, A>>],         \* 7  /out/a
              [abs |-> TRUE,  comps |-> <<OUT, B, X>>],      \* 8  /out/b/x
              [abs |-> TRUE,  comps |-> <<MNT, F>>],         \* 9  a file of the collection mounted outside
              [abs |-> TRUE,  comps |-> <<MNT, D>>],         \* 10 a directory of it
              [abs |-> TRUE,  comps |-> <<MNT>>],            \* 11 all of it
              [abs |-> TRUE,  comps |-> <<OUT, M, D, H>>],   \* 12 a file of the collection mounted beneath
              [abs |-> TRUE,  comps |-> <<SECRET, K>>],      \* 13 into a secret mount
              [abs |-> TRUE,  comps |-> <<OUT, S>>],         \* 14 the secret mounted beneath
              [abs |-> TRUE,  comps |-> <<ETC, K>>],         \* 15 outside every mount
              [abs |-> FALSE, comps |-> <<UP, UP, ETC>>],    \* 16 ../../etc: escapes upwards
              [abs |-> TRUE,  comps |-> <<MNT, D1>>],        \* 17 the directory whose name extends d's
              [abs |-> TRUE,  comps |-> <<OUT, M>>],         \* 18 the mount point beneath
              [abs |-> TRUE,  comps |-> <<OUT, A, S>>],      \* 19 the deeper secret itself
              [abs |-> TRUE,  comps |-> <<MNT, H>>],         \* 20 a file of ./d when only ./d is mounted
              [abs |-> TRUE,  comps |-> <<OUT, A, M>>],      \* 21 the mount point beneath /out/a
              [abs |-> TRUE,  comps |-> <<MNT, LAT>>],       \* 22 the file whose name is the byte 0xE9
              [abs |-> TRUE,  comps |-> <<MNT, DFF>>] >>     \* 23 the directory "d" 0xFF

CONSTANTS TargetIds,      \* subset of DOMAIN Targets used by this configuration
          MountCfgIds,    \* subset of DOMAIN MountCfgs
          SecretIds       \* subset of DOMAIN SecretRoots

VARIABLE sc               \* [tree : paths -> node, mroot, mpath, mount, sec, done];  node = [k, c, abs, tg]
vars == <<sc>>                \*   k kind, c content id of a file, abs/tg target of a link (tg: components, UP = "..")

SecretBelowOut == sc.sec # <<>> /\ Head(sc.sec) = OUT /\ Len(sc.sec) > 1
MountBelowOut == sc.mroot # <<>> /\ Head(sc.mroot) = OUT /\ Len(sc.mroot) > 1
ParentIsDir(p) == LET q == SubSeq(p, 1, Len(p) - 1) IN q \in DOMAIN sc.tree /\ sc.tree[q].k = "dir"
Mk(k, c, abs, tg) == [k |-> k, c |-> c, abs |-> abs, tg |-> tg]
None    == Mk("none", 0, FALSE, <<>>)
DirNode == Mk("dir", 0, FALSE, <<>>)
Node(p) == IF p = <<>> THEN DirNode                                                \* the output directory itself
           ELSE IF p \in DOMAIN sc.tree THEN sc.tree[p]
           ELSE IF MountBelowOut /\ p = Tail(sc.mroot) /\ (Len(p) = 1 \/ ParentIsDir(p)) THEN DirNode   \* mount point
           ELSE IF SecretBelowOut /\ p = Tail(sc.sec) /\ (Len(p) = 1 \/ ParentIsDir(p))
                THEN Mk("file", 0, FALSE, <<>>)                                    \* bind-mounted secret file
           ELSE None
AllHost == DOMAIN sc.tree \cup (IF MountBelowOut THEN {Tail(sc.mroot)} ELSE {}) \cup (IF SecretBelowOut THEN {Tail(sc.sec)} ELSE {})
LinkTarget(n) == [abs |-> n.abs, comps |-> n.tg]
Parent(p) == SubSeq(p, 1, Len(p) - 1)
Children(p) == {q \in AllHost : Len(q) = Len(p) + 1 /\ Parent(q) = p /\ Node(q).k # "none"}

MountRoot  == sc.mroot
SecretRoot == sc.sec
MountManifest == sc.mount
MountPath == sc.mpath                                   \* arvados.Mount.Path: the subtree of the collection that is mounted

RECURSIVE Clean(_, _)
Clean(comps, acc) ==                                         \* filepath.Join / path.Clean on components
    IF comps = <<>> THEN acc
    ELSE IF Head(comps) = UP THEN Clean(Tail(comps), IF acc = <<>> THEN <<>> ELSE SubSeq(acc, 1, Len(acc) - 1))
    ELSE IF Head(comps) = <<DOT>> THEN Clean(Tail(comps), acc)
    ELSE Clean(Tail(comps), Append(acc, Head(comps)))
\* the container path a link at container path src points to
TargetPath(src, t) == IF t.abs THEN Clean(t.comps, <<>>) ELSE Clean(Parent(src) \o t.comps, <<>>)

\* collection path ("." / "./a/b") of a component sequence
RECURSIVE Slashed(_)
Slashed(comps) == IF comps = <<>> THEN <<>> ELSE <<SL>> \o Head(comps) \o Slashed(Tail(comps))
CollPath(comps) == <<DOT>> \o Slashed(comps)

(* Which mount a container path belongs to (walkMount): the innermost      *)
(* mount containing it; a secret mount wins only if it is deeper.          *)
Where(path) ==
    LET inOut == IsPrefix(<<OUT>>, path)
        inMnt == MountRoot # <<>> /\ IsPrefix(MountRoot, path)
        inSec == SecretRoot # <<>> /\ IsPrefix(SecretRoot, path)
        rootLen == IF inMnt THEN Len(MountRoot) ELSE IF inOut THEN 1 ELSE 0        \* innermost mount containing path
    IN IF inSec /\ Len(SecretRoot) > rootLen THEN [w |-> "secret", p |-> <<>>]
       ELSE IF rootLen = 0 THEN [w |-> "none", p |-> <<>>]
       ELSE IF inMnt /\ rootLen = Len(MountRoot)                      \* srcRelPath = Join(".", srcMount.Path, src[len(srcRoot):])
            THEN [w |-> "mnt", p |-> MountPath \o SubSeq(path, rootLen + 1, Len(path))]
       ELSE [w |-> "out", p |-> SubSeq(path, 2, Len(path))]

(* manifest.Extract semantics (doc comment of Extract) on the mount:       *)
(* entries for copying collection path src to dest                         *)
MountEntries(dest, src) ==
    LET mm == MountManifest
        s  == CollPath(src)
        d  == CollPath(dest)
    IN IF s \in Paths(mm)
       THEN {[dst |-> d, kind |-> "mfile", src |-> s]}                     \* a file: renamed to dest
       ELSE {[dst |-> d \o SubSeq(q, Len(s) + 1, Len(q)), kind |-> "mfile", src |-> q] :
                q \in {q \in Paths(mm) : IsPrefix(s \o <<SL>>, q)}}
MountHas(src) == LET s == CollPath(src) IN src = <<>> \/ s \in Paths(MountManifest)
                                           \/ \E q \in Paths(MountManifest) : IsPrefix(s \o <<SL>>, q)

(* A result is [err, hard, ents].  hard: the error is one the statement    *)
(* names (a link leaving every mount, a cycle); a "soft" error is a link   *)
(* (or path) naming nothing at all, about which the statement says nothing *)
(* - the copier fails there too (lstat), but that is not demanded.         *)
(* sec: a LINK into a secret mount was met; the statement only says that   *)
(* secrets never appear in the output, so such a link may be omitted (what *)
(* the copier does) or make the copy fail.                                 *)
OK(ents) == [err |-> FALSE, hard |-> FALSE, sec |-> FALSE, ents |-> ents]
Err     == [err |-> TRUE, hard |-> TRUE, sec |-> FALSE, ents |-> {}]
ErrSoft == [err |-> TRUE, hard |-> FALSE, sec |-> FALSE, ents |-> {}]
SecretLink == [err |-> FALSE, hard |-> FALSE, sec |-> TRUE, ents |-> {}]
Merge(rs) == IF \E r \in rs : r.err
             THEN [err |-> TRUE, hard |-> \E r \in rs : r.err /\ r.hard, sec |-> \E r \in rs : r.sec, ents |-> {}]
             ELSE [err |-> FALSE, hard |-> FALSE, sec |-> \E r \in rs : r.sec, ents |-> UNION {r.ents : r \in rs}]

(***************************************************************************)
(* CONTRACT: Expected                                                      *)
(***************************************************************************)
RECURSIVE Den(_, _, _)
\* dest, p: component sequences below the collection root / below /out; seen: links followed on the way down
Den(dest, p, seen) ==
    LET n == Node(p)
    IN CASE n.k = "none" -> ErrSoft                                        \* nothing there
         [] n.k = "file" -> OK({[dst |-> CollPath(dest), kind |-> "hfile", src |-> CollPath(p)]})
         [] n.k = "dir"  ->
              LET kids == {q \in Children(p) : Where(<<OUT>> \o q).w = "out"}       \* not mount points, not secrets
                  mp == Tail(sc.mroot)                                                \* the collection mounted in this directory
                  below == IF MountBelowOut /\ Parent(mp) = p
                           THEN {OK(MountEntries(dest \o <<mp[Len(mp)]>>, MountPath))} ELSE {}
              IN Merge({OK(IF dest = <<>> THEN {} ELSE
                              {[dst |-> CollPath(dest), kind |-> IF Children(p) = {} THEN "emptydir" ELSE "dir", src |-> CollPath(p)]})}
                       \cup {Den(dest \o <<q[Len(q)]>>, q, seen) : q \in kids} \cup below)
         [] n.k = "link" ->
              IF p \in seen THEN Err                                       \* met again on the way down: a cycle
              ELSE LET loc == Where(TargetPath(<<OUT>> \o p, LinkTarget(n)))
                   IN CASE loc.w = "secret" -> SecretLink
                        [] loc.w = "none"   -> Err
                        [] loc.w = "mnt"    -> IF MountHas(loc.p) THEN OK(MountEntries(dest, loc.p)) ELSE ErrSoft
                        [] loc.w = "out"    -> Den(dest, loc.p, seen \cup {p})
Expected == Den(<<>>, <<>>, {})

(***************************************************************************)
(* IMPLEMENTATION-SHAPED: copier.walkMount / walkHostFS / walkMountsBelow  *)
(***************************************************************************)
LimitFollowSymlinks == 10

RECURSIVE WalkHostFS(_, _, _, _), WalkMount(_, _, _, _)
WalkMountsBelow(dest, src) ==                                  \* src: container path
    IF MountRoot # <<>> /\ Len(MountRoot) > Len(src) /\ IsPrefix(src, MountRoot)
    THEN WalkMount(dest \o SubSeq(MountRoot, Len(src) + 1, Len(MountRoot)), MountRoot, 0, FALSE)
    ELSE OK({})
WalkMount(dest, src, maxSymlinks, below) ==
    LET loc == Where(src)
    IN CASE loc.w = "secret" -> SecretLink                                 \* "Silently omit secrets, and symlinks to secrets"
         [] loc.w = "none"   -> Err                                        \* "not in any mount"
         [] loc.w = "out"    -> WalkHostFS(dest, src, maxSymlinks, below)
         [] loc.w = "mnt"    ->                                            \* mft.Extract(srcRelPath, dest)
              Merge({OK(IF MountHas(loc.p) THEN MountEntries(dest, loc.p) ELSE {}),
                     IF below THEN WalkMountsBelow(dest, src) ELSE OK({})})
WalkHostFS(dest, src, maxSymlinks, includeMounts) ==
    LET p == SubSeq(src, 2, Len(src))
        n == Node(p)
        mb == IF includeMounts THEN WalkMountsBelow(dest, src) ELSE OK({})
    IN CASE n.k = "none" -> ErrSoft                                        \* lstat fails
         [] n.k = "link" ->
              IF maxSymlinks < 0 THEN Err                                  \* errTooManySymlinks
              ELSE Merge({mb, WalkMount(dest, TargetPath(src, LinkTarget(n)), maxSymlinks - 1, TRUE)})
         [] n.k = "dir"  ->
              LET kids == {q \in Children(p) : /\ <<OUT>> \o q # SecretRoot            \* "isSecret: continue"
                                               /\ <<OUT>> \o q # MountRoot}            \* "isMount: continue"
              IN Merge({mb,
                        OK(IF dest = <<>> THEN {} ELSE
                              {[dst |-> CollPath(dest), kind |-> IF Children(p) = {} THEN "emptydir" ELSE "dir", src |-> CollPath(p)]})}
                       \cup {WalkHostFS(dest \o <<q[Len(q)]>>, <<OUT>> \o q, maxSymlinks, FALSE) : q \in kids})
         [] n.k = "file" -> Merge({mb, OK({[dst |-> CollPath(dest), kind |-> "hfile", src |-> CollPath(p)]})})
Walk == WalkMount(<<>>, <<OUT>>, LimitFollowSymlinks, TRUE)

(***************************************************************************)
(* Scenario space                                                          *)
(***************************************************************************)
NodeChoices(p) == {None, DirNode, Mk("file", ContentOf(p), FALSE, <<>>)}
                  \cup {Mk("link", 0, Targets[i].abs, Targets[i].comps) : i \in TargetIds}
\* a mount point beneath the output path lies in a real directory (the container runtime creates it there)
MountPointOK(s) == (s.mroot # <<>> /\ Head(s.mroot) = OUT /\ Len(s.mroot) > 2) =>
                      LET d == SubSeq(s.mroot, 2, Len(s.mroot) - 1) IN d \in DOMAIN s.tree /\ s.tree[d].k = "dir"
WellFormed(tree) == \A p \in DOMAIN tree : Len(p) > 1 /\ tree[p].k # "none" =>
                        Parent(p) \in DOMAIN tree /\ tree[Parent(p)].k = "dir"
\* no link target passes THROUGH another link, and none names a path missing from a collection mount
\* (intermediate links are resolved by the host kernel, not by the copier; see header)
TargetsPlain(s) ==
    \A p \in DOMAIN s.tree : s.tree[p].k = "link" =>
        LET tp == TargetPath(<<OUT>> \o p, LinkTarget(s.tree[p]))
        IN /\ \A i \in 2 .. Len(tp) - 1 :
                 LET q == SubSeq(tp, 2, i) IN tp[1] = OUT /\ q \in DOMAIN s.tree => s.tree[q].k # "link"
           /\ Where(tp).w = "mnt" => MountHas(Where(tp).p)
LeafChoices(p) == {None, Mk("file", ContentOf(p), FALSE, <<>>)}
Below(n, choices) == IF n.k = "dir" THEN choices ELSE {None}
(* Two steps, so that TLC's workers share the enumeration: Init chooses the *)
(* mounts and the top-level entries, Fill chooses what is below them.      *)
Init == \E na \in NodeChoices(<<A>>), nb \in NodeChoices(<<B>>) : \E mc \in MountCfgIds : \E se \in SecretIds :
          sc = [tree |-> [p \in Cands |-> IF p = <<A>> THEN na ELSE IF p = <<B>> THEN nb ELSE None],
                mroot |-> MountCfgs[mc].mroot, mpath |-> MountCfgs[mc].mpath, mount |-> MountFamily[MountCfgs[mc].fam],
                sec |-> SecretRoots[se], done |-> FALSE]
Fill == /\ ~sc.done
        /\ \E nax \in Below(sc.tree[<<A>>], NodeChoices(<<A, X>>)) : \E nay \in Below(sc.tree[<<A>>], LeafChoices(<<A, Y>>)) :
           \E nbx \in Below(sc.tree[<<B>>], NodeChoices(<<B, X>>)) :
             LET tr == [sc.tree EXCEPT ![<<A, X>>] = nax, ![<<A, Y>>] = nay, ![<<B, X>>] = nbx]
                 s2 == [sc EXCEPT !.tree = tr, !.done = TRUE]
             IN /\ WellFormed(tr)
                /\ MountPointOK(s2)
                /\ TargetsPlain(s2)
                /\ sc' = s2
Next == Fill
Spec == Init /\ [][Next]_vars

WalkRefinesExpected == sc.done => Walk = Expected
\* non-vacuity helpers (negate once): errors, cycles, mounts and secrets do occur
SomeError == sc.done /\ Expected.err /\ \E e \in Cands : sc.tree[e].k = "link" /\ sc.tree[e].tg = <<UP>>
SomeMountFile == sc.done /\ \E e \in Expected.ents : e.kind = "mfile"
NoError == ~SomeError
NoMountFile == ~SomeMountFile

(***************************************************************************)
(* CONTRACT of the observable result: copier.Copy returned (kind, out, nb)  *)
(*   out : the returned manifest in the abstract syntax of Manifest.tla     *)
(*   nb  : the blocks written during the copy, each [id, segs] where segs   *)
(*         lists <<content id, offset, length>> of host file contents       *)
(***************************************************************************)
HostAtoms(cp) == LET c == Node(CHOOSE p \in AllHost : CollPath(p) = cp).c         \* cp: collection path of the host file
                IN [j \in 1 .. Size(c) |-> <<10000 + c, j - 1>>]
WantBytes(e) == IF e.kind = "hfile" THEN HostAtoms(e.src) ELSE Bytes(MountManifest, e.src)
NewBlockAtoms(nb, id) == LET b == CHOOSE x \in Range(nb) : x.id = id
                         IN LET fl == Flatten(b.segs) IN [j \in DOMAIN fl |-> <<10000 + fl[j][1], fl[j][2]>>]
Resolved(out, nb, path) ==
    LET bs == Bytes(out, path)
    IN [j \in DOMAIN bs |-> IF \E x \in Range(nb) : x.id = bs[j][1]
                            THEN NewBlockAtoms(nb, bs[j][1])[bs[j][2] + 1]
                            ELSE bs[j]]
IsKeep(path) == Base(path) = <<DOT, 107, 101, 101, 112>> \/ Base(path) = <<DOT>>      \* ".keep" (or a "." placeholder)

CopyOK(kind, out, nb) ==
    LET ex == Expected
        files == {e \in ex.ents : e.kind \in {"hfile", "mfile"}}
        real == {q \in Paths(out) : ~IsKeep(q)}
    IN IF ex.err /\ ex.hard THEN kind = "error"
       ELSE IF ex.err THEN kind \in {"ok", "error"}       \* a soft error only: fail or not, but nothing else (no panic)
       ELSE IF kind = "error" THEN ex.sec                \* failing is allowed only because of a link into a secret mount
       ELSE /\ kind = "ok"
            /\ real = {e.dst : e \in files}                                         \* FilesOK: same paths
            /\ \A e \in files : Resolved(out, nb, e.dst) = WantBytes(e)             \*          same bytes, by reference
            /\ \A q \in Paths(out) \ real :                                         \* placeholders: empty, in a real dir
                   /\ Bytes(out, q) = <<>>
                   /\ \E e \in ex.ents : e.kind \in {"dir", "emptydir"} /\ e.dst = Dir(q)
            /\ \A e \in ex.ents : e.kind = "emptydir" =>                            \* EmptyDirsOK: the directory is there
                   \E q \in Paths(out) : IsPrefix(e.dst \o <<SL>>, q)

CandSeq == << <<A>>, <<B>>, <<A, X>>, <<A, Y>>, <<B, X>> >>            \* parents before children
\* DRIFT-ONLY (no sentence of the statement): a link or path naming nothing makes the copy fail, too
\*             and a link into a secret mount is omitted silently (copier.go: "Silently omit secrets, and symlinks to secrets")
CopyDriftOK(kind) == IF Expected.err THEN kind = "error" ELSE kind = "ok"

Emit == sc.done => Serialize(<<[nodes |-> [i \in DOMAIN CandSeq |->
                                   [path |-> CandSeq[i], k |-> sc.tree[CandSeq[i]].k, c |-> sc.tree[CandSeq[i]].c,
                                    abs |-> sc.tree[CandSeq[i]].abs, tg |-> sc.tree[CandSeq[i]].tg]],
                     mroot |-> sc.mroot, mpath |-> sc.mpath, sec |-> sc.sec, mount |-> sc.mount, experr |-> Expected.err]>>,
                  IOEnv.VERIF_OUT,
                  [format |-> "NDJSON", charset |-> "UTF-8", openOptions |-> <<"WRITE", "CREATE", "APPEND">>])
=============================================================================
