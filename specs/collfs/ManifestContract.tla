-------------------------- MODULE ManifestContract --------------------------
(***************************************************************************)
(* C10 - contract: what a manifest codec may report for a given manifest.  *)
(*                                                                         *)
(* One recorded execution = one manifest (abstract syntax of Manifest.tla, *)
(* carried by the reset event) handed to one codec                         *)
(*    gofs        sdk/go/arvados  Collection.FileSystem -> loadManifest,   *)
(*                reads through the file API; PortableDataHash;            *)
(*                SizedDigests                                             *)
(*    gomanifest  sdk/go/manifest FileSegmentIterByName, segment(),        *)
(*                Extract (normalisation = Extract(".", "."))              *)
(*    py          sdk/python/arvados/_ranges.py locators_and_ranges driven *)
(*                the way collection.py/_import_manifest and arvfile.py do,*)
(*                _normalize_stream.normalize_stream                       *)
(* followed by what the codec reported, projected to the abstract syntax.  *)
(*                                                                         *)
(* Clauses of the statement (properties.jsonl C10) and where they are:     *)
(*  (a) "for every manifest valid under the published grammar [each codec] *)
(*      resolves each file path to the same sequence of (block, offset,    *)
(*      length) segments that the grammar's semantics define, including    *)
(*      zero-length blocks and files, repeated file tokens, files spanning *)
(*      many blocks and escaped names"                                     *)
(*          Load: kind = "ok" for an unmutated manifest (not error, not    *)
(*                panic, not hang)                                          *)
(*                the set of file paths found is exactly Paths(m)          *)
(*          File: the reported segments denote exactly the bytes of the    *)
(*                reference interpretation.  Segment BOUNDARIES are not    *)
(*                compared (two adjacent tokens on one block may be        *)
(*                reported as one segment or two; zero-length segments are *)
(*                ignored): the statement fixes the data, and a stricter   *)
(*                reading would forbid harmless coalescing.                *)
(*  (b) "extracting or normalizing a manifest preserves each file's byte   *)
(*      sequence and its unescaped name"                                   *)
(*          Out: the produced manifest, read with the FORMAT's semantics,  *)
(*               holds exactly the selected files, each with the source    *)
(*               file's bytes and its name (path below a directory source  *)
(*               kept; a file source keeps its base name or takes the name *)
(*               asked for).  Token layout, block order, being in          *)
(*               normalised form, and WHERE the files are put (Extract's   *)
(*               relocation convention: drift-only) are not judged.        *)
(*  (c) "the portable data hash is the MD5 and length of the manifest text *)
(*      with every locator reduced to hash+size"                           *)
(*          Pdh: got = want, where want is MD5+length (computed by the     *)
(*               concretiser, crypto/md5) of the text of                   *)
(*               Manifest!StripManifest(m).                                *)
(*  (d) "No parser panics or hangs on any input string, and malformed      *)
(*      manifests are rejected with an error rather than partially applied"*)
(*          Load: never "panic"/"hang"; for a single-token mutation that   *)
(*          makes the text malformed (mut # "none") the codecs that have   *)
(*          an error return must report an error - at load, or when the    *)
(*          files are read - for the mutation kinds in MustReject.         *)
(*          Arbitrary byte strings are outside this technique.             *)
(* DRIFT-ONLY clauses (no sentence of the statement behind them; a trace    *)
(* failing only these is reported as DRIFT, exit code stays 0):            *)
(*   OutHintsOK  Extract/normalisation keep the +A/+R/+K hints the blocks  *)
(*               had in the source (Manifest!HintsPreserved)               *)
(*   DigestsOK   Collection.SizedDigests = Manifest!StrippedBlocks(m)      *)
(*   FileSegsOK  the Go fs loader's internal segment list (not its reads)  *)
(*   OutConventionOK  WHERE Extract puts things (trailing-slash rule, a    *)
(*               file source renamed onto rel): the doc comment of         *)
(*               manifest.Extract, not the statement                       *)
(* Every other clause maps to the sentence quoted next to it above:        *)
(*   Load (ok for valid, file list = Paths(m))      (a) first sentence     *)
(*   File (bytes of whole file and of sub-ranges)   (a) first sentence     *)
(*   Out  (relocated paths, same bytes)             (b) "extracting or     *)
(*        normalizing ... preserves each file's byte sequence and its      *)
(*        unescaped name"                                                  *)
(*   Pdh                                            (c) "the portable data *)
(*        hash is the MD5 and length of the manifest text with every       *)
(*        locator reduced to hash+size"                                    *)
(*   Load (never panic/hang; error for MustReject)  (d) last sentence      *)
(* Where the statement is silent the generator avoids the case: a path     *)
(* that is both file and directory, "." / ".." components, placeholder     *)
(* tokens "0:0:.", and TWO CONSECUTIVE BACKSLASHES in manifest text.  On    *)
(* the last one the published format decides nothing: it defines a single  *)
(* escape ("Spaces are represented by the escape sequence \040") and lets  *)
(* a path component be any printable non-blank ASCII, so by its letter     *)
(* "\\" is two ordinary characters (the Python SDK's reading, and           *)
(* Manifest!Unescape's); but by the same letter "\101" would be four        *)
(* ordinary characters, which no codec implements and which would make a   *)
(* name containing backslash-0-4-0 unrepresentable.  The Go codecs read    *)
(* "\\" as one backslash, none of the three ever WRITES it (all write       *)
(* \134).  So the contract takes no side; the two readings are recorded in *)
(* ManifestCodecs!DoubleBackslashReadings so that a change shows up there. *)
(***************************************************************************)
EXTENDS Manifest

VARIABLES m,        \* the manifest (Seq(stream)) of the current execution
          codec,    \* "gofs" | "gomanifest" | "py"
          mut,      \* "none" or the kind of single-token mutation applied to the text
          loaded    \* "no" | "ok" | "error"

cvars == <<m, codec, mut, loaded>>

Codecs == {"gofs", "gomanifest", "py"}

(* Mutations after which the text is certainly outside the grammar.        *)
Malformed == {"past_end", "no_newline", "no_locators", "no_files", "bad_pos", "bad_size",
              "two_fields", "no_stream_name",
              "huge_pos", "huge_len"}     \* a position / size near 2^31, 2^32, 2^63, 2^64: digits, but far past the stream
(* Mutations after which the text may still denote something (the format   *)
(* sets no limit on a block's size hint): only "no panic, no hang" applies. *)
Unlimited == {"huge_blocksize"}
(* <<codec, mutation>> pairs where an error return exists and is demanded. *)
MustReject == ({"gofs"} \X Malformed) \cup ({"gomanifest"} \X (Malformed \ {"no_newline"}))

CInit(mm, c, mu) == /\ m = mm /\ codec = c /\ mut = mu /\ loaded = "no"

(* Every clause is a state predicate XxxOK (what may be reported in the    *)
(* current state) and an action Xxx = XxxOK /\ state update, so that the    *)
(* judge can tell an event that is not allowed without getting stuck.      *)
(* reads: for a mutated text that loaded, the outcome of reading every file *)
(* ([kind, n]): a loader may report a bad token when the file is read.     *)
(* A text that is not valid UTF-8 is outside the grammar ("A manifest is   *)
(* utf-8 encoded text"): the generator makes some on purpose; for those    *)
(* everything but a panic or hang is accepted (loaded = "any").            *)
LoadOK(kind, paths, reads) ==
    /\ loaded = "no"
    /\ kind \in {"ok", "error"}                                          \* (d) never panic, never hang
    /\ \A i \in DOMAIN reads : reads[i].kind \in {"ok", "error"}         \* (d)
    /\ (mut = "none" /\ Utf8Text(m)) => kind = "ok"                       \* (a)
    /\ <<codec, mut>> \in MustReject =>                                  \* (d) rejected: at load, or when read
          kind = "error" \/ \E i \in DOMAIN reads : reads[i].kind = "error"
    /\ (kind = "ok" /\ mut = "none" /\ Utf8Text(m)) =>                    \* (a) the files the codec found: exactly Paths(m)
          /\ Range(paths) = Paths(m)
          /\ Len(paths) = Cardinality(Paths(m))
Load(kind, paths, reads) ==
    /\ LoadOK(kind, paths, reads)
    /\ loaded' = IF mut = "none" /\ ~Utf8Text(m) /\ kind = "ok" THEN "any" ELSE kind
    /\ UNCHANGED <<m, codec, mut>>

(* One file, observed in several ways; each observation is                 *)
(* [start, n, segs]: n = -1 the whole file, otherwise the n bytes at file  *)
(* offset start.                                                           *)
ObsOK(want, o) ==
    IF o.n = -1 THEN Flatten(o.segs) = want
    ELSE /\ o.start >= 0 /\ o.start + o.n <= Len(want)
         /\ Flatten(o.segs) = SubSeq(want, o.start + 1, o.start + o.n)
FileOK(path, kind, obs) ==
    IF loaded = "any" THEN kind \in {"ok", "error"}
    ELSE /\ loaded = "ok" /\ mut = "none"
         /\ kind = "ok"
         /\ path \in Paths(m)
         /\ LET want == Bytes(m, path) IN \A i \in DOMAIN obs : obs[i].via = "segments" \/ ObsOK(want, obs[i])
\* DRIFT-ONLY: the loader's INTERNAL segment list (observed by reaching into the filenode) denotes the same bytes;
\* what the statement is about is what the file API delivers ("read", "chunk")
FileSegsOK(path, obs) == loaded = "any" \/ path \notin Paths(m) \/
                         \A i \in DOMAIN obs : obs[i].via # "segments" \/ ObsOK(Bytes(m, path), obs[i])
File(path, kind, obs) == FileOK(path, kind, obs) /\ UNCHANGED cvars

(* Where manifest.Extract(src, relocate) puts things (doc comment of       *)
(* Extract; normalisation is src = rel = ".").  src, rel are unescaped     *)
(* canonical paths ("." or "./a/b"); slash = relocate was written with a   *)
(* trailing "/".  Result: set of <<source path, target path>>.             *)
ExtractMap(src, rel, slash) ==
    IF src \in Paths(m)
    THEN {<<src, IF slash THEN rel \o <<SL>> \o Base(src)
                 ELSE IF rel = <<DOT>> THEN <<DOT, SL>> \o Base(src)
                 ELSE rel>>}
    ELSE {<<p, rel \o SubSeq(p, Len(src) + 1, Len(p))>> :
             p \in {q \in Paths(m) : IsPrefix(src \o <<SL>>, q)}}

(* STRICT part of (b): exactly the selected files come out, each with its   *)
(* bytes, and with its name: below a directory source the path relative to *)
(* the source is kept; a file source keeps its base name or gets exactly   *)
(* the name the caller asked for (rel).  WHERE they are put (the trailing  *)
(* slash rule etc. of Extract's doc comment) is the drift-only clause      *)
(* OutConventionOK.                                                        *)
Selected(src) == IF src \in Paths(m) THEN {src} ELSE {q \in Paths(m) : IsPrefix(src \o <<SL>>, q)}
IsSuffix(a, b) == Len(a) <= Len(b) /\ SubSeq(b, Len(b) - Len(a) + 1, Len(b)) = a
OutMatch(p, q, src, rel, out) ==
    /\ Bytes(out, q) = Bytes(m, p)
    /\ IF src \in Paths(m) THEN Base(q) = Base(p) \/ q = rel
       ELSE IsSuffix(SubSeq(p, Len(src) + 1, Len(p)), q)
OutOK(src, rel, slash, kind, out) ==
    IF loaded = "any" THEN kind \in {"ok", "error", "unparseable"}
    ELSE /\ loaded = "ok" /\ mut = "none"
         /\ kind = "ok"
         /\ LET sel == Selected(src)
            IN /\ Cardinality(Paths(out)) = Cardinality(sel)
               /\ \A p \in sel : \E q \in Paths(out) : OutMatch(p, q, src, rel, out)
               /\ \A q \in Paths(out) : \E p \in sel : OutMatch(p, q, src, rel, out)
\* DRIFT-ONLY: the relocation convention documented at manifest.Extract
OutConventionOK(src, rel, slash, out) ==
    loaded = "any" \/ LET em == ExtractMap(src, rel, slash)
                      IN /\ Paths(out) = {x[2] : x \in em}
                         /\ \A x \in em : Bytes(out, x[2]) = Bytes(m, x[1])
\* DRIFT-ONLY (no sentence of the statement): the produced locators still carry hints they had in m
OutHintsOK(out) == loaded = "any" \/ HintsPreserved(m, out)
Out(src, rel, slash, kind, out) == OutOK(src, rel, slash, kind, out) /\ UNCHANGED cvars

PdhOK(got, want) == loaded = "any" \/ (mut = "none" /\ got = want)       \* (c) PortableDataHash
\* DRIFT-ONLY (the statement speaks of the portable data hash only): SizedDigests lists the blocks, in order,
\* each reduced to hash+size
DigestsOK(dkind, blocks) == loaded = "any" \/ (dkind = "ok" /\ blocks = StrippedBlocks(m))
Pdh(got, want) == PdhOK(got, want) /\ UNCHANGED cvars

TypeOK == /\ codec \in Codecs \cup {"none"}
          /\ loaded \in {"no", "ok", "error", "any"}
=============================================================================
