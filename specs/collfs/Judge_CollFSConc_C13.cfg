SPECIFICATION TraceSpec
CONSTRAINT MarkExit
POSTCONDITION Accepted
INVARIANT TreeOK
CHECK_DEADLOCK FALSE
