SPECIFICATION TraceSpec
CONSTRAINT Mark
POSTCONDITION Accepted
INVARIANT TreeOK
CHECK_DEADLOCK FALSE
