\* C17 design-level check: copier walk (symlink budget) = expected output (cycle detection), all trees of the space
SPECIFICATION Spec
CONSTANTS
  TargetIds = {1, 3, 4, 5, 7, 8, 9, 10, 11, 12, 13, 14, 15, 16, 17, 18, 19, 20}
  MountCfgIds = {1, 2, 3, 4, 5, 6, 7}
  SecretIds = {1, 2, 3, 4}
INVARIANTS WalkRefinesExpected
CHECK_DEADLOCK FALSE
