\* C17 design-level check (thorough): copier walk (symlink budget) = expected output (cycle detection), every tree over
\* 5 candidate paths x 12 link targets x 5 mount configurations x 2 secret roots
SPECIFICATION Spec
CONSTANTS
  TargetIds = {1, 3, 4, 7, 9, 10, 11, 12, 13, 15, 17, 19, 22}
  MountCfgIds = {2, 3, 5, 6, 8, 11}
  SecretIds = {2, 4}
INVARIANTS WalkRefinesExpected
CHECK_DEADLOCK FALSE
