\* C17 design-level check: copier walk (symlink budget) = expected output (cycle detection), all trees of the space
SPECIFICATION Spec
CONSTANTS
  TargetIds = {1, 3, 4, 5, 7, 8, 9, 10, 11, 12, 13, 14, 15, 16}
  MountModes = {"none", "outside", "beneath"}
  SecretModes = {"none", "outside", "beneath"}
INVARIANTS WalkRefinesExpected
CHECK_DEADLOCK FALSE
