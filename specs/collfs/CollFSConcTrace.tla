--------------------------- MODULE CollFSConcTrace ---------------------------
(***************************************************************************)
(* Judge for C13.  Events:                                                  *)
(*  {"ev":"reset","scn":id,"nodes":[..],...}                                *)
(*  {"ev":"call","id":n,"w":worker,"op":"write",...arguments AND results}   *)
(*  {"ev":"ret","id":n}                                                     *)
(*  {"ev":"putb","ok":b,...}   {"ev":"snap","ents":[..],"total":n}          *)
(*  {"ev":"race",..} {"ev":"deadlock",..} {"ev":"panic",..}: no action      *)
(* Lin steps consume no line; at most one per pending call.                 *)
(***************************************************************************)
EXTENDS CollFSConc, TraceIO

TraceInit == l = 1 /\ FSInit /\ StoreInit /\ ConcInit

TraceReset == /\ IsEvent("reset")
              /\ nodes' = Ev.nodes
              /\ handles' = <<>>
              /\ pend' = <<>>
              /\ chist' = [i \in 1 .. Len(Ev.nodes) |-> IF Ev.nodes[i].k = "f" THEN <<Ev.nodes[i].d>> ELSE <<>>]
              /\ fails' = 0
              /\ UNCHANGED svars

TraceNext ==
    \/ TraceReset
    \/ IsEvent("call") /\ Call(Ev.id, Ev)
    \/ IsEvent("ret")  /\ Ret(Ev.id)
    \/ IsEvent("putb") /\ PutBConc(Ev.ok)
    \/ IsEvent("snap") /\ QuietSnap(Ev.ents, Ev.total)
    \/ (\E id \in DOMAIN pend : Lin(id)) /\ UNCHANGED l

TraceSpec == TraceInit /\ [][TraceNext]_<<concvars, l>>
=============================================================================
