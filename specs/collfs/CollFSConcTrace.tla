--------------------------- MODULE CollFSConcTrace ---------------------------
(***************************************************************************)
(* Judge for C13.  Events:                                                  *)
(*  {"ev":"reset","scn":id,"nodes":[..],...}                                *)
(*  {"ev":"call","id":n,"w":worker,"op":"write",...arguments AND results}   *)
(*  {"ev":"ret","id":n}                                                     *)
(*  {"ev":"putb","ok":b,...}   {"ev":"snap","ents":[..],"total":n}          *)
(*  {"ev":"race",..} {"ev":"deadlock",..} {"ev":"panic",..}: no action      *)
(* Lin steps consume no line; at most one per pending call; they happen in   *)
(* bursts before a ret line (see the search reduction in CollFSConc).         *)
(***************************************************************************)
EXTENDS CollFSConc

TraceInit == l = 1 /\ FSInit /\ StoreInit /\ ConcInit

TraceReset == /\ IsEvent("reset")
              /\ nodes' = Ev.nodes
              /\ handles' = <<>>
              /\ pend' = <<>>
              /\ chist' = [i \in 1 .. Len(Ev.nodes) |-> IF Ev.nodes[i].k = "f" THEN <<Ev.nodes[i].d>> ELSE <<>>]
              /\ fails' = 0 /\ okfails' = 0
              /\ UNCHANGED svars

TraceNext ==
    \/ TraceReset
    \/ IsEvent("call") /\ Call(Ev.id, l)
    \/ IsEvent("ret")  /\ Ret(Ev.id)
    \/ IsEvent("putb") /\ PutBConc(Ev.ok)
    \/ IsEvent("snap") /\ QuietSnap(Ev.ents, Ev.total)
    \/ /\ l <= Len(Trace) /\ Trace[l].ev = "ret"            \* bursts of Lin steps before a return only
       /\ \E id \in Burst(Trace[l].id) : Lin(id)
       /\ UNCHANGED l

\* Acceptance = SOME behaviour consumes every line: stop exploring as soon as one did (depth-first
\* queue, see checks/C13.py), otherwise the exhaustive search would visit every linearisation.
MarkExit == Mark /\ (l = Len(Trace) + 1 => TLCSet("exit", TRUE))

TraceSpec == TraceInit /\ [][TraceNext]_<<concvars, l>>
=============================================================================
