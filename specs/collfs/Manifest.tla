------------------------------ MODULE Manifest ------------------------------
(***************************************************************************)
(* The semantics of the published manifest format                          *)
(* (doc/architecture/manifest-format.html.textile.liquid), written from    *)
(* the document and NOT from any of the codecs.  Constant-level module:     *)
(* operators only.  It is the reference interpreter used by the contracts  *)
(* of C10 (ManifestContract), C17 (OutputCopy) and, by the collfs family,  *)
(* wherever a manifest has to be resolved to file contents.                *)
(*                                                                         *)
(* Abstract syntax (what a scenario / a recorded event carries):           *)
(*   byte      a natural number 0..255                                     *)
(*   name      a sequence of bytes: the token AS WRITTEN in the manifest   *)
(*             text (escaped form), e.g. <<97,92,48,52,48,98>> = a\040b    *)
(*   block     a natural number = one LOCATOR:  10000 * h + c  where       *)
(*             c = Strip(b) stands for hash+size (its size is c % 100, its *)
(*             content the byte sequence <<c,0>>, <<c,1>>, ...; distinct c *)
(*             have distinct content; every c with size 0 is THE empty     *)
(*             block) and h = HintClass(b) stands for the hints after the  *)
(*             size (0 none, 1 "+A<sig>@<ts>", 2 "+R<cluster>-<sig>@<ts>",  *)
(*             3 "+Z+A<sig>@<ts>+K<cluster>", as rendered by the drivers)  *)
(*   token     [pos, len, name]                                            *)
(*   stream    [name, blocks : Seq(block), toks : Seq(token)]              *)
(*   manifest  Seq(stream)                                                 *)
(*   segment   <<block, offset in block, length>>, length > 0              *)
(*   byte      of a file: <<Strip(block), offset>> (hints do not matter to *)
(*             WHICH data is meant)                                        *)
(*                                                                         *)
(* Sentences of the document and where they are:                           *)
(*  "By logically concatenating the blocks in the order that they appear,  *)
(*   we can refer to positions in the data stream"            BlockStart   *)
(*  "The position is the position in the data stream; the size is the      *)
(*   count of bytes following the position ... may cross multiple blocks"  *)
(*                                                             Segments    *)
(*  "multiple file tokens ... with the same combined path name stream name *)
(*   + "/" + filename ... must be interpreted as a concatenation of file   *)
(*   content, in the order that the file tokens appear"         SegsOf     *)
(*  "Spaces are represented by the escape sequence \040"        Unescape   *)
(*   (generalised to \ooo for every octal byte value, which is what all    *)
(*   three codecs implement and the only reading under which a name that   *)
(*   contains a literal backslash+digits is representable at all).         *)
(*  grammar / notes on stream names, file names                 ValidManifest *)
(***************************************************************************)
EXTENDS Integers, Sequences, FiniteSets

BS    == 92     \* backslash
SL    == 47     \* /
DOT   == 46
SP    == 32
COLON == 58

Range(s) == {s[i] : i \in DOMAIN s}
Min(a, b) == IF a < b THEN a ELSE b
Max(a, b) == IF a > b THEN a ELSE b

(***************************************************************************)
(* Names                                                                   *)
(***************************************************************************)
IsOct(c) == c >= 48 /\ c <= 55
OctVal(a, b, c) == 64 * (a - 48) + 8 * (b - 48) + (c - 48)
EscapeAt(t, i) == /\ t[i] = BS
                  /\ i + 3 <= Len(t)
                  /\ IsOct(t[i+1]) /\ IsOct(t[i+2]) /\ IsOct(t[i+3])
                  /\ OctVal(t[i+1], t[i+2], t[i+3]) <= 255

RECURSIVE UnescapeFrom(_, _)
UnescapeFrom(t, i) ==
    IF i > Len(t) THEN <<>>
    ELSE IF EscapeAt(t, i)
         THEN <<OctVal(t[i+1], t[i+2], t[i+3])>> \o UnescapeFrom(t, i + 4)
         ELSE <<t[i]>> \o UnescapeFrom(t, i + 1)
Unescape(t) == UnescapeFrom(t, 1)

Oct3(c) == <<BS, 48 + (c \div 64), 48 + ((c \div 8) % 8), 48 + (c % 8)>>

(* A reference escaper (the documented rule "space -> \040", extended to   *)
(* the bytes a manifest may not contain raw, and to the backslash so that  *)
(* the result is read back unchanged).  Codecs may escape MORE bytes; they *)
(* must round-trip: Unescape(codecEscape(n)) = n.                          *)
RECURSIVE RefEscape(_)
RefEscape(n) == IF n = <<>> THEN <<>>
                ELSE (IF Head(n) <= 32 \/ Head(n) = BS THEN Oct3(Head(n)) ELSE <<Head(n)>>)
                     \o RefEscape(Tail(n))

(* Text names in which the documented reading is unambiguous: no two       *)
(* consecutive backslashes (the Go codecs read "\\" as one backslash, the  *)
(* document and the Python SDK do not; the statement is silent).           *)
Unambiguous(t) == \A i \in 1 .. Len(t) - 1 : ~(t[i] = BS /\ t[i+1] = BS)

(* "A manifest is utf-8 encoded text": which byte sequences are.  Utf8Len = *)
(* length of the well-formed UTF-8 sequence starting at t[i], 0 if none    *)
(* (the definition of the Unicode standard, = Go's utf8.DecodeRune).       *)
Cont(c) == c >= 128 /\ c <= 191
Utf8Len(t, i) ==
    LET c == t[i]
        at(k) == IF i + k <= Len(t) THEN t[i + k] ELSE 0
    IN IF c < 128 THEN 1
       ELSE IF c >= 194 /\ c <= 223 /\ Cont(at(1)) THEN 2
       ELSE IF c >= 224 /\ c <= 239 /\ Cont(at(1)) /\ Cont(at(2))
               /\ (c = 224 => at(1) >= 160) /\ (c = 237 => at(1) <= 159) THEN 3
       ELSE IF c >= 240 /\ c <= 244 /\ Cont(at(1)) /\ Cont(at(2)) /\ Cont(at(3))
               /\ (c = 240 => at(1) >= 144) /\ (c = 244 => at(1) <= 143) THEN 4
       ELSE 0
RECURSIVE Utf8From(_, _)
Utf8From(t, i) == IF i > Len(t) THEN TRUE
                  ELSE LET n == Utf8Len(t, i) IN n > 0 /\ Utf8From(t, i + n)
Utf8Valid(t) == Utf8From(t, 1)
Utf8Text(mm) == \A i \in DOMAIN mm : /\ Utf8Valid(mm[i].name)
                                      /\ \A k \in DOMAIN mm[i].toks : Utf8Valid(mm[i].toks[k].name)

(***************************************************************************)
(* Paths (unescaped byte sequences such as "./d/a")                        *)
(***************************************************************************)
IsPrefix(a, b) == Len(a) <= Len(b) /\ SubSeq(b, 1, Len(a)) = a
LastSlash(p) == IF \E i \in DOMAIN p : p[i] = SL
                THEN CHOOSE i \in DOMAIN p : p[i] = SL /\ \A j \in DOMAIN p : p[j] = SL => j <= i
                ELSE 0
Base(p) == SubSeq(p, LastSlash(p) + 1, Len(p))
Dir(p)  == SubSeq(p, 1, LastSlash(p) - 1)

RECURSIVE SplitSlash(_)
SplitSlash(p) ==                      \* sequence of components
    IF \E i \in DOMAIN p : p[i] = SL
    THEN LET i == CHOOSE k \in DOMAIN p : p[k] = SL /\ \A j \in DOMAIN p : p[j] = SL => k <= j
         IN <<SubSeq(p, 1, i - 1)>> \o SplitSlash(SubSeq(p, i + 1, Len(p)))
    ELSE <<p>>

GoodComponent(c) == /\ c # <<>> /\ c # <<DOT>> /\ c # <<DOT, DOT>>
                    /\ \A i \in DOMAIN c : c[i] # SL
ValidStreamName(t) == LET cs == SplitSlash(Unescape(t))
                      IN /\ cs[1] = <<DOT>>
                         /\ \A i \in 2 .. Len(cs) : GoodComponent(cs[i])
ValidFileName(t) == LET cs == SplitSlash(Unescape(t))
                    IN \A i \in DOMAIN cs : GoodComponent(cs[i])
RawOK(t) == t # <<>> /\ \A i \in DOMAIN t : t[i] > 32 /\ t[i] # 127     \* no whitespace / control codes raw

(***************************************************************************)
(* Streams                                                                 *)
(***************************************************************************)
Size(b) == b % 100
Strip(b) == b % 10000            \* the locator reduced to hash+size ("sized-digest" of the document)
HintClass(b) == b \div 10000

RECURSIVE SumSizes(_, _)
SumSizes(blocks, n) == IF n = 0 THEN 0 ELSE SumSizes(blocks, n - 1) + Size(blocks[n])
BlockStart(blocks, i) == SumSizes(blocks, i - 1)        \* stream position of the first byte of block i
StreamLen(s) == SumSizes(s.blocks, Len(s.blocks))

(* The part of [pos, pos+len) that lies in each block, in stream order.    *)
Segments(s, t) ==
    LET cut(i) == LET bs == BlockStart(s.blocks, i)
                      lo == Max(t.pos, bs)
                      hi == Min(t.pos + t.len, bs + Size(s.blocks[i]))
                  IN IF hi > lo THEN << <<s.blocks[i], lo - bs, hi - lo>> >> ELSE <<>>
        F[i \in 0 .. Len(s.blocks)] == IF i = 0 THEN <<>> ELSE F[i-1] \o cut(i)
    IN F[Len(s.blocks)]

ValidToken(s, t) == /\ t.pos >= 0 /\ t.len >= 0
                    /\ t.pos + t.len <= StreamLen(s)
                    /\ RawOK(t.name) /\ ValidFileName(t.name)
ValidStream(s) == /\ Len(s.blocks) >= 1 /\ Len(s.toks) >= 1
                  /\ RawOK(s.name) /\ ValidStreamName(s.name)
                  /\ \A k \in DOMAIN s.toks : ValidToken(s, s.toks[k])
ValidManifest(m) == \A i \in DOMAIN m : ValidStream(m[i])

(***************************************************************************)
(* Files                                                                   *)
(***************************************************************************)
Path(s, t) == Unescape(s.name) \o <<SL>> \o Unescape(t.name)

StreamEntries(s) == [k \in DOMAIN s.toks |-> [path |-> Path(s, s.toks[k]), segs |-> Segments(s, s.toks[k])]]
Entries(m) == LET F[i \in 0 .. Len(m)] == IF i = 0 THEN <<>> ELSE F[i-1] \o StreamEntries(m[i])
              IN F[Len(m)]
Paths(m) == {e.path : e \in Range(Entries(m))}
SegsOf(m, p) == LET es == Entries(m)
                    F[i \in 0 .. Len(es)] == IF i = 0 THEN <<>>
                                             ELSE F[i-1] \o (IF es[i].path = p THEN es[i].segs ELSE <<>>)
                IN F[Len(es)]

(* The bytes a segment list denotes: <<block id, offset>> per byte.        *)
Flatten(segs) ==
    LET F[i \in 0 .. Len(segs)] ==
            IF i = 0 THEN <<>>
            ELSE F[i-1] \o [k \in 1 .. segs[i][3] |-> <<Strip(segs[i][1]), segs[i][2] + k - 1>>]
    IN F[Len(segs)]
Bytes(m, p) == Flatten(SegsOf(m, p))
FileSize(m, p) == Len(Bytes(m, p))

(* No path is both a file and a directory (the document does not say what  *)
(* such a manifest means; generators avoid it).                            *)
NoConflicts(m) == \A p, q \in Paths(m) : ~IsPrefix(p \o <<SL>>, q)

(***************************************************************************)
(* Locators and hints                                                      *)
(*  "locator ::= sized-digest hint*": what follows hash+size is a hint.    *)
(*  Portable data hash: "every locator reduced to hash+size" = the text of *)
(*  StripManifest(m); the MD5 itself is the concretiser's (crypto/md5), so *)
(*  the PDH clause reads  PDH(text of m) = MD5+length(text of StripManifest(m)). *)
(*  "Each block identifier in the manifest has an added signature which is *)
(*  used to confirm permission to read the block": a manifest derived from *)
(*  another one (Extract, normalisation) can only be READ BACK if the      *)
(*  blocks it lists still carry hints they had in the source, hence        *)
(*  HintsPreserved (the empty block holds no data and is exempt).          *)
(***************************************************************************)
BlocksOf(m) == LET F[i \in 0 .. Len(m)] == IF i = 0 THEN <<>> ELSE F[i-1] \o m[i].blocks
               IN F[Len(m)]
StripManifest(m) == [i \in DOMAIN m |-> [m[i] EXCEPT !.blocks = [j \in DOMAIN m[i].blocks |-> Strip(m[i].blocks[j])]]]
StrippedBlocks(m) == LET bs == BlocksOf(m) IN [j \in DOMAIN bs |-> Strip(bs[j])]
HintsPreserved(src, out) == \A b \in Range(BlocksOf(out)) : Size(b) = 0 \/ b \in Range(BlocksOf(src))
=============================================================================
