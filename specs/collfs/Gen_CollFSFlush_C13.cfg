SPECIFICATION GenSpec
CONSTANTS
  MaxB = 2
  MinW = 2
  MaxW = 2
  NFiles = 1
  SecondHandle = FALSE
  MaxSize = 3
  MaxOps = 3
  MaxPuts = 3
  AllowFail = TRUE
  MaxHist = 40
CONSTRAINT Bound
INVARIANTS Emit
CHECK_DEADLOCK FALSE
