SPECIFICATION GenSpec
CONSTANTS
  MaxB = 2
  MaxW = 1
  NFiles = 1
  SecondHandle = FALSE
  MaxSize = 3
  MaxOps = 3
  MaxPuts = 3
  AllowFail = TRUE
  MaxHist = 40
CONSTRAINT Bound
INVARIANTS Emit
CHECK_DEADLOCK FALSE
