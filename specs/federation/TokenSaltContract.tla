------------------------- MODULE TokenSaltContract -------------------------
(***************************************************************************)
(* C19 - contract: a user's token secret never leaves the cluster unsalted.*)
(*                                                                         *)
(* A scenario is a site (where a token is about to be sent to the remote   *)
(* cluster R) and the tokens of the incoming request, each with a class    *)
(* and a placement.                                                        *)
(*   sites   "salt"      auth.SaltToken called directly                    *)
(*           "provider"  federation.saltedTokenProvider behind an rpc.Conn *)
(*           "legacy"    controller.Handler: remoteClusterRequest ->       *)
(*                       saltAuthToken -> proxy.Do                         *)
(*           "keepstore" remoteProxy.Get -> remoteClient                   *)
(*   classes OwnUnsalted: v2 token of this cluster, secret of 39/41/50     *)
(*             characters, or with extra path segments                     *)
(*           v2non40     v2 token whose secret is 40 characters, not hex   *)
(*                       (statement silent: nothing required)              *)
(*           saltR/saltX/saltH  v2 token whose secret is a 40-hex salt and *)
(*                       whose UUID belongs to R / a third cluster / here  *)
(*           legLocal/legRemote/legUnknown  legacy token (41+ [0-9a-z])    *)
(*                       resolved locally and owned here / resolved        *)
(*                       locally, belongs to R / not known locally         *)
(*           opaque      not in Arvados format                             *)
(* Observable events                                                       *)
(*   Forward(obs)  a request reached R; obs[i] says about incoming token i *)
(*       leak   its secret occurs in the bytes of that request (header     *)
(*              values, URL, body; also inside base64 cookie / Basic       *)
(*              credentials and percent-encoding)                          *)
(*       same   the whole token occurs verbatim                            *)
(*       salted v2/<same uuid>/<hex HMAC-SHA1(R) keyed with the secret>    *)
(*              (computed independently by the harness) occurs; for        *)
(*              legLocal: computed from the locally resolved v2 form       *)
(*       twice  the salted form salted once more occurs                    *)
(*       uuid   the token's UUID occurs (it is forwarded in some form)     *)
(*       where  the places in which the secret was seen: "url", "body",    *)
(*              "header:<lower-case name>" (leak <=> where is not empty)   *)
(*   Refuse        no request reached R                                    *)
(*   SaltResult(r) site "salt": what SaltToken returned                    *)
(*                                                                         *)
(* Statement clauses:                                                      *)
(*  (a) "the token's secret is first replaced by the hex HMAC-SHA1 ...     *)
(*      deterministic, keeps the token UUID"     OwnUnsalted: uuid =>      *)
(*      salted;  SaltResult = "salted" (the harness compares with its own  *)
(*      HMAC and calls twice for determinism)                              *)
(*  (b) "never applied twice (... forwarded as it is, and the salting      *)
(*      routine reports it as already salted unless it belongs to R)"      *)
(*      salt*: ~twice, uuid => same; SaltResult saltR = "same",            *)
(*      saltX/saltH = "ErrSalted"                                          *)
(*  (c) "The unsalted secret appears nowhere in the forwarded request"     *)
(*      OwnUnsalted, legLocal: ~leak - for every token of the request      *)
(*  (d) "tokens not in Arvados format are passed through unchanged"        *)
(*      opaque: nothing checkable (see Allowed)                            *)
(*  (e) "legacy-format tokens are salted from their locally resolved v2    *)
(*      form unless they belong to the remote itself"                      *)
(*      legLocal: uuid => salted, ~leak;  legRemote: any                   *)
(* Refusing to forward, and forwarding a request without (some of) its     *)
(* tokens, is always allowed: the statement speaks about the form of what  *)
(* is forwarded ("if the token appears, then salted / unchanged").  What   *)
(* the code is expected to forward is compared with TokenSalt.tla's table  *)
(* by checks/C19.py and reported as drift.                                 *)
(*                                                                         *)
(* The waiver (ForwardX with a non-empty `waived`, used only by            *)
(* TokenSaltTraceKF for requests to the legacy site that fall into the     *)
(* recorded known findings KF-C19-1 / KF-C19-2) waives, for a protected    *)
(* token (OwnUnsalted, legLocal) of index i in `waived`, exactly this:     *)
(*   placement "form":   its secret (hence the token, hence its UUID in an *)
(*                       unsalted token) may be seen in "body" and nowhere *)
(*                       else                                              *)
(*   placement "cookie": the same for "header:cookie"                      *)
(*   any other placement, any other class: nothing is waived.              *)
(* ~twice and every clause about the other tokens of the request stay.     *)
(* Whatever TokenSaltTraceKF still rejects is reported as a VIOLATION      *)
(* (checks/C19.py does not match its rejections against known findings).   *)
(***************************************************************************)
EXTENDS Integers, Sequences, FiniteSets

VARIABLES cfg,    \* [site, toks : Seq([c : class, p : placement])]
          done    \* "no" | "fwd" | "refused" | "salt"

cvars == <<cfg, done>>

OwnUnsalted == {"v2s39", "v2s41", "v2s50", "v2extra"}
Salted      == {"saltR", "saltX", "saltH"}
Legacy      == {"legLocal", "legRemote", "legUnknown"}
Classes     == OwnUnsalted \cup Salted \cup Legacy \cup {"v2non40", "opaque"}

\* The statement constrains the FORM in which a token leaves the cluster, it does not oblige anybody to
\* forward it: a token that does not appear at all in the outgoing request is fine.  o.uuid = the token's
\* UUID occurs in the request (for a legacy token: the UUID it resolves to locally).
Allowed(c, o, single) ==
    CASE c \in OwnUnsalted -> ~o.leak /\ ~o.twice /\ (o.uuid => o.salted)          \* (a) (c)
      [] c \in Salted      -> ~o.twice /\ (o.uuid => o.same)                        \* (b)
      [] c = "legLocal"    -> ~o.leak /\ (o.uuid => o.salted)                       \* (c) (e)
      [] OTHER             -> TRUE          \* v2non40, legUnknown; legRemote (unchanged or resolved v2 form:
                                           \* both reach their owner R); opaque (absence allowed, and an
                                           \* altered opaque string cannot be recognised)

CInit(c) == cfg = c /\ done = "no"

Range(sq) == {sq[i] : i \in DOMAIN sq}
Permitted(p) == IF p = "form" THEN {"body"} ELSE IF p = "cookie" THEN {"header:cookie"} ELSE {}
LeakWithin(p, o) == /\ o.leak => Len(o.where) > 0
                    /\ Range(o.where) \subseteq Permitted(p)

\* Allowed with the waiver described in the header applied to a token placed at p
AllowedW(c, p, o, single) ==
    IF c \in OwnUnsalted \cup {"legLocal"} /\ p \in {"form", "cookie"}
    THEN LeakWithin(p, o) /\ ~o.twice
    ELSE Allowed(c, o, single)

\* waived: indices of tokens judged with AllowedW (see TokenSaltTraceKF);
\* the contract proper is Forward(obs) = ForwardX(obs, {}).
ForwardX(obs, waived) ==
    /\ done = "no" /\ cfg.site # "salt"
    /\ Len(obs) = Len(cfg.toks)
    /\ \A i \in DOMAIN cfg.toks :
          IF i \in waived
          THEN AllowedW(cfg.toks[i].c, cfg.toks[i].p, obs[i], Len(cfg.toks) = 1)
          ELSE Allowed(cfg.toks[i].c, obs[i], Len(cfg.toks) = 1)
    /\ done' = "fwd"
    /\ UNCHANGED cfg

Forward(obs) == ForwardX(obs, {})

Refuse == /\ done = "no" /\ cfg.site # "salt"
          /\ done' = "refused"
          /\ UNCHANGED cfg

\* r: "salted" (= the harness's own HMAC form, same on a second call) | "same" | "ErrSalted" |
\*    "ErrObsolete" | "ErrFormat" | "other"
SaltResult(r) ==
    /\ done = "no" /\ cfg.site = "salt"
    /\ LET c == cfg.toks[1].c IN
         CASE c \in OwnUnsalted        -> r = "salted"                             \* (a)
           [] c = "saltR"              -> r = "same"                               \* (b)
           [] c \in {"saltX", "saltH"} -> r = "ErrSalted"                          \* (b)
           [] c \in Legacy             -> r # "salted"     \* cannot be salted without its v2 form
           [] c = "opaque"             -> r \notin {"salted"}                      \* (d)
           [] OTHER                    -> TRUE
    /\ done' = "salt"
    /\ UNCHANGED cfg

TypeOK == done \in {"no", "fwd", "refused", "salt"}
=============================================================================
