-------------------------- MODULE TokenSaltTraceKF --------------------------
(***************************************************************************)
(* Judge for the C19 traces that fall into the two recorded known findings *)
(* of the legacy saltAuthToken (KF-C19-1: token in a form body, KF-C19-2:  *)
(* token in the arvados_api_token cookie).  Every run judges a sample of   *)
(* those traces with the contract proper (TokenSaltTrace) to re-confirm    *)
(* the findings; the others are judged here, with the disclosure clauses   *)
(* waived for exactly the tokens placed in a form body or cookie of a      *)
(* request to the legacy site - every other clause, and every other token  *)
(* of the same request, is judged as usual, so that a different violation  *)
(* in these requests still alarms.                                         *)
(***************************************************************************)
EXTENDS TokenSaltContract, TraceIO

TraceInit == l = 1 /\ CInit([site |-> "none", toks |-> <<>>])

TraceReset == /\ IsEvent("reset")
              /\ cfg' = [site |-> Ev.site, toks |-> Ev.toks]
              /\ done' = "no"

Waived == {i \in DOMAIN cfg.toks : cfg.site = "legacy" /\ cfg.toks[i].p \in {"form", "cookie"}}

TraceForward == IsEvent("forward") /\ ForwardX(Ev.obs, Waived)
TraceRefuse  == IsEvent("refuse")  /\ Refuse
TraceSalt    == IsEvent("salt")    /\ SaltResult(Ev.r)

TraceNext == TraceReset \/ TraceForward \/ TraceRefuse \/ TraceSalt

TraceSpec == TraceInit /\ [][TraceNext]_<<cvars, l>>
=============================================================================
