-------------------------- MODULE TokenSaltTraceKF --------------------------
(***************************************************************************)
(* Judge for the C19 traces of requests that fall into the two recorded     *)
(* known findings of the legacy saltAuthToken (KF-C19-1: protected token   *)
(* in a form body, KF-C19-2: protected token in the arvados_api_token      *)
(* cookie).  ALL those traces are judged here; a seeded sample of them is  *)
(* also judged with the contract proper (TokenSaltTrace) to re-confirm the *)
(* findings on every run.  What is waived is stated in the header of       *)
(* TokenSaltContract (AllowedW): only "the secret of a form token is seen  *)
(* in the body", "the secret of a cookie token is seen in the Cookie       *)
(* header", and "a lone form token appears salted".  The secret of such a  *)
(* token showing up in the URL, in Authorization or any other header, a    *)
(* token salted twice, and every clause about the other tokens of the same *)
(* request are still rejected here.                                        *)
(***************************************************************************)
EXTENDS TokenSaltContract, TraceIO

TraceInit == l = 1 /\ CInit([site |-> "none", toks |-> <<>>])

TraceReset == /\ IsEvent("reset")
              /\ cfg' = [site |-> Ev.site, toks |-> Ev.toks]
              /\ done' = "no"

Waived == {i \in DOMAIN cfg.toks : cfg.site = "legacy" /\ cfg.toks[i].p \in {"form", "cookie"}}

TraceForward == IsEvent("forward") /\ ForwardX(Ev.obs, Waived)
TraceRefuse  == IsEvent("refuse")  /\ Refuse
TraceSalt    == IsEvent("salt")    /\ SaltResult(Ev.r)

TraceNext == TraceReset \/ TraceForward \/ TraceRefuse \/ TraceSalt

TraceSpec == TraceInit /\ [][TraceNext]_<<cvars, l>>
=============================================================================
