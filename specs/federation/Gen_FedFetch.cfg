SPECIFICATION GenSpec
CONSTANTS
  Variant = "conn"
  MaxN = 3
  Modes = {"pdh", "uuid"}
  MaxHist = 20
INVARIANTS Emit TypeOK FirstIsHonest ChanFits
PROPERTIES Refines
CHECK_DEADLOCK FALSE
