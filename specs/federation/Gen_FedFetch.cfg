SPECIFICATION GenSpec
CONSTANTS
  MaxN = 3
  Modes = {"pdh", "uuid"}
  MaxHist = 20
INVARIANTS Emit
CHECK_DEADLOCK FALSE
