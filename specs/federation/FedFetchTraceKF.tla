---------------------------- MODULE FedFetchTraceKF --------------------------
(***************************************************************************)
(* Judge for the legacy-path traces of C18 in which a remote sent a        *)
(* manifest without final newline (known finding KF-C18-2): ALL of them    *)
(* are judged here with GetDoneX(.., waive = TRUE), which waives only "the *)
(* manifest handed over is what the remote sent plus a final newline"; a   *)
(* seeded sample is also judged by FedFetchTrace.  Otherwise identical to: *)
(* Judge for C18: validates ndjson traces recorded from the real           *)
(* Conn.CollectionGet (harness/C18_federation/fetch_driver_test.go)        *)
(* against FedFetchContract.  Events:                                      *)
(*   {"ev":"reset","scn":id,"n":remotes,"mode":"pdh"|"uuid"}               *)
(*   {"ev":"ask","b":backend}                                              *)
(*   {"ev":"answer","b":backend,"k":kind}                                  *)
(*   {"ev":"cancel"}                 the client cancelled (no obligation)  *)
(*   {"ev":"done","ok":b,"pdhOK":b,"rel":[b,b,b,b,b]}                      *)
(***************************************************************************)
EXTENDS FedFetchContract, TraceIO

TraceInit == l = 1 /\ CInit([n |-> 0, mode |-> "pdh"])

TraceReset == /\ IsEvent("reset")
              /\ cfg' = [n |-> Ev.n, mode |-> Ev.mode]
              /\ ans' = [b \in Backends |-> "none"]
              /\ done' = "no"

TraceAsk    == IsEvent("ask")    /\ Ask(Ev.b)
TraceAnswer == IsEvent("answer") /\ Answer(Ev.b, Ev.k)
TraceCancel == IsEvent("cancel") /\ UNCHANGED cvars
TraceDone   == IsEvent("done")   /\ GetDoneX(Ev.ok, Ev.pdhOK, Ev.rel, Ev.relnl, TRUE)

TraceNext == TraceReset \/ TraceAsk \/ TraceAnswer \/ TraceCancel \/ TraceDone

TraceSpec == TraceInit /\ [][TraceNext]_<<cvars, l>>
=============================================================================
