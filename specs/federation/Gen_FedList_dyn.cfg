SPECIFICATION GenSpec
CONSTANTS
  Local = 0
  Known = {0, 1, 2}
  U = {1, 11, 12, 21}
  U2 = {}
  MaxSet = {9}
  Flags = {"none"}
  Faults = {"err", "noprog"}
  MaxFaults = 1
  TightExists = TRUE
  MaxHist = 30
INVARIANTS Emit TypeOK CallBound BatchIsTodo NoDupMerged
PROPERTIES Refines
CHECK_DEADLOCK FALSE
