---------------------------- MODULE TokenSeqTrace ----------------------------
(***************************************************************************)
(* Judge for the C19 "one context, several destinations" traces recorded   *)
(* by harness/C19_federation/provseq_driver_test.go.  Events:              *)
(*   {"ev":"reset","scn":id,"site":"provseq","toks":[{"c":class,..}],..}  *)
(*   {"ev":"deliver","dest":"R1"|"R2"|"local",                             *)
(*    "obs":[{"leak":b,"same":b,"salted":b,"foreign":b}..]}                *)
(*   {"ev":"end","ctxsame":b}                                              *)
(***************************************************************************)
EXTENDS TokenSeqContract, TraceIO

TraceInit == l = 1 /\ CInit([toks |-> <<>>])

TraceReset == /\ IsEvent("reset")
              /\ cfg' = [toks |-> [i \in DOMAIN Ev.toks |-> Ev.toks[i].c]]
              /\ done' = FALSE

TraceDeliver == IsEvent("deliver") /\ Deliver(Ev.dest, Ev.obs)
TraceEnd     == IsEvent("end")     /\ End(Ev.ctxsame)

TraceNext == TraceReset \/ TraceDeliver \/ TraceEnd

TraceSpec == TraceInit /\ [][TraceNext]_<<cvars, l>>
=============================================================================
