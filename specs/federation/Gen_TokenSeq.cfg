SPECIFICATION Spec
CONSTANTS
  MaxToks = 2
  MaxSteps = 3
INVARIANTS Emit TypeOK Covered
CHECK_DEADLOCK FALSE
