SPECIFICATION TraceSpec
CONSTRAINT Mark
POSTCONDITION Accepted
INVARIANT TypeOK
CHECK_DEADLOCK FALSE
