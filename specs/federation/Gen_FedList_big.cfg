SPECIFICATION GenSpec
CONSTANTS
  Local = 0
  Known = {0, 1, 2}
  U = {1, 11, 12, 21, 31, 90}
  U2 = {11, 90}
  MaxSet = {2, 9}
  Flags = {"none", "other"}
  Faults = {"err", "noprog", "extra"}
  MaxFaults = 1
  TightExists = TRUE
  MaxHist = 30
INVARIANTS Emit TypeOK CallBound BatchIsTodo NoDupMerged
PROPERTIES Refines
CHECK_DEADLOCK FALSE
