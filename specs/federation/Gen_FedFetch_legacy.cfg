SPECIFICATION GenSpec
CONSTANTS
  Variant = "legacy"
  MaxN = 3
  Modes = {"pdh", "uuid"}
  MaxHist = 20
INVARIANTS Emit
CHECK_DEADLOCK FALSE
