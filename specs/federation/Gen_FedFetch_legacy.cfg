SPECIFICATION GenSpec
CONSTANTS
  Variant = "legacy"
  MaxN = 3
  Modes = {"pdh", "uuid"}
  MaxHist = 20
INVARIANTS Emit TypeOK FirstIsHonest ChanFits
PROPERTIES Refines
CHECK_DEADLOCK FALSE
