SPECIFICATION Spec
INVARIANTS Emit TypeOK Covered
CHECK_DEADLOCK FALSE
