------------------------- MODULE FedFetchContract -------------------------
(***************************************************************************)
(* C18 - contract of a federated collection fetch, over observable events. *)
(*                                                                         *)
(* Backends: 0 is the local cluster, 1..cfg.n are the remote clusters.     *)
(* cfg.mode = "pdh": the client asks for a portable data hash;             *)
(* cfg.mode = "uuid": the client asks for a collection UUID.               *)
(*                                                                         *)
(* Observable events                                                       *)
(*   Ask(b)            the request arrives at backend b                    *)
(*   Answer(b, k)      what backend b answered:                            *)
(*        "match"      a collection whose manifest hashes (independent     *)
(*                     computation by the harness, hints ignored) to the   *)
(*                     hash+size requested; in uuid mode: any collection   *)
(*        "mismatch"   a collection whose manifest hashes to something else*)
(*        "s404" "s5xx"  an error with that class of status                *)
(*        "cancelled"  nothing, until the request's context was cancelled  *)
(*   ClientCancel      the client cancels its request                      *)
(*   GetDone(ok, pdhOK, rel)   what the client gets: ok = a collection;    *)
(*        pdhOK = the manifest handed over hashes (independent computation)*)
(*        to the requested hash+size;  rel[b+1] = the manifest handed over *)
(*        is, token by token, what backend b sent with every +A<sig>@<exp> *)
(*        hint of a block locator turned into +R<id of b>-<sig>@<exp> and  *)
(*        nothing else changed (b = 0, the local cluster: identical).      *)
(*                                                                         *)
(* Statement clauses and where they are:                                   *)
(*  (a) "handed to the client only if the manifest received really hashes  *)
(*      to the requested value"; "a remote that returns a different or     *)
(*      altered manifest yields an error"                                  *)
(*        GetDone: ok /\ pdh mode => pdhOK, and the manifest comes from a  *)
(*        backend whose answer was "match"                                 *)
(*  (b) "and never wins over an honest remote answering the same request"  *)
(*        GetDone: the local cluster said 404 and some remote answered     *)
(*        "match" before the client was answered => ok (whatever the other *)
(*        remotes answered with a manifest or 404, in whatever order) -    *)
(*        unless the client itself has cancelled the request or some       *)
(*        remote failed with 5xx, hangs or has not answered yet (Settled)  *)
(*  (c) "the manifest relayed from a remote cluster differs from what that *)
(*      cluster sent only in that each permission hint ... has become +R"  *)
(*        GetDone: ok => rel[b+1] for a backend b that answered with a     *)
(*        collection (pdh mode: with a matching one)                       *)
(* Silent in the statement, unconstrained here: which backends are asked   *)
(* and when; what happens when the local cluster has the collection or     *)
(* fails (the statement is about collections "fetched from a remote        *)
(* cluster": a collection the local cluster itself returned may be handed  *)
(* over as it is, verified - Conn.CollectionGet - or not - the legacy      *)
(* fetchRemoteCollectionByPDH); the kind of error reported; answers        *)
(* arriving after GetDone.  Two code paths are bound to this contract:     *)
(* federation.Conn.CollectionGet and the legacy controller handlers        *)
(* fetchRemoteCollectionByPDH / fetchRemoteCollectionByUUID.               *)
(***************************************************************************)
EXTENDS Integers, Sequences, FiniteSets

VARIABLES cfg,    \* [n : 0..4, mode : {"pdh","uuid"}]
          ans,    \* backend -> "none" | kind of the answer it gave before GetDone
          asked,  \* backend -> a request has arrived there
          gaveup, \* the client has cancelled its request
          done    \* "no" | "ok" | "err"

cvars == <<cfg, ans, asked, gaveup, done>>

Backends == 0 .. 4
Kinds == {"match", "mismatch", "s404", "s5xx", "cancelled"}

CInit(c) == /\ cfg = c
            /\ ans = [b \in Backends |-> "none"]
            /\ asked = [b \in Backends |-> FALSE]
            /\ gaveup = FALSE
            /\ done = "no"

Ask(b) == /\ b \in 0 .. cfg.n
          /\ asked' = [asked EXCEPT ![b] = TRUE]
          /\ UNCHANGED <<cfg, ans, gaveup, done>>

Answer(b, k) ==
    /\ b \in 0 .. cfg.n /\ k \in Kinds
    /\ ans' = IF done = "no" THEN [ans EXCEPT ![b] = k] ELSE ans
    /\ UNCHANGED <<cfg, asked, gaveup, done>>

\* The client cancels its request.  From then on nothing obliges the request to succeed (clause (b) is
\* void: an implementation may return the cancellation at once); what it may hand over stays restricted.
ClientCancel == gaveup' = TRUE /\ UNCHANGED <<cfg, ans, asked, done>>

Sent(b) == IF cfg.mode = "pdh" THEN ans[b] = "match" ELSE ans[b] \in {"match", "mismatch"}

\* every remote that was asked has answered, and with a collection or a plain "not found": nothing
\* but manifests to choose from.  A remote that failed (5xx), hangs or has not answered yet leaves an
\* implementation free to give up (fail fast, per-remote timeout): then (b) obliges nothing.
Settled == \A b \in 1 .. cfg.n : asked[b] => ans[b] \in {"match", "mismatch", "s404"}

GetDone(ok, pdhOK, rel) ==
    /\ done = "no"
    /\ ok => ( \/ (\E b \in 1 .. cfg.n :                                   \* (a), (c): from a remote
                     Sent(b) /\ rel[b + 1] /\ ((cfg.mode = "pdh") => pdhOK))
               \/ (ans[0] \in {"match", "mismatch"} /\ (rel[1] \/ pdhOK)) )   \* the local cluster returned a copy:
                                      \* what is handed over is that copy as it is, or at least hashes right
    /\ (~gaveup /\ cfg.mode = "pdh" /\ ans[0] = "s404" /\ Settled
           /\ \E b \in 1 .. cfg.n : ans[b] = "match") => ok                                   \* (b)
    /\ done' = IF ok THEN "ok" ELSE "err"
    /\ UNCHANGED <<cfg, ans, asked, gaveup>>

TypeOK == done \in {"no", "ok", "err"} /\ \A b \in Backends : ans[b] \in Kinds \cup {"none"}
=============================================================================
