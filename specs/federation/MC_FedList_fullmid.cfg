SPECIFICATION Spec
CONSTANTS
  Local = 0
  Known = {0, 1, 2}
  U = {1, 11, 12, 21, 31}
  U2 = {}
  MaxSet = {2, 9}
  Flags = {"none", "other"}
  Faults = {"err", "noprog"}
  MaxFaults = 1
  TightExists = FALSE
  MaxHist = 0
VIEW view
INVARIANTS TypeOK CallBound BatchIsTodo NoDupMerged
PROPERTIES Refines
CHECK_DEADLOCK FALSE
