------------------------------ MODULE FedFetch ------------------------------
(***************************************************************************)
(* Implementation-shaped model of Conn.CollectionGet                       *)
(* (lib/controller/federation/conn.go:247-288) with tryLocalThenRemotes    *)
(* (conn.go:140-173).                                                      *)
(*                                                                         *)
(* uuid mode (len(UUID) = 27):  chooseBackend(UUID) - the home cluster's   *)
(*   backend, or the local one when the prefix is local or unknown -       *)
(*   answers; the manifest is rewritten iff the prefix is not the local    *)
(*   cluster's.  No hash is checked.                                       *)
(* pdh mode:                                                               *)
(*   LAsk/LAnswer   fn(ctx, "", conn.local)                                *)
(*   LCheck         inside fn: PDH of the manifest received against the    *)
(*                  hash requested; nil -> collection into `first`, return *)
(*                  it; error other than 404 -> returned as it is          *)
(*   Fan            404 from the local cluster: one goroutine per remote   *)
(*   RAsk/RAnswer   be.CollectionGet by goroutine b                        *)
(*   RCheck(b)      inside fn: error passed on; PDH mismatch -> 502;       *)
(*                  match -> rewriteManifest, `first <- c` unless full;    *)
(*                  the result goes to errchan (capacity = #remotes)       *)
(*   Recv           main loop: nil -> return nil (deferred cancel());      *)
(*                  otherwise remember whether all errors were 404         *)
(*   Fail           all remotes reported: 404 if all were 404, else 502    *)
(*   CallerCancel   the client gives up: the context of every outstanding  *)
(*                  call is cancelled                                      *)
(* Variant "legacy" = lib/controller/fed_collections.go, same shape:       *)
(*   fetchRemoteCollectionByPDH: localClusterRequest; any answer but 404   *)
(*   is forwarded as it came (a 200 from the local cluster is NOT hashed); *)
(*   404 -> one goroutine per remote: remoteClusterRequest, non-200 ->     *)
(*   errorChan, 200 -> rewriteSignatures (hash computed while rewriting,   *)
(*   compared with the requested one and with the record's own             *)
(*   portable_data_hash; since 139e9e0 a manifest that does not end with a *)
(*   newline is refused first - the line-by-line re-serialisation would    *)
(*   add one - which at this level is one more way for a "mismatch"        *)
(*   answer, i.e. a manifest that does not hash to the requested value, to *)
(*   end in RCheck's e502) -> `success` channel / errorChan; first success *)
(*   wins and cancels the rest; all done -> 404 if all were 404 else 502.  *)
(*   fetchRemoteCollectionByUUID (remote prefix only): rewriteSignatures   *)
(*   with the record's own hash as the expectation, so a manifest that     *)
(*   does not hash to the record's portable_data_hash is refused.          *)
(* The environment fixes each backend's behaviour up front (plan):         *)
(* match, mismatch, s404, s5xx or hang (answers only once its context is   *)
(* cancelled) and chooses the order in which outstanding calls are         *)
(* answered.                                                               *)
(***************************************************************************)
EXTENDS Integers, Sequences, FiniteSets, TLC, Json, IOUtils, SequencesExt

CONSTANTS Variant,   \* "conn": federation.Conn.CollectionGet   "legacy": controller fed_collections.go
          MaxN,      \* max number of remotes
          Modes,     \* subset of {"pdh", "uuid"}
          MaxHist

VARIABLES cfg, ans, asked, gaveup, done,  \* contract ghost state
          plan,      \* backend -> "match" | "mismatch" | "s404" | "s5xx" | "hang"
          home,      \* uuid mode: backend chosen by the UUID prefix (0 local/unknown prefix)
          pc,        \* "start" | "lwait" | "lcheck" | "fan" | "collect" | "returned"
          st,        \* backend -> "idle" | "go" | "asked" | "check" | "sent"
          got,       \* backend -> kind of the answer received
          errchan,   \* sequence of "nil" | "e404" | "e502"
          first,     \* -1 or the backend whose collection is in the `first` channel
          nrecv, all404,
          cancelled, \* the context passed to the backends is cancelled
          hist

C == INSTANCE FedFetchContract
cvars == <<cfg, ans, asked, gaveup, done>>
ivars == <<plan, home, pc, st, got, errchan, first, nrecv, all404, cancelled>>
vars  == <<cvars, ivars, hist>>
view  == <<cvars, ivars>>

B == 0 .. 4
Plans == {"match", "mismatch", "s404", "s5xx", "hang"}

Init ==
    \E n \in 0 .. MaxN, m \in Modes, p \in [B -> Plans], h \in 0 .. MaxN :
        /\ \A b \in B : b > n => p[b] = "s404"          \* unused backends: one canonical value
        /\ IF m = "uuid" THEN h <= n /\ (Variant = "legacy" => h >= 1) ELSE h = 0
        /\ C!CInit([n |-> n, mode |-> m])
        /\ plan = p /\ home = h
        /\ pc = "start"
        /\ st = [b \in B |-> "idle"]
        /\ got = [b \in B |-> "none"]
        /\ errchan = <<>>
        /\ first = -1
        /\ nrecv = 0
        /\ all404 = TRUE
        /\ cancelled = FALSE
        /\ hist = <<>>

Rel(b) == [i \in 1 .. 5 |-> i = b + 1]
NoRel  == [i \in 1 .. 5 |-> FALSE]

Log(b, k) == hist' = IF Len(hist) < MaxHist THEN Append(hist, [b |-> b, k |-> k]) ELSE hist

\* ---- uuid mode
UAsk ==
    /\ pc = "start" /\ cfg.mode = "uuid"
    /\ C!Ask(home)
    /\ st' = [st EXCEPT ![home] = "asked"]
    /\ pc' = "uwait"
    /\ UNCHANGED <<plan, home, got, errchan, first, nrecv, all404, cancelled, hist>>

\* what an outstanding call of backend b may answer now
AnswerOf(b) == IF plan[b] = "hang" THEN "cancelled" ELSE plan[b]
CanAnswer(b) == st[b] = "asked" /\ (plan[b] = "hang" => cancelled)

UAnswer ==
    /\ pc = "uwait" /\ CanAnswer(home)
    /\ C!Answer(home, AnswerOf(home))
    /\ got' = [got EXCEPT ![home] = AnswerOf(home)]
    /\ st' = [st EXCEPT ![home] = "check"]
    /\ Log(home, AnswerOf(home))
    /\ pc' = "ucheck"
    /\ UNCHANGED <<plan, home, errchan, first, nrecv, all404, cancelled>>

\* no hash is checked; rewritten iff the prefix is remote.  (An unknown prefix is served by the local
\* backend and would be rewritten with that prefix; the statement is silent, the model does not
\* generate it: home = 0 means a local prefix.)
UReturn ==
    /\ pc = "ucheck"
    /\ IF got[home] = "match" \/ (got[home] = "mismatch" /\ Variant = "conn")
       THEN C!GetDone(TRUE, got[home] = "match", Rel(home))
       ELSE C!GetDone(FALSE, FALSE, NoRel)
    /\ pc' = "returned"
    /\ UNCHANGED <<plan, home, st, got, errchan, first, nrecv, all404, cancelled, hist>>

\* ---- pdh mode
LAsk ==
    /\ pc = "start" /\ cfg.mode = "pdh"
    /\ C!Ask(0)
    /\ st' = [st EXCEPT ![0] = "asked"]
    /\ pc' = "lwait"
    /\ UNCHANGED <<plan, home, got, errchan, first, nrecv, all404, cancelled, hist>>

LAnswer ==
    /\ pc = "lwait" /\ CanAnswer(0)
    /\ C!Answer(0, AnswerOf(0))
    /\ got' = [got EXCEPT ![0] = AnswerOf(0)]
    /\ st' = [st EXCEPT ![0] = "check"]
    /\ Log(0, AnswerOf(0))
    /\ pc' = "lcheck"
    /\ UNCHANGED <<plan, home, errchan, first, nrecv, all404, cancelled>>

LCheck ==
    /\ pc = "lcheck"
    /\ st' = [b \in B |-> IF b = 0 THEN "sent" ELSE IF got[0] = "s404" /\ b <= cfg.n THEN "go" ELSE st[b]]
    /\ CASE got[0] = "match" \/ (got[0] = "mismatch" /\ Variant = "legacy") ->
                                /\ C!GetDone(TRUE, got[0] = "match", Rel(0))
                                /\ first' = 0 /\ pc' = "returned"
         [] got[0] = "s404"  -> /\ UNCHANGED <<cvars, first>>
                                /\ pc' = "collect"
         [] OTHER            -> /\ C!GetDone(FALSE, FALSE, NoRel)       \* mismatch -> 502, 5xx, cancelled
                                /\ UNCHANGED first /\ pc' = "returned"
    /\ UNCHANGED <<plan, home, got, errchan, nrecv, all404, cancelled, hist>>

RAsk(b) ==
    /\ pc \in {"collect", "returned"} /\ st[b] = "go"
    /\ C!Ask(b)
    /\ st' = [st EXCEPT ![b] = "asked"]
    /\ UNCHANGED <<plan, home, pc, got, errchan, first, nrecv, all404, cancelled, hist>>

RAnswer(b) ==
    /\ pc \in {"collect", "returned"} /\ b > 0 /\ CanAnswer(b)
    /\ C!Answer(b, AnswerOf(b))
    /\ got' = [got EXCEPT ![b] = AnswerOf(b)]
    /\ st' = [st EXCEPT ![b] = "check"]
    /\ Log(b, AnswerOf(b))
    /\ UNCHANGED <<plan, home, pc, errchan, first, nrecv, all404, cancelled>>

RCheck(b) ==
    /\ b > 0 /\ st[b] = "check" /\ cfg.mode = "pdh"
    /\ st' = [st EXCEPT ![b] = "sent"]
    /\ errchan' = Append(errchan, CASE got[b] = "match" -> "nil"
                                    [] got[b] = "s404" -> "e404"
                                    [] OTHER -> "e502")
    /\ first' = IF got[b] = "match" /\ first = -1 THEN b ELSE first
    /\ UNCHANGED <<cvars, plan, home, pc, got, nrecv, all404, cancelled, hist>>

Recv ==
    /\ pc = "collect" /\ Len(errchan) > 0
    /\ errchan' = Tail(errchan)
    /\ IF Head(errchan) = "nil"
       THEN /\ C!GetDone(TRUE, TRUE, Rel(first))
            /\ pc' = "returned"
            /\ cancelled' = TRUE                       \* deferred cancel()
            /\ UNCHANGED <<nrecv, all404>>
       ELSE /\ nrecv' = nrecv + 1
            /\ all404' = (all404 /\ Head(errchan) = "e404")
            /\ UNCHANGED <<cvars, pc, cancelled>>
    /\ UNCHANGED <<plan, home, st, got, first, hist>>

Fail ==
    /\ pc = "collect" /\ nrecv = cfg.n
    /\ C!GetDone(FALSE, FALSE, NoRel)
    /\ pc' = "returned"
    /\ cancelled' = TRUE
    /\ UNCHANGED <<plan, home, st, got, errchan, first, nrecv, all404, hist>>

\* the client gives up; only generated when nothing else can happen (every outstanding call hangs)
Stuck == /\ pc \in {"lwait", "uwait", "collect"} /\ ~cancelled
         /\ \A b \in B : st[b] \notin {"go", "check"}
         /\ \A b \in B : st[b] = "asked" => plan[b] = "hang"
         /\ Len(errchan) = 0
         /\ ~(pc = "collect" /\ nrecv = cfg.n)
CallerCancel ==
    /\ Stuck
    /\ C!ClientCancel
    /\ cancelled' = TRUE
    /\ hist' = IF Len(hist) < MaxHist THEN Append(hist, [b |-> -1, k |-> "cancel"]) ELSE hist
    /\ UNCHANGED <<plan, home, pc, st, got, errchan, first, nrecv, all404>>

Next == \/ UAsk \/ UAnswer \/ UReturn \/ LAsk \/ LAnswer \/ LCheck \/ Recv \/ Fail \/ CallerCancel
        \/ \E b \in 1 .. MaxN : RAsk(b) \/ RAnswer(b) \/ RCheck(b)

Spec == Init /\ [][Next]_vars /\ WF_vars(Next)

\* Gen: internal steps eagerly, lowest backend first; a path = order of answers
Ready == {b \in 1 .. MaxN : st[b] \in {"go", "check"}}
MinOf(S) == CHOOSE x \in S : \A y \in S : x <= y
GenNext ==
    \/ UAsk \/ UAnswer \/ UReturn \/ LAsk \/ LAnswer \/ LCheck
    \/ /\ pc = "collect"
       /\ IF Ready # {} THEN LET b == MinOf(Ready) IN RAsk(b) \/ RCheck(b)
          ELSE IF Len(errchan) > 0 THEN Recv
          ELSE IF nrecv = cfg.n THEN Fail
          ELSE (\E b \in 1 .. MaxN : RAnswer(b)) \/ CallerCancel
    \/ (pc \in {"lwait", "uwait"} /\ CallerCancel)
GenSpec == Init /\ [][GenNext]_vars

------------------------------------------------------------------------------
Refines == [][\/ (\E b \in B : C!Ask(b))
              \/ (\E b \in B : C!Answer(b, got'[b]))
              \/ (\E ok \in BOOLEAN, p \in BOOLEAN, b \in B : C!GetDone(ok, p, Rel(b)) \/ C!GetDone(ok, p, NoRel))
              \/ C!ClientCancel
              \/ UNCHANGED cvars]_vars

TypeOK == /\ pc \in {"start", "uwait", "ucheck", "lwait", "lcheck", "collect", "returned"}
          /\ first \in -1 .. MaxN
          /\ C!TypeOK

\* what is in `first` always passed the hash check
FirstIsHonest == (first # -1 /\ ~(Variant = "legacy" /\ first = 0)) => got[first] = "match"
\* errchan never overflows its capacity (no goroutine blocks for ever on it)
ChanFits == cfg.mode = "pdh" => Len(errchan) + nrecv <= cfg.n
\* the request ends: every outstanding call is answered or cancelled
Terminates == <>(pc = "returned")

Emit == (pc = "returned") =>
          Serialize(<<[id |-> TLCGet("distinct"), n |-> cfg.n, mode |-> cfg.mode, home |-> home,
                       plan |-> [i \in 1 .. 5 |-> plan[i - 1]],
                       steps |-> hist, expect |-> done]>>,
                    IOEnv.VERIF_OUT,
                    [format |-> "NDJSON", charset |-> "UTF-8",
                     openOptions |-> <<"WRITE", "CREATE", "APPEND">>])
=============================================================================
