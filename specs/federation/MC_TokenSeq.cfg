SPECIFICATION Spec
CONSTANTS
  MaxToks = 2
  MaxSteps = 3
INVARIANTS TypeOK Covered
PROPERTIES Terminates
CHECK_DEADLOCK FALSE
