--------------------------- MODULE TokenSaltTrace ---------------------------
(***************************************************************************)
(* Judge for C19: validates traces recorded by the four C19 drivers        *)
(* (harness/C19_auth etc.) against TokenSaltContract.  Events:             *)
(*   {"ev":"reset","scn":id,"site":s,"toks":[{"c":class,"p":placement}]}  *)
(*   {"ev":"forward","obs":[{"leak":b,"same":b,"salted":b,"twice":b}..],   *)
(*    "where":"places where a protected secret was seen"}                  *)
(*   {"ev":"refuse"}                                                       *)
(*   {"ev":"salt","r":result}                                              *)
(***************************************************************************)
EXTENDS TokenSaltContract, TraceIO

TraceInit == l = 1 /\ CInit([site |-> "none", toks |-> <<>>])

TraceReset == /\ IsEvent("reset")
              /\ cfg' = [site |-> Ev.site, toks |-> Ev.toks]
              /\ done' = "no"

TraceForward == IsEvent("forward") /\ Forward(Ev.obs)
TraceRefuse  == IsEvent("refuse")  /\ Refuse
TraceSalt    == IsEvent("salt")    /\ SaltResult(Ev.r)

TraceNext == TraceReset \/ TraceForward \/ TraceRefuse \/ TraceSalt

TraceSpec == TraceInit /\ [][TraceNext]_<<cvars, l>>
=============================================================================
