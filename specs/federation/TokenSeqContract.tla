-------------------------- MODULE TokenSeqContract --------------------------
(***************************************************************************)
(* C19, second contract: ONE request context whose tokens are sent to a    *)
(* sequence of destinations (remote clusters R1, R2, the local cluster, or *)
(* all three at once in a fan-out), as federation.Conn does through        *)
(* saltedTokenProvider.                                                    *)
(*                                                                         *)
(* Observable events                                                       *)
(*   Deliver(dest, obs)  a request carrying the context's tokens reached   *)
(*       dest ("R1" | "R2" | "local"); obs[i] says about ORIGINAL token i: *)
(*       leak    its secret occurs in what dest received                   *)
(*       same    the original token occurs verbatim                        *)
(*       salted  its form salted for dest (independent HMAC-SHA1 of dest's *)
(*               cluster id, same UUID) occurs                             *)
(*       foreign its form salted for ANOTHER remote cluster occurs         *)
(*       uuid    its UUID occurs (it was forwarded in some form)           *)
(*   End(ctxsame)        all destinations served; ctxsame = the context's  *)
(*       credentials are still the original tokens                         *)
(*                                                                         *)
(* Statement clauses:                                                      *)
(*  (a) "Whenever the controller ... forwards a user's Arvados v2 token to *)
(*      a remote cluster R, the token's secret is first replaced by the    *)
(*      hex HMAC-SHA1 of R keyed with that secret, so R cannot replay it   *)
(*      at the home cluster or at a third cluster"                         *)
(*        Deliver to a remote: own unsalted v2 (and locally resolved       *)
(*        legacy) tokens: salted for THAT remote, ~leak, ~foreign - a      *)
(*        token salted for R1 handed to R2 is exactly what R2 could replay *)
(*        at R1.  Deliver to the local cluster: not constrained (drift).   *)
(*  (b) "salting is deterministic": what a destination receives is a       *)
(*      function of the original token and the destination, whatever was   *)
(*      sent before; the request's credentials are an input of that        *)
(*      function, not an output (ctxsame = FALSE is reported as drift; its  *)
(*      effect - a foreign form at the next remote - is what is judged).   *)
(*  (c) "already salted ... forwarded as it is", "not in Arvados format    *)
(*      passed through unchanged": saltR1, opaque: same.                   *)
(* A destination that receives nothing (the forwarding was refused) simply *)
(* has no Deliver event.                                                   *)
(***************************************************************************)
EXTENDS Integers, Sequences, FiniteSets

VARIABLES cfg,    \* [toks : Seq(class)]
          done

cvars == <<cfg, done>>

OwnUnsalted == {"v2s39", "v2s41", "v2s50", "v2extra"}
Classes == OwnUnsalted \cup {"legLocal", "legUnknown", "saltR1", "opaque"}
Dests == {"R1", "R2", "local"}

CInit(c) == cfg = c /\ done = FALSE

\* o.uuid = the token's UUID occurs in what dest received (the token was forwarded in some form);
\* a token that is not forwarded at all is fine.
AllowedAt(c, dest, o) ==
    IF dest = "local" THEN TRUE      \* what stays inside the cluster is not the statement's business
    ELSE CASE c \in OwnUnsalted \cup {"legLocal"} -> ~o.leak /\ ~o.foreign /\ (o.uuid => o.salted)   \* (a)
           [] c = "saltR1"                        -> ~o.foreign /\ (o.uuid => o.same)                  \* (c)
           [] OTHER                               -> TRUE

Deliver(dest, obs) ==
    /\ ~done /\ dest \in Dests
    /\ Len(obs) = Len(cfg.toks)
    /\ \A i \in DOMAIN cfg.toks : AllowedAt(cfg.toks[i], dest, obs[i])
    /\ UNCHANGED cvars

\* ctxsame (the context's credentials still hold the original tokens) is implementation state; its
\* statement-level effects are the foreign / unsalted forms seen at REMOTES above.  checks/C19.py
\* reports ctxsame = FALSE, and a salted token handed to the local cluster, as drift.
End(ctxsame) ==
    /\ ~done
    /\ done' = TRUE
    /\ UNCHANGED cfg

TypeOK == done \in BOOLEAN
=============================================================================
