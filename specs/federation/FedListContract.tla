-------------------------- MODULE FedListContract --------------------------
(***************************************************************************)
(* C20 - contract of a federated list-by-UUID request, over observable     *)
(* events only.                                                            *)
(*                                                                         *)
(* World.  Clusters are small integers; cfg.local is the cluster that      *)
(* receives the request, cfg.known the clusters it has a backend for       *)
(* (local included).  An abstract UUID is an integer u: 0 <= u < 90 is a   *)
(* well-formed UUID whose prefix names cluster Home(u) = u \div 10;        *)
(* u >= 90 is a malformed string (cannot be the UUID of anything).         *)
(* cfg.exists is the set of objects that exist (each at its home cluster). *)
(* cfg.filters is the sequence of `uuid =` / `uuid in` filters of the      *)
(* request (each a set), cfg.nraw the number of operand entries written in *)
(* them (duplicates and malformed entries counted), cfg.other/count/limit/ *)
(* offset/order say whether the request carries another filter, a count    *)
(* other than "none", a limit, an offset, an order; cfg.max is the page    *)
(* limit of the local cluster.                                             *)
(*                                                                         *)
(* Observable events: Call(c, batch)  a list request arrives at backend c  *)
(*                                    asking for the UUIDs in batch        *)
(*                    Resp(c, batch, err, items)  what backend c answered  *)
(*                    ListDone(ok, items)         what the client gets     *)
(*                                                                         *)
(* Statement clauses and where they are:                                   *)
(*  (a) "returns every requested object that exists exactly once"          *)
(*        ListDone: ok /\ ~weird => items is a permutation of Expected;    *)
(*        ~ok only for one of the reasons of (c),(d)                       *)
(*  (b) "each obtained from the cluster named by its UUID prefix"          *)
(*        ListDone: every item handed over was returned by the backend of  *)
(*        its home cluster (returned[Home(u)]).  What a backend is ASKED   *)
(*        for is not constrained (sending the whole UUID list to every     *)
(*        involved cluster would still obtain each object from its home;   *)
(*        checks/C20.py reports a foreign UUID in a batch as drift).       *)
(*  (c) "however each cluster pages its answer (short pages, one item at a *)
(*      time, arbitrary order)"  = the class Good of responses: a          *)
(*      duplicate-free list of objects of that cluster that were asked for *)
(*      and exist, empty only if none of those asked for exists there.  As long as every    *)
(*      response is Good the request must succeed.                         *)
(*  (d) "an involved cluster returns an error, is unknown, or answers      *)
(*      without making progress => the whole request fails ... instead of  *)
(*      returning a partial list or looping"                               *)
(*        ListDone: fault \/ UnknownInvolved => ~ok                        *)
(*        Call: per-cluster number of calls bounded (2n+2 for n requested  *)
(*        UUIDs of that cluster: deliberately generous, the code needs     *)
(*        n+1)                                                             *)
(*  (e) "queries that cannot be split safely ... are rejected before any   *)
(*      backend is called"   ListDone: MustReject => ~ok;  Call: ~MustReject*)
(*                                                                         *)
(* Where the statement is silent the contract allows everything:           *)
(*  - a request that does not involve a well-formed non-local UUID         *)
(*    (~Federated) is an ordinary local list; only (b) is kept (it must go *)
(*    to the local backend);                                               *)
(*  - a backend answer that is neither Good, nor an error, nor a           *)
(*    no-progress answer (it repeats an item, adds items nobody asked for  *)
(*    alongside progress, claims nothing exists although something does)   *)
(*    sets `weird`, after which any outcome is accepted;                   *)
(*  - "more UUIDs than the page limit": the code counts well-formed UUIDs  *)
(*    in the intersection of the filters; a reading that counts every      *)
(*    operand entry is as defensible, so between the two counts both       *)
(*    rejection (without calls) and execution are accepted (MayReject).    *)
(***************************************************************************)
EXTENDS Integers, Sequences, FiniteSets

VARIABLES cfg,      \* see above
          ncalls,   \* cluster -> number of Call events
          fault,    \* some backend answered with an error or without progress
          weird,    \* some backend answered outside every class the statement talks about
          anycall,  \* some Call event happened
          returned, \* cluster -> objects its backend has returned so far
          done      \* "no" | "ok" | "err"

cvars == <<cfg, ncalls, fault, weird, anycall, returned, done>>

AllClusters == 0 .. 8

Range(s) == {s[i] : i \in DOMAIN s}

Valid(u) == u >= 0 /\ u < 90
Home(u)  == u \div 10

\* intersection semantics of several uuid filters
Inter(fs) == IF Len(fs) = 0 THEN {}
             ELSE {u \in fs[1] : \A i \in DOMAIN fs : u \in fs[i]}

ValidReq        == {u \in Inter(cfg.filters) : Valid(u)}
ReqOf(c)        == {u \in ValidReq : Home(u) = c}
Federated       == \E u \in ValidReq : Home(u) # cfg.local
UnknownInvolved == \E u \in ValidReq : Home(u) \notin cfg.known
Expected        == ValidReq \cap cfg.exists

MustReject == /\ Federated
              /\ \/ cfg.other \/ cfg.count \/ cfg.limit \/ cfg.offset \/ cfg.order
                 \/ Cardinality(ValidReq) > cfg.max
MayReject  == Federated /\ ~MustReject /\ cfg.nraw > cfg.max

CallBound(c) == 2 * Cardinality(ReqOf(c)) + 2

CInit(c) == /\ cfg = c
            /\ ncalls = [k \in AllClusters |-> 0]
            /\ fault = FALSE
            /\ weird = FALSE
            /\ anycall = FALSE
            /\ returned = [k \in AllClusters |-> {}]
            /\ done = "no"

Call(c, batch) ==
    /\ c \in cfg.known
    /\ IF Federated
       THEN /\ ~MustReject                                            \* (e)
            /\ ncalls[c] < CallBound(c)                               \* (d) no looping
       ELSE c = cfg.local                                             \* (b)
    /\ ncalls' = [ncalls EXCEPT ![c] = @ + 1]
    /\ anycall' = TRUE
    /\ UNCHANGED <<cfg, fault, weird, returned, done>>

\* classes of answers (items is a sequence)
Has(c, batch) == {u \in batch \cap cfg.exists : Home(u) = c}
Good(c, batch, items) ==
    /\ Cardinality(Range(items)) = Len(items)
    /\ Range(items) \subseteq Has(c, batch)
    /\ (Len(items) = 0) <=> (Has(c, batch) = {})
NoProgress(batch, items) == Len(items) > 0 /\ Range(items) \cap batch = {}

Resp(c, batch, err, items) ==
    /\ IF err \/ NoProgress(batch, items)
       THEN fault' = TRUE /\ UNCHANGED weird
       ELSE IF Good(c, batch, items)
       THEN UNCHANGED <<fault, weird>>
       ELSE weird' = TRUE /\ UNCHANGED fault
    /\ returned' = IF err THEN returned ELSE [returned EXCEPT ![c] = @ \cup Range(items)]
    /\ UNCHANGED <<cfg, ncalls, anycall, done>>

IsPermOf(items, S) == Len(items) = Cardinality(S) /\ Range(items) = S

ListDone(ok, items) ==
    /\ done = "no"
    /\ Federated =>
         /\ MustReject => ~ok                                         \* (e)
         /\ (fault \/ UnknownInvolved) => ~ok                         \* (d)
         /\ (ok /\ ~weird) => /\ IsPermOf(items, Expected)            \* (a)
                             /\ \A u \in Expected : u \in returned[Home(u)]   \* (b)
         /\ ~ok => \/ MustReject \/ fault \/ UnknownInvolved \/ weird \* (a),(c)
                   \/ (MayReject /\ ~anycall)
    /\ done' = IF ok THEN "ok" ELSE "err"
    /\ UNCHANGED <<cfg, ncalls, fault, weird, anycall, returned>>

TypeOK == /\ done \in {"no", "ok", "err"}
          /\ fault \in BOOLEAN /\ weird \in BOOLEAN /\ anycall \in BOOLEAN
=============================================================================
