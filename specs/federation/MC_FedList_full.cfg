SPECIFICATION Spec
CONSTANTS
  Local = 0
  Known = {0, 1}
  U = {1, 11, 12, 21}
  U2 = {}
  MaxSet = {9}
  Flags = {"none", "other"}
  Faults = {"err", "noprog"}
  MaxFaults = 1
  TightExists = TRUE
  MaxHist = 0
VIEW view
INVARIANTS TypeOK CallBound BatchIsTodo NoDupMerged
PROPERTIES Refines Terminates
CHECK_DEADLOCK FALSE
