------------------------------ MODULE TokenSalt ------------------------------
(***************************************************************************)
(* Implementation-shaped decision table of the three places that send a    *)
(* user's token to a remote cluster R, plus auth.SaltToken itself.         *)
(*                                                                         *)
(* SaltRes(c)       sdk/go/auth/salt.go: not v2 -> ErrObsolete (41+        *)
(*                  [0-9a-z]) or ErrTokenFormat; secret length # 40 ->     *)
(*                  salted; length 40: UUID of R -> unchanged, else        *)
(*                  ErrSalted (hex or not: the code only looks at length)  *)
(* ProviderForm(c)  federation/conn.go saltedTokenProvider: ErrSalted and  *)
(*                  ErrTokenFormat pass through; ErrObsolete: asks the     *)
(*                  local cluster - 401 or owned by R: pass through, else  *)
(*                  salt the v2 form; every token of the request is sent   *)
(* Keepstore        proxy_remote.go remoteClient: SaltToken, any error     *)
(*                  refuses                                                *)
(* Legacy           controller/federation.go saltAuthToken as it is:       *)
(*   - tokens are looked for in Authorization (OAuth2/Bearer), Basic       *)
(*     password, api_token query values, arvados_api_token cookie - in     *)
(*     that order; the form body is looked at only if none was found AND   *)
(*     Content-Type is "application/x-www-form-encoded" (sic), which       *)
(*     LoadTokensFromHTTPRequestBody itself rejects: a token in a form     *)
(*     body is never found                                                 *)
(*   - no token found: the request is forwarded as it came                 *)
(*   - the first token found is salted (ErrSalted refuses; ErrObsolete /   *)
(*     ErrTokenFormat: database lookup as in the provider) into            *)
(*     Authorization: Bearer; api_token is deleted from the query string;  *)
(*     every other header - Cookie included - and the body are copied      *)
(* The two deviations (form body, cookie) contradict the contract; they    *)
(* are KF_form and KF_cookie below: the invariant is checked outside them  *)
(* and Gen still emits them, so RUN+JUDGE re-confirm them on every run.    *)
(***************************************************************************)
EXTENDS Integers, Sequences, FiniteSets, TLC, Json, IOUtils

CONSTANTS MaxToks      \* 1 or 2 tokens per request

VARIABLES cfg, done, pc, out

C == INSTANCE TokenSaltContract
cvars == <<cfg, done>>
vars == <<cvars, pc, out>>

Sites == {"salt", "provider", "legacy", "keepstore"}
PlacementsOf(s) == CASE s = "legacy" -> {"oauth2", "bearer", "basic", "query", "form", "cookie"}
                     [] s = "keepstore" -> {"oauth2", "bearer"}
                     [] OTHER -> {"ctx"}
HeaderPl == {"oauth2", "bearer", "basic"}

Tok(s) == [c : C!Classes, p : PlacementsOf(s)]
TokSeqs(s) == {<<t>> : t \in Tok(s)}
              \cup (IF MaxToks >= 2 /\ s \in {"provider", "legacy"}
                    THEN {<<t, u>> : t \in Tok(s), u \in Tok(s)} ELSE {})

\* at most one Authorization header, one cookie, one form field per request
WellFormed(ts) == Len(ts) = 2 =>
                     /\ ~(ts[1].p \in HeaderPl /\ ts[2].p \in HeaderPl)
                     /\ ~(ts[1].p = ts[2].p /\ ts[1].p \in {"cookie", "form"})

Init == \E s \in Sites : \E ts \in TokSeqs(s) :
          /\ WellFormed(ts)
          /\ C!CInit([site |-> s, toks |-> ts])
          /\ pc = "start"
          /\ out = <<>>

SaltRes(c) == CASE c \in C!OwnUnsalted -> "salted"
                [] c = "saltR" -> "same"
                [] c \in {"saltX", "saltH", "v2non40"} -> "ErrSalted"
                [] c \in C!Legacy -> "ErrObsolete"
                [] OTHER -> "ErrFormat"

\* form in which a token is sent on after the local lookup for legacy/opaque ones
LookupForm(c) == IF c = "legLocal" THEN "salted" ELSE "same"
ProviderForm(c) == CASE SaltRes(c) = "salted" -> "salted"
                     [] SaltRes(c) = "ErrObsolete" -> LookupForm(c)
                     [] OTHER -> "same"

\* what the remote can see of a token sent in form f ("salted" | "same" | "both" | "dropped")
Obs(f) == [leak |-> f \in {"same", "both"}, same |-> f \in {"same", "both"},
           salted |-> f \in {"salted", "both"}, twice |-> FALSE, uuid |-> f # "dropped",
           where |-> IF f \in {"same", "both"} THEN <<"somewhere">> ELSE <<>>]

Rank(p) == CASE p \in {"oauth2", "bearer"} -> 1 [] p = "basic" -> 2 [] p = "query" -> 3
             [] p = "cookie" -> 4 [] OTHER -> 9
\* index of the token saltAuthToken uses (creds.Tokens[0]); 0 if it finds none
Primary(ts) == LET found == {i \in DOMAIN ts : ts[i].p # "form"} IN
                 IF found = {} THEN 0
                 ELSE CHOOSE i \in found : \A j \in found : Rank(ts[i].p) < Rank(ts[j].p) \/ (Rank(ts[i].p) = Rank(ts[j].p) /\ i <= j)

\* setupProxyRemoteCluster: "Authorization: Bearer v2/<uuid>/<40 characters>" counts as already
\* salted and is handed to the local handler stack, nothing is forwarded
PreChecked(ts) == \E i \in DOMAIN ts : ts[i].p = "bearer" /\ ts[i].c \in {"saltR", "saltX", "saltH", "v2non40"}

LegacyDecision(ts) ==
    LET p == Primary(ts) IN
      IF PreChecked(ts) THEN [fwd |-> FALSE, forms |-> <<>>]
      ELSE IF p = 0 THEN [fwd |-> TRUE, forms |-> [i \in DOMAIN ts |-> "same"]]
      ELSE IF SaltRes(ts[p].c) = "ErrSalted" THEN [fwd |-> FALSE, forms |-> <<>>]
      ELSE LET pf == IF SaltRes(ts[p].c) = "same" THEN "same" ELSE ProviderForm(ts[p].c) IN
           [fwd |-> TRUE,
            forms |-> [i \in DOMAIN ts |->
                         IF i = p
                         THEN IF ts[i].p = "cookie" /\ pf = "salted" THEN "both" ELSE pf
                         ELSE CASE ts[i].p = "query" -> "dropped"
                                [] OTHER -> "same"]]        \* cookie header and form body are copied

Decide ==
    /\ pc = "start"
    /\ pc' = "done"
    /\ LET s == cfg.site  ts == cfg.toks IN
       CASE s = "salt" ->
              /\ C!SaltResult(SaltRes(ts[1].c))
              /\ out' = <<SaltRes(ts[1].c)>>
         [] s = "provider" ->
              /\ C!Forward([i \in DOMAIN ts |-> Obs(ProviderForm(ts[i].c))])
              /\ out' = [i \in DOMAIN ts |-> ProviderForm(ts[i].c)]
         [] s = "keepstore" ->
              IF SaltRes(ts[1].c) \in {"salted", "same"}
              THEN C!Forward(<<Obs(SaltRes(ts[1].c))>>) /\ out' = <<SaltRes(ts[1].c)>>
              ELSE C!Refuse /\ out' = <<"refuse">>
         [] s = "legacy" ->
              LET d == LegacyDecision(ts) IN
                IF d.fwd
                THEN C!Forward([i \in DOMAIN ts |-> Obs(d.forms[i])]) /\ out' = d.forms
                ELSE C!Refuse /\ out' = <<"refuse">>

\* validateAPItoken indexes strings.Split(token, "/")[2] for any token starting with "v2/": an
\* opaque token such as "v2/x" makes it panic (federation.go:165); the request dies, nothing is
\* forwarded.  Which opaque strings do that is below the abstraction, hence a second outcome.
DecideCrash ==
    /\ pc = "start" /\ cfg.site = "legacy"
    /\ Primary(cfg.toks) # 0 /\ cfg.toks[Primary(cfg.toks)].c = "opaque" /\ ~PreChecked(cfg.toks)
    /\ C!Refuse /\ out' = <<"refuse">>
    /\ pc' = "done"

\* The faithful table contains the two genuine defects; a behaviour that runs into one of them
\* cannot take its Decide step as a contract step.  StepKF performs it without the contract.
Protected(c) == c \in C!OwnUnsalted \cup {"legLocal"}
KF_form   == cfg.site = "legacy" /\ \E i \in DOMAIN cfg.toks : cfg.toks[i].p = "form" /\ Protected(cfg.toks[i].c)
KF_cookie == cfg.site = "legacy" /\ \E i \in DOMAIN cfg.toks : cfg.toks[i].p = "cookie" /\ Protected(cfg.toks[i].c)
\* a single opaque / salted / legRemote token in a form body is forwarded unchanged: fine.

DecideKF ==
    /\ pc = "start" /\ (KF_form \/ KF_cookie) /\ ~ENABLED Decide
    /\ pc' = "kf"
    /\ out' = LET d == LegacyDecision(cfg.toks) IN IF d.fwd THEN d.forms ELSE <<"refuse">>
    /\ UNCHANGED cvars

Next == Decide \/ DecideCrash \/ DecideKF
Spec == Init /\ [][Next]_vars /\ WF_vars(Next)

\* every scenario outside the two known defects is decided within the contract
Decided == pc = "kf" => (KF_form \/ KF_cookie)
NoStuck == <>(pc # "start")
\* the same as a state predicate (used by the Gen configuration, which has no fairness)
Covered == pc = "start" => ENABLED Next
TypeOK == pc \in {"start", "done", "kf"} /\ C!TypeOK

TokRec(t) == [c |-> t.c, p |-> t.p]
Emit == (pc # "start") =>
          Serialize(<<[id |-> TLCGet("distinct"), site |-> cfg.site,
                       toks |-> [i \in DOMAIN cfg.toks |-> TokRec(cfg.toks[i])],
                       expect |-> out, kf |-> (pc = "kf")]>>,
                    IOEnv.VERIF_OUT,
                    [format |-> "NDJSON", charset |-> "UTF-8",
                     openOptions |-> <<"WRITE", "CREATE", "APPEND">>])
=============================================================================
