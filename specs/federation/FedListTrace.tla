---------------------------- MODULE FedListTrace ----------------------------
(***************************************************************************)
(* Judge for C20: validates ndjson traces recorded from the real           *)
(* federation.Conn (harness/C20_federation/list_driver_test.go) against    *)
(* FedListContract.  Events:                                               *)
(*   {"ev":"reset","scn":id,"local":0,"known":[0,1,2],"filters":[[u..]..], *)
(*    "exists":[u..],"nraw":n,"max":m,"other":b,"count":b,"limit":b,       *)
(*    "offset":b,"order":b}                                                *)
(*   {"ev":"call","c":cluster,"batch":[u..]}                               *)
(*   {"ev":"resp","c":cluster,"batch":[u..],"err":b,"items":[u..]}         *)
(*   {"ev":"done","ok":b,"items":[u..]}                                    *)
(* Abstract UUIDs: cluster*10+k (0..89), 90..98 malformed strings, 99 a    *)
(* string the harness did not create.                                      *)
(***************************************************************************)
EXTENDS FedListContract, TraceIO

NoCfg == [local |-> 0, known |-> {0}, filters |-> <<>>, exists |-> {}, nraw |-> 0, max |-> 0,
          other |-> FALSE, count |-> FALSE, limit |-> FALSE, offset |-> FALSE, order |-> FALSE]

TraceInit == l = 1 /\ CInit(NoCfg)

TraceReset ==
    /\ IsEvent("reset")
    /\ cfg' = [local |-> Ev.local, known |-> Range(Ev.known),
               filters |-> [i \in DOMAIN Ev.filters |-> Range(Ev.filters[i])],
               exists |-> Range(Ev.exists), nraw |-> Ev.nraw, max |-> Ev.max,
               other |-> Ev.other, count |-> Ev.count, limit |-> Ev.limit,
               offset |-> Ev.offset, order |-> Ev.order]
    /\ ncalls' = [k \in AllClusters |-> 0]
    /\ fault' = FALSE
    /\ weird' = FALSE
    /\ anycall' = FALSE
    /\ returned' = [k \in AllClusters |-> {}]
    /\ done' = "no"

TraceCall == IsEvent("call") /\ Call(Ev.c, Range(Ev.batch))
TraceResp == IsEvent("resp") /\ Resp(Ev.c, Range(Ev.batch), Ev.err, Ev.items)
TraceDone == IsEvent("done") /\ ListDone(Ev.ok, Ev.items)

TraceNext == TraceReset \/ TraceCall \/ TraceResp \/ TraceDone

TraceSpec == TraceInit /\ [][TraceNext]_<<cvars, l>>
=============================================================================
