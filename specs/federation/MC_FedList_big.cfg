SPECIFICATION PSpec
CONSTANTS
  Local = 0
  Known = {0, 1, 2}
  U = {1, 2, 11, 12, 21, 31, 90}
  U2 = {11, 90}
  MaxSet = {2, 9}
  Flags = {"none", "other", "count", "limit", "offset", "order"}
  Faults = {"err", "noprog", "extra", "lie"}
  MaxFaults = 2
  TightExists = FALSE
  MaxHist = 0
VIEW view
INVARIANTS TypeOK CallBound BatchIsTodo NoDupMerged
PROPERTIES Refines
CHECK_DEADLOCK FALSE
