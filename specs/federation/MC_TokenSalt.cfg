SPECIFICATION Spec
CONSTANTS
  MaxToks = 2
INVARIANTS TypeOK Decided Covered
PROPERTIES NoStuck
CHECK_DEADLOCK FALSE
