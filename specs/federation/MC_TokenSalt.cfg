SPECIFICATION Spec
CONSTANTS
  MaxToks = 2
INVARIANTS TypeOK Decided
PROPERTIES NoStuck
CHECK_DEADLOCK FALSE
