------------------------------ MODULE FedList ------------------------------
(***************************************************************************)
(* Implementation-shaped model of lib/controller/federation/list.go        *)
(* (Conn.splitListRequest + the generated_*List merge callback).           *)
(*                                                                         *)
(*   Precheck      lines 111-213: bypass is not modelled; filter           *)
(*                 intersection (matchAllFilters), dropping strings whose  *)
(*                 length is not 27, collating by prefix (todoByRemote),   *)
(*                 "no uuid filter" / "all local" -> one pass-through call *)
(*                 to the local backend, nothing left -> empty result,     *)
(*                 the four rejection rules, else one goroutine per prefix *)
(*   GLookup(c)    lines 227-233: backend for the prefix, or 404 to errs   *)
(*   GCall(c)      lines 241-251: `for len(todo) > 0`; batch is reduced to *)
(*                 todo whenever it is larger, and because only delivered  *)
(*                 UUIDs leave todo, batch = todo at every call            *)
(*   GResp(c, r)   the backend's answer (environment) + the merge callback *)
(*                 (generated_CollectionList: append to `merged` under the *)
(*                 mutex, BEFORE the progress test)                        *)
(*   GProc(c)      lines 252-271: error -> 502 to errs; delete delivered   *)
(*                 from todo; zero items -> break; no progress -> 502      *)
(*   Collect       lines 279-287: receive one value from errs, remember    *)
(*                 the first error (cancel() only cancels the context; the *)
(*                 other goroutines run on, their later calls may fail,    *)
(*                 which is just another `err` answer)                     *)
(*   Return        line 288 + generated_*List: (merged, firstErr)          *)
(*                                                                         *)
(* The environment chooses each answer: a well-behaved page (any non-empty *)
(* subset of batch \cap exists, or empty if that is empty), and the faults *)
(* "err", "noprog" (one object nobody asked for), "extra" (progress plus   *)
(* an object nobody asked for), "lie" (empty although something exists).   *)
(*                                                                         *)
(* Contract variables are ghost state; Refines says every step is a step   *)
(* or stutter of FedListContract.                                          *)
(***************************************************************************)
EXTENDS Integers, Sequences, FiniteSets, TLC, Json, IOUtils, SequencesExt

CONSTANTS Local,      \* local cluster id
          Known,      \* clusters with a backend (Local included)
          U,          \* universe of abstract UUIDs for the first filter
          U2,         \* universe for the second filter (subset of U; {} = never two filters)
          MaxSet,     \* values of API.MaxItemsPerResponse
          Flags,      \* subset of {"none","other","count","limit","offset","order"}
          Faults,     \* subset of {"err","noprog","extra","lie"}
          MaxFaults,  \* max faulty answers per request
          TightExists,\* TRUE: only requested objects may exist (Gen: drops irrelevant variation)
          MaxHist     \* bound on the recorded history (Gen only)

VARIABLES cfg, ncalls, fault, weird, anycall, returned, done,       \* contract ghost state
          pc,        \* "start" | "passlocal" | "passwait" | "collect" | "returned"
          req,       \* well-formed UUIDs in the intersection of the filters
          todo,      \* cluster -> set (todoByRemote[c]); {} if not involved
          batch,     \* cluster -> set sent in the outstanding call
          gpc,       \* cluster -> "idle" | "init" | "loop" | "wait" | "proc" | "sent"
          page,      \* cluster -> [err, items] last answer
          errs,      \* the errs channel: sequence of BOOLEAN (TRUE = an error value)
          nrecv, firstErr,
          merged,    \* sequence of UUIDs (merged.Items)
          nfaults,
          hist

C == INSTANCE FedListContract
cvars == <<cfg, ncalls, fault, weird, anycall, returned, done>>
ivars == <<pc, req, todo, batch, gpc, page, errs, nrecv, firstErr, merged, nfaults>>
vars  == <<cvars, ivars, hist>>
\* the raw filters matter only to Precheck; afterwards `req` and cfg.nraw carry all they decide
\* and the order of `merged` and of the values in `errs` decides nothing (only which UUIDs, how often,
\* and whether an error value is among them)
CountIn(sq, x) == Cardinality({i \in DOMAIN sq : sq[i] = x})
BagOfSeq(sq) == [x \in {sq[i] : i \in DOMAIN sq} |-> CountIn(sq, x)]
view  == <<IF pc = "start" THEN cfg ELSE [cfg EXCEPT !.filters = <<>>],
           ncalls, fault, weird, anycall, returned, done,
           pc, req, todo, batch, gpc, page, BagOfSeq(errs), nrecv, firstErr, BagOfSeq(merged), nfaults>>

Cl == 0 .. 4
Valid(u) == C!Valid(u)
Home(u)  == C!Home(u)

FlagRec(f) == [other |-> f = "other", count |-> f = "count", limit |-> f = "limit",
               offset |-> f = "offset", order |-> f = "order"]

FilterSeqs == {<<a>> : a \in SUBSET U} \cup {<<a, b>> : a \in SUBSET U, b \in (SUBSET U2) \ {{}}}
              \cup {<<>>}

ExistsUniverse == {u \in U : Valid(u) /\ Home(u) \in Known}

Init ==
    \E fs \in FilterSeqs, ex \in SUBSET ExistsUniverse, f \in Flags, mx \in MaxSet, dup \in {0, 1} :
        /\ C!CInit([local |-> Local, known |-> Known, filters |-> fs, exists |-> ex,
                    nraw |-> dup + (IF Len(fs) = 0 THEN 0 ELSE IF Len(fs) = 1 THEN Cardinality(fs[1])
                                    ELSE Cardinality(fs[1]) + Cardinality(fs[2])),
                    max |-> mx] @@ FlagRec(f))
        /\ (TightExists => ex \subseteq C!Inter(fs))
        /\ (dup = 1 => Len(fs) > 0 /\ fs[1] # {})        \* one operand entry written twice
        /\ pc = "start"
        /\ req = {}
        /\ todo = [c \in Cl |-> {}]
        /\ batch = [c \in Cl |-> {}]
        /\ gpc = [c \in Cl |-> "idle"]
        /\ page = [c \in Cl |-> [err |-> FALSE, items |-> {}]]
        /\ errs = <<>>
        /\ nrecv = 0
        /\ firstErr = FALSE
        /\ merged = <<>>
        /\ nfaults = 0
        /\ hist = <<>>

Involved == {c \in Cl : gpc[c] # "idle"}

Precheck ==
    /\ pc = "start"
    /\ LET matchAll == C!Inter(cfg.filters)
           valid    == {u \in matchAll : Valid(u)}
           inv      == {Home(u) : u \in valid}
       IN  /\ req' = valid
           /\ IF Len(cfg.filters) = 0 \/ inv = {Local}
              THEN /\ pc' = "passlocal"
                   /\ UNCHANGED <<cvars, todo, gpc>>
              ELSE IF inv = {}
              THEN /\ C!ListDone(TRUE, <<>>)
                   /\ pc' = "returned"
                   /\ UNCHANGED <<todo, gpc>>
              ELSE IF \/ cfg.other \/ cfg.count \/ cfg.limit \/ cfg.offset \/ cfg.order
                      \/ Cardinality(valid) > cfg.max
              THEN /\ C!ListDone(FALSE, <<>>)
                   /\ pc' = "returned"
                   /\ UNCHANGED <<todo, gpc>>
              ELSE /\ todo' = [c \in Cl |-> {u \in valid : Home(u) = c}]
                   /\ gpc' = [c \in Cl |-> IF c \in inv THEN "init" ELSE "idle"]
                   /\ pc' = "collect"
                   /\ UNCHANGED cvars
    /\ UNCHANGED <<batch, page, errs, nrecv, firstErr, merged, nfaults, hist>>

\* pass-through: fn(ctx, local, opts) once, result returned as it is
PassCall ==
    /\ pc = "passlocal"
    /\ C!Call(Local, C!Inter(cfg.filters))
    /\ pc' = "passwait"
    /\ UNCHANGED <<req, todo, batch, gpc, page, errs, nrecv, firstErr, merged, nfaults, hist>>

PassResp(e) ==
    /\ pc = "passwait"
    /\ LET its == SetToSeq(IF e THEN {} ELSE req \cap cfg.exists) IN
         /\ C!Resp(Local, C!Inter(cfg.filters), e, its)
         /\ merged' = its
    /\ firstErr' = e
    /\ pc' = "passdone"
    /\ hist' = IF Len(hist) < MaxHist THEN Append(hist, [c |-> Local, k |-> IF e THEN "err" ELSE "page", items |-> <<>>]) ELSE hist
    /\ UNCHANGED <<req, todo, batch, gpc, page, errs, nrecv, nfaults>>

PassReturn ==
    /\ pc = "passdone"
    /\ C!ListDone(~firstErr, merged)
    /\ pc' = "returned"
    /\ UNCHANGED <<req, todo, batch, gpc, page, errs, nrecv, firstErr, merged, nfaults, hist>>

GLookup(c) ==
    /\ pc = "collect" /\ gpc[c] = "init"
    /\ IF c \in Known
       THEN gpc' = [gpc EXCEPT ![c] = "loop"] /\ UNCHANGED errs
       ELSE gpc' = [gpc EXCEPT ![c] = "sent"] /\ errs' = Append(errs, TRUE)
    /\ UNCHANGED <<cvars, pc, req, todo, batch, page, nrecv, firstErr, merged, nfaults, hist>>

GCall(c) ==
    /\ pc = "collect" /\ gpc[c] = "loop"
    /\ IF todo[c] = {}
       THEN /\ gpc' = [gpc EXCEPT ![c] = "sent"]
            /\ errs' = Append(errs, FALSE)
            /\ UNCHANGED <<cvars, batch>>
       ELSE /\ C!Call(c, todo[c])
            /\ batch' = [batch EXCEPT ![c] = todo[c]]
            /\ gpc' = [gpc EXCEPT ![c] = "wait"]
            /\ UNCHANGED errs
    /\ UNCHANGED <<pc, req, todo, page, nrecv, firstErr, merged, nfaults, hist>>

\* an object of cluster c nobody asked for
Stranger(c) == c * 10 + 9

Opt(cond, S) == IF cond THEN S ELSE {}

Answers(c) ==
    LET have == batch[c] \cap cfg.exists
        more == nfaults < MaxFaults
    IN  {[k |-> "page", err |-> FALSE, items |-> s] : s \in IF have = {} THEN {{}} ELSE (SUBSET have) \ {{}}}
        \cup Opt(more /\ "err" \in Faults,    {[k |-> "err", err |-> TRUE, items |-> {}]})
        \cup Opt(more /\ "noprog" \in Faults, {[k |-> "noprog", err |-> FALSE, items |-> {Stranger(c)}]})
        \cup Opt(more /\ "extra" \in Faults /\ have # {},
                 {[k |-> "extra", err |-> FALSE, items |-> s \cup {Stranger(c)}] : s \in (SUBSET have) \ {{}}})
        \cup Opt(more /\ "lie" \in Faults /\ have # {}, {[k |-> "lie", err |-> FALSE, items |-> {}]})

GResp(c, r) ==
    /\ pc = "collect" /\ gpc[c] = "wait"
    /\ r \in Answers(c)
    /\ LET its == SetToSeq(r.items) IN
         /\ C!Resp(c, batch[c], r.err, its)
         /\ merged' = IF r.err THEN merged ELSE merged \o its     \* the callback merges first
         /\ hist' = IF Len(hist) < MaxHist THEN Append(hist, [c |-> c, k |-> r.k, items |-> its]) ELSE hist
    /\ page' = [page EXCEPT ![c] = [err |-> r.err, items |-> r.items]]
    /\ nfaults' = IF r.k = "page" THEN nfaults ELSE nfaults + 1
    /\ gpc' = [gpc EXCEPT ![c] = "proc"]
    /\ UNCHANGED <<pc, req, todo, batch, errs, nrecv, firstErr>>

GProc(c) ==
    /\ pc = "collect" /\ gpc[c] = "proc"
    /\ IF page[c].err
       THEN /\ errs' = Append(errs, TRUE)
            /\ gpc' = [gpc EXCEPT ![c] = "sent"]
            /\ UNCHANGED todo
       ELSE /\ todo' = [todo EXCEPT ![c] = @ \ page[c].items]
            /\ IF page[c].items = {}
               THEN errs' = Append(errs, FALSE) /\ gpc' = [gpc EXCEPT ![c] = "sent"]       \* break
               ELSE IF page[c].items \cap todo[c] = {}
               THEN errs' = Append(errs, TRUE) /\ gpc' = [gpc EXCEPT ![c] = "sent"]        \* no progress
               ELSE UNCHANGED errs /\ gpc' = [gpc EXCEPT ![c] = "loop"]
    /\ UNCHANGED <<cvars, pc, req, batch, page, nrecv, firstErr, merged, nfaults, hist>>

Collect ==
    /\ pc = "collect" /\ Len(errs) > 0
    /\ firstErr' = (firstErr \/ Head(errs))
    /\ errs' = Tail(errs)
    /\ nrecv' = nrecv + 1
    /\ UNCHANGED <<cvars, pc, req, todo, batch, gpc, page, merged, nfaults, hist>>

Return ==
    /\ pc = "collect" /\ nrecv = Cardinality(Involved)
    /\ C!ListDone(~firstErr, merged)
    /\ pc' = "returned"
    /\ UNCHANGED <<req, todo, batch, gpc, page, errs, nrecv, firstErr, merged, nfaults, hist>>

Next == \/ Precheck \/ PassCall \/ PassReturn \/ Collect \/ Return
        \/ \E e \in BOOLEAN : PassResp(e)
        \/ \E c \in Cl : GLookup(c) \/ GCall(c) \/ GProc(c) \/ (\E r \in Answers(c) : GResp(c, r))

Spec == Init /\ [][Next]_vars /\ WF_vars(Next)

(* Gen: internal steps are taken eagerly in a fixed order, so that a path is  *)
(* determined by the environment's choices (which cluster is answered next,   *)
(* and how) only.                                                             *)
Ready == {c \in Cl : gpc[c] \in {"init", "loop", "proc"}}
MinOf(S) == CHOOSE x \in S : \A y \in S : x <= y
GenNext ==
    \/ Precheck \/ PassCall \/ PassReturn
    \/ \E e \in BOOLEAN : PassResp(e)
    \/ /\ pc = "collect"
       /\ IF Ready # {}
          THEN LET c == MinOf(Ready) IN GLookup(c) \/ GCall(c) \/ GProc(c)
          ELSE IF Len(errs) > 0 THEN Collect
          ELSE IF nrecv = Cardinality(Involved) THEN Return
          ELSE \E c \in Cl : \E r \in Answers(c) : GResp(c, r)
GenSpec == Init /\ [][GenNext]_vars
\* the same reduced interleaving with fairness, for the larger exhaustive configurations
PSpec == Init /\ [][GenNext]_vars /\ WF_vars(GenNext)

------------------------------------------------------------------------------
(* Design-level checks *)

Refines == [][\/ (\E c \in Cl : C!Call(c, todo[c]))
              \/ C!Call(Local, C!Inter(cfg.filters))
              \/ (\E c \in Cl : \E e \in BOOLEAN : C!Resp(c, batch[c], e, SetToSeq(page'[c].items)))
              \/ (\E e \in BOOLEAN : C!Resp(Local, C!Inter(cfg.filters), e, merged'))
              \/ (\E ok \in BOOLEAN : C!ListDone(ok, merged))
              \/ UNCHANGED cvars]_vars

TypeOK == /\ pc \in {"start", "passlocal", "passwait", "passdone", "collect", "returned"}
          /\ \A c \in Cl : gpc[c] \in {"idle", "init", "loop", "wait", "proc", "sent"}
          /\ \A c \in Cl : todo[c] \subseteq req
          /\ C!TypeOK

\* the design's tight bound on the number of calls per cluster
CallBound == \A c \in Cl : pc = "collect" => ncalls[c] <= Cardinality(C!ReqOf(c)) + 1

\* batch = todo at every call, and delivered UUIDs leave todo
BatchIsTodo == \A c \in Cl : gpc[c] = "wait" => batch[c] = todo[c]

\* nothing is merged twice as long as every answer was a well-behaved page
NoDupMerged == (pc = "collect" /\ ~fault /\ ~weird) => Cardinality(C!Range(merged)) = Len(merged)

\* a request that was split succeeds iff it saw no error value
Terminates == <>(pc = "returned")

------------------------------------------------------------------------------
(* Scenario emission (Gen configuration) *)
SeqOfSets(fs) == [i \in DOMAIN fs |-> SetToSeq(fs[i])]
Emit == (pc = "returned") =>
          Serialize(<<[id |-> TLCGet("distinct"), local |-> Local, known |-> SetToSeq(Known),
                       filters |-> SeqOfSets(cfg.filters), exists |-> SetToSeq(cfg.exists),
                       nraw |-> cfg.nraw, max |-> cfg.max,
                       other |-> cfg.other, count |-> cfg.count, limit |-> cfg.limit,
                       offset |-> cfg.offset, order |-> cfg.order,
                       steps |-> hist, expect |-> done, expect_items |-> merged]>>,
                    IOEnv.VERIF_OUT,
                    [format |-> "NDJSON", charset |-> "UTF-8",
                     openOptions |-> <<"WRITE", "CREATE", "APPEND">>])
=============================================================================
