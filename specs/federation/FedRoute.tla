------------------------------ MODULE FedRoute ------------------------------
(***************************************************************************)
(* Implementation-shaped table of lib/controller/federation/conn.go:       *)
(*   chooseBackend(id): a 27-character id is reduced to its first five; an *)
(*     id that is neither 27 nor 5 characters long -> local; the own       *)
(*     cluster id -> local; a configured remote -> that remote; anything   *)
(*     else -> local ("TODO: return an always error backend?")             *)
(*   localOrLoginCluster(): chooseBackend(Login.LoginCluster) if set       *)
(* and of which wrapper uses which (the sets below).  Not in this table:   *)
(* the *List methods (FedList.tla), CollectionGet by portable data hash    *)
(* (FedFetch.tla), Login/Logout/ConfigGet, UserList, UserSession*.         *)
(***************************************************************************)
EXTENDS Integers, Sequences, FiniteSets, TLC, Json, IOUtils

VARIABLES cfg, ncalls, done, pc
C == INSTANCE FedRouteContract
cvars == <<cfg, ncalls, done>>
vars == <<cvars, pc>>

ByUUID == {"CollectionUpdate", "CollectionGet", "CollectionProvenance", "CollectionUsedBy", "CollectionDelete",
           "CollectionTrash", "CollectionUntrash", "ContainerUpdate", "ContainerGet", "ContainerDelete",
           "ContainerLock", "ContainerUnlock", "ContainerSSH", "ContainerRequestUpdate", "ContainerRequestGet",
           "ContainerRequestDelete", "GroupUpdate", "GroupGet", "GroupContents", "GroupDelete", "GroupUntrash",
           "SpecimenUpdate", "SpecimenGet", "SpecimenDelete", "UserUpdate", "UserGet", "UserGetSystem",
           "UserDelete", "APIClientAuthorizationCurrent"}
ByCluster == {"CollectionCreate", "ContainerCreate", "ContainerRequestCreate", "GroupCreate", "GroupShared",
              "SpecimenCreate", "UserCreate"}
LocalOnly == {"UserUpdateUUID", "UserMerge", "UserGetCurrent", "UserBatchUpdate", "UserAuthenticate"}
LoginRouted == {"UserActivate", "UserSetup", "UserUnsetup"}
Methods == ByUUID \cup ByCluster \cup LocalOnly \cup LoginRouted

McOf(m) == CASE m \in ByUUID -> "uuid" [] m \in ByCluster -> "cluster" [] m \in LocalOnly -> "local" [] OTHER -> "login"

Prefixes == {"local", "R1", "R2", "unknown", "bogus", "empty"}

Init == \E m \in Methods, p \in Prefixes, k \in {{"R1", "R2"}, {"R1"}, {}}, lg \in {"none", "R1"} :
          \* CollectionGet with something that is not a UUID is a lookup by portable data hash
          /\ ~(m = "CollectionGet" /\ p \in {"bogus", "empty"})
          /\ C!CInit([method |-> m, mc |-> McOf(m), pfx |-> p, known |-> k, login |-> lg])
          /\ pc = "start"

\* chooseBackend
Choose(id, known) == IF id \in known THEN id ELSE "local"
Tok == [salted |-> TRUE, leak |-> FALSE, foreign |-> FALSE, uuid |-> TRUE]

Route ==
    /\ pc = "start"
    /\ LET d == CASE cfg.mc \in {"uuid", "cluster"} -> Choose(cfg.pfx, cfg.known)
                  [] cfg.mc = "local" -> "local"
                  [] OTHER -> IF cfg.login = "none" THEN "local" ELSE Choose(cfg.login, cfg.known)
       IN  C!Call(d, Tok)
    /\ pc' = IF cfg.method = "UserSetup" /\ ncalls'["local"] = 0 THEN "setup2" ELSE "called"
    /\ UNCHANGED done

\* UserSetup: after the login cluster, the local cluster too
Setup2 == /\ pc = "setup2"
          /\ C!Call("local", Tok)
          /\ pc' = "called"
          /\ UNCHANGED done

Return == pc = "called" /\ C!Done(TRUE) /\ pc' = "done"

Next == Route \/ Setup2 \/ Return
Spec == Init /\ [][Next]_vars /\ WF_vars(Next)

TypeOK == C!TypeOK /\ pc \in {"start", "setup2", "called", "done"}
Covered == pc # "done" => ENABLED Next

Emit == (pc = "done") =>
          Serialize(<<[id |-> TLCGet("distinct"), method |-> cfg.method, mc |-> cfg.mc, pfx |-> cfg.pfx,
                       known |-> (IF "R1" \in cfg.known THEN <<"R1">> ELSE <<>>) \o (IF "R2" \in cfg.known THEN <<"R2">> ELSE <<>>),
                       login |-> cfg.login,
                       expect |-> (IF ncalls["local"] = 1 THEN <<"local">> ELSE <<>>) \o
                                  (IF ncalls["R1"] = 1 THEN <<"R1">> ELSE <<>>) \o (IF ncalls["R2"] = 1 THEN <<"R2">> ELSE <<>>)]>>,
                    IOEnv.VERIF_OUT,
                    [format |-> "NDJSON", charset |-> "UTF-8",
                     openOptions |-> <<"WRITE", "CREATE", "APPEND">>])
=============================================================================
