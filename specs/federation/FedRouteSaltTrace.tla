---------------------------- MODULE FedRouteSaltTrace --------------------------
(***************************************************************************)
(* Judge for the SALTING clause only (SaltOK = C19's statement) on the     *)
(* traces of harness/C20_route_federation: wherever a request arrives,     *)
(* right backend or not, the token it carries must be salted for that      *)
(* remote.  Strict: a rejection is a C19 violation (checks/C19.py).        *)
(* Events:                                                                 *)
(*   {"ev":"reset","scn":id,"method":m,"mc":c,"pfx":p,"known":[..],        *)
(*    "login":l}                                                           *)
(*   {"ev":"call","dest":d,"tok":{"salted":b,"leak":b,"foreign":b}}        *)
(*   {"ev":"side","dest":d,"method":m}     {"ev":"done","ok":b}            *)
(***************************************************************************)
EXTENDS FedRouteContract, TraceIO

Range(s) == {s[i] : i \in DOMAIN s}

TraceInit == l = 1 /\ CInit([method |-> "none", mc |-> "local", pfx |-> "local", known |-> {}, login |-> "none"])

TraceReset == /\ IsEvent("reset")
              /\ cfg' = [method |-> Ev.method, mc |-> Ev.mc, pfx |-> Ev.pfx, known |-> Range(Ev.known), login |-> Ev.login]
              /\ ncalls' = [d \in Dests |-> 0]
              /\ done' = FALSE

TraceCall == IsEvent("call") /\ SaltOK(Ev.dest, Ev.tok) /\ UNCHANGED cvars
TraceSide == IsEvent("side") /\ Side(Ev.dest)
TraceDone == IsEvent("done") /\ Done(Ev.ok)

TraceNext == TraceReset \/ TraceCall \/ TraceSide \/ TraceDone
TraceSpec == TraceInit /\ [][TraceNext]_<<cvars, l>>
=============================================================================
