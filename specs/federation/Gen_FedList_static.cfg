SPECIFICATION GenSpec
CONSTANTS
  Local = 0
  Known = {0, 1}
  U = {1, 11, 21, 90}
  U2 = {11, 90}
  MaxSet = {1, 9}
  Flags = {"none", "other", "count", "limit", "offset", "order"}
  Faults = {}
  MaxFaults = 0
  TightExists = TRUE
  MaxHist = 30
INVARIANTS Emit TypeOK CallBound BatchIsTodo NoDupMerged
PROPERTIES Refines
CHECK_DEADLOCK FALSE
