SPECIFICATION Spec
CONSTANTS
  MaxToks = 2
INVARIANTS Emit
CHECK_DEADLOCK FALSE
