SPECIFICATION Spec
CONSTANTS
  MaxToks = 2
INVARIANTS Emit TypeOK Decided Covered
CHECK_DEADLOCK FALSE
