---------------------------- MODULE FedFetchTrace ----------------------------
(***************************************************************************)
(* Judge for C18: validates ndjson traces recorded from the real           *)
(* Conn.CollectionGet (harness/C18_federation/fetch_driver_test.go)        *)
(* against FedFetchContract.  Events:                                      *)
(*   {"ev":"reset","scn":id,"n":remotes,"mode":"pdh"|"uuid"}               *)
(*   {"ev":"ask","b":backend}                                              *)
(*   {"ev":"answer","b":backend,"k":kind}                                  *)
(*   {"ev":"cancel"}                 the client cancelled: clause (b) void  *)
(*   {"ev":"done","ok":b,"pdhOK":b,"rel":[b,b,b,b,b]}                      *)
(***************************************************************************)
EXTENDS FedFetchContract, TraceIO

TraceInit == l = 1 /\ CInit([n |-> 0, mode |-> "pdh"])

TraceReset == /\ IsEvent("reset")
              /\ cfg' = [n |-> Ev.n, mode |-> Ev.mode]
              /\ ans' = [b \in Backends |-> "none"]
              /\ asked' = [b \in Backends |-> FALSE]
              /\ gaveup' = FALSE
              /\ done' = "no"

TraceAsk    == IsEvent("ask")    /\ Ask(Ev.b)
TraceAnswer == IsEvent("answer") /\ Answer(Ev.b, Ev.k)
TraceCancel == IsEvent("cancel") /\ ClientCancel
TraceDone   == IsEvent("done")   /\ GetDone(Ev.ok, Ev.pdhOK, Ev.rel)

TraceNext == TraceReset \/ TraceAsk \/ TraceAnswer \/ TraceCancel \/ TraceDone

TraceSpec == TraceInit /\ [][TraceNext]_<<cvars, l>>
=============================================================================
