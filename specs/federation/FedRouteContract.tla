-------------------------- MODULE FedRouteContract --------------------------
(***************************************************************************)
(* Contract of the per-object routing of federation.Conn (conn.go,         *)
(* chooseBackend and the one-line Get/Update/Delete/... wrappers).  There  *)
(* is no property statement of its own; it extends C20's clause "each      *)
(* [object is] obtained from the cluster named by its UUID prefix" from    *)
(* lists to single-object requests, and C19's "salted for the remote it is *)
(* sent to" to every such request, and otherwise restates what conn.go     *)
(* documents ("Return suitable backend for a query about the given cluster *)
(* ID or object UUID").                                                    *)
(*                                                                         *)
(* cfg.mc    how the method is routed (read off conn.go):                  *)
(*             "uuid"    by the prefix of options.UUID                     *)
(*             "cluster" by options.ClusterID                              *)
(*             "local"   always the local cluster                          *)
(*             "login"   the login cluster if one is configured and known  *)
(* cfg.pfx   what the UUID / cluster id names: "local" | "R1" | "R2" |     *)
(*           "unknown" (well-formed, no such remote) | "bogus" (not a UUID *)
(*           nor a cluster id) | "empty"                                   *)
(* cfg.known the remotes that are configured; cfg.login "none" | "R1"      *)
(*                                                                         *)
(* Events: Call(dest, tok)  the REQUESTED method arrived at backend dest   *)
(*           ("local" | "R1" | "R2"); tok = what a remote saw of the       *)
(*           caller's own v2 token: [salted (for dest), leak, foreign]     *)
(*         Side(dest)       another method arrived (bookkeeping such as    *)
(*           UserBatchUpdate after a remote UserGet): not constrained      *)
(*         Done(ok)                                                        *)
(* Two groups of clauses, judged separately:                               *)
(*  ROUTING (CallRoute; beyond every listed property statement, judged as  *)
(*    DRIFT only, by FedRouteTrace under checks/C20_route.py): the         *)
(*    requested method reaches only the backend named by the prefix, at    *)
(*    most once; a prefix that names no configured remote never reaches a  *)
(*    remote (the code sends it to the local cluster, which will not know  *)
(*    the object).                                                         *)
(*  SALTING (SaltOK; this IS C19's statement - "the token's secret is      *)
(*    first replaced by the hex HMAC-SHA1 of R ... appears nowhere in the  *)
(*    forwarded request" - judged strictly, by FedRouteSaltTrace under     *)
(*    checks/C19.py): whatever remote a request arrives at, the caller's   *)
(*    own v2 token is there salted for that remote, its secret is not, and *)
(*    neither is a form salted for another cluster.                        *)
(* Refusing (no Call at all) is allowed.                                   *)
(***************************************************************************)
EXTENDS Integers, Sequences, FiniteSets

VARIABLES cfg, ncalls, done
cvars == <<cfg, ncalls, done>>

Dests == {"local", "R1", "R2"}

ByPrefix(p, known) == IF p \in known THEN p ELSE "local"

AllowedDests ==
    CASE cfg.mc = "local" -> {"local"}
      [] cfg.mc = "login" -> IF cfg.login \in cfg.known
                             THEN {cfg.login} \cup (IF cfg.method = "UserSetup" THEN {"local"} ELSE {})
                             ELSE {"local"}
      [] OTHER            -> {ByPrefix(cfg.pfx, cfg.known)}

CInit(c) == cfg = c /\ ncalls = [d \in Dests |-> 0] /\ done = FALSE

CallRoute(dest) ==
    /\ dest \in AllowedDests
    /\ ncalls[dest] = 0
    /\ ncalls' = [ncalls EXCEPT ![dest] = 1]
    /\ UNCHANGED <<cfg, done>>

\* tok.uuid = the token's UUID occurs (it was forwarded in some form); not forwarding it is fine
SaltOK(dest, tok) == dest # "local" => (~tok.leak /\ ~tok.foreign /\ (tok.uuid => tok.salted))

Call(dest, tok) == CallRoute(dest) /\ SaltOK(dest, tok)

Side(dest) == dest \in Dests /\ UNCHANGED cvars

Done(ok) == ~done /\ done' = TRUE /\ UNCHANGED <<cfg, ncalls>>

TypeOK == done \in BOOLEAN
=============================================================================
