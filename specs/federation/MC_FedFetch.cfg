SPECIFICATION Spec
CONSTANTS
  Variant = "conn"
  MaxN = 3
  Modes = {"pdh", "uuid"}
  MaxHist = 0
VIEW view
INVARIANTS TypeOK FirstIsHonest ChanFits
PROPERTIES Refines Terminates
CHECK_DEADLOCK FALSE
