------------------------------ MODULE TokenSeq ------------------------------
(***************************************************************************)
(* Implementation-shaped model of federation.Conn serving one request      *)
(* context at several destinations: chooseBackend by UUID prefix (remote   *)
(* R1, remote R2, local) and tryLocalThenRemotes for a lookup by portable  *)
(* data hash (local answers 404, then R1 and R2 are asked concurrently     *)
(* with the same context).  Each remote backend is an rpc.Conn whose       *)
(* TokenProvider is saltedTokenProvider(local, id): it builds a NEW slice  *)
(* from the context's tokens (conn.go:60 `var tokens []string`), so the    *)
(* context's credentials are read only; the local backend reads them as    *)
(* they are.                                                               *)
(***************************************************************************)
EXTENDS Integers, Sequences, FiniteSets, TLC, Json, IOUtils

CONSTANTS MaxToks, MaxSteps

VARIABLES cfg, done,      \* contract
          ctx,            \* the tokens in the request context, as forms: "orig"
          plan, pc, fanleft, hist

C == INSTANCE TokenSeqContract
cvars == <<cfg, done>>
vars == <<cvars, ctx, plan, pc, fanleft, hist>>

StepKinds == {"R1", "R2", "local", "fan"}

TokSeqs == {<<a>> : a \in C!Classes} \cup (IF MaxToks >= 2 THEN {<<a, b>> : a \in C!Classes, b \in C!Classes} ELSE {})
Plans == UNION {[1 .. n -> StepKinds] : n \in 2 .. MaxSteps}

Init == \E ts \in TokSeqs, p \in Plans :
          /\ C!CInit([toks |-> ts])
          /\ ctx = [i \in DOMAIN ts |-> "orig"]
          /\ plan = p /\ pc = 1 /\ fanleft = {} /\ hist = <<>>

\* what saltedTokenProvider(local, dest) makes of an ORIGINAL token of class c
ProviderObs(c, dest) ==
    LET saltedHere == c \in C!OwnUnsalted \cup {"legLocal"} IN
      [leak |-> ~saltedHere, same |-> ~saltedHere, salted |-> saltedHere, foreign |-> FALSE, uuid |-> TRUE]
LocalObs(c) == [leak |-> TRUE, same |-> TRUE, salted |-> FALSE, foreign |-> FALSE, uuid |-> TRUE]

DeliverTo(dest) ==
    /\ \A i \in DOMAIN ctx : ctx[i] = "orig"          \* providers never write the context
    /\ C!Deliver(dest, [i \in DOMAIN cfg.toks |-> IF dest = "local" THEN LocalObs(cfg.toks[i])
                                                   ELSE ProviderObs(cfg.toks[i], dest)])

Step ==
    /\ pc <= Len(plan) /\ fanleft = {} /\ plan[pc] # "fan"
    /\ DeliverTo(plan[pc])
    /\ pc' = pc + 1
    /\ UNCHANGED <<ctx, plan, fanleft, hist>>

FanStart ==
    /\ pc <= Len(plan) /\ fanleft = {} /\ plan[pc] = "fan"
    /\ DeliverTo("local")                              \* local first; it answers 404
    /\ fanleft' = {"R1", "R2"}
    /\ UNCHANGED <<ctx, plan, pc, hist>>

FanRemote(d) ==
    /\ d \in fanleft
    /\ DeliverTo(d)
    /\ fanleft' = fanleft \ {d}
    /\ pc' = IF fanleft' = {} THEN pc + 1 ELSE pc
    /\ UNCHANGED <<ctx, plan, hist>>

Finish ==
    /\ pc = Len(plan) + 1 /\ fanleft = {} /\ ~done
    /\ C!End(\A i \in DOMAIN ctx : ctx[i] = "orig")
    /\ UNCHANGED <<ctx, plan, pc, fanleft, hist>>

Next == Step \/ FanStart \/ (\E d \in {"R1", "R2"} : FanRemote(d)) \/ Finish
Spec == Init /\ [][Next]_vars /\ WF_vars(Next)

TypeOK == C!TypeOK /\ pc \in 1 .. MaxSteps + 1
Covered == ~done => ENABLED Next
Terminates == <>done

Emit == done =>
          Serialize(<<[id |-> TLCGet("distinct"), site |-> "provseq",
                       toks |-> [i \in DOMAIN cfg.toks |-> [c |-> cfg.toks[i], p |-> "ctx"]],
                       plan |-> plan]>>,
                    IOEnv.VERIF_OUT,
                    [format |-> "NDJSON", charset |-> "UTF-8",
                     openOptions |-> <<"WRITE", "CREATE", "APPEND">>])
=============================================================================
