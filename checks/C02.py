#!/usr/bin/env python3
"""C02 - keepstore PUT is all-or-nothing and survives process death once acknowledged.

GEN   specs/keepstore/KeepstorePut.tla  MC_C02.cfg  (write path step by step; Crash / Cancel / write error at every
                                                    step; AllOrNothing in every state; contract obligations)
                                        Gen_C02.cfg (one scenario per (pre, size, mode, point))
RUN   harness/C02_keepstore             kill points in a child process (test binary re-executed), cancel points,
                                        injected write / rename / mkdir errors, on the instrumented working-tree
                                        unix_volume.go; then GET / index / directory scan by a fresh handler
                                        + a second, overlapping PUT of the same block (rival) that is acknowledged
                                        while the first stands at a label past CompareAndTouch; the first then
                                        completes, fails or is cancelled: the acknowledged block must stay
                                        + GET /index running concurrently with the PUT, turn by turn (schedules of
                                        KeepVolume.tla, Gen_C02_index.cfg): the index clause at every instant
JUDGE specs/keepstore/KeepstorePutTrace.tla (KeepstorePutContract)
"""
import os
import random
import sys

sys.path.insert(0, os.path.join(os.path.dirname(os.path.abspath(__file__)), "..", "lib"))
sys.path.insert(0, os.path.dirname(os.path.abspath(__file__)))
import vlib  # noqa
from C04 import build_instrumented  # noqa  (same instrumenter, same overlay entry)

SD = "specs/keepstore"
PKG = "services/keepstore"

MODEL_LABELS = {
    "Compare.stat", "Compare.getFunc", "Touch.OpenFile", "Touch.lock", "Touch.lockfile", "Touch.Chtimes",
    "WriteBlock.IsFull", "WriteBlock.MkdirAll", "WriteBlock.TempFile", "WriteBlock.lock", "WriteBlock.Copy",
    "WriteBlock.Write#1", "WriteBlock.Write#2", "WriteBlock.Write#3", "WriteBlock.tmpfile.Close",
    "WriteBlock.Chtimes", "WriteBlock.OpenFile", "WriteBlock.lockfile", "WriteBlock.Rename", "WriteBlock.Remove",
}
# methods on the PUT path (the request's own and the helpers they call)
PUT_METHODS = ("Compare", "Touch", "WriteBlock", "stat", "getFunc", "lock", "unlock", "lockfile", "unlockfile",
               "IsFull", "FreeDiskSpace")


def run(ctx):
    instr, labels = build_instrumented(ctx)
    src_labels = set(l for m in PUT_METHODS for l in labels["labels"].get(m, []))
    missing = sorted(MODEL_LABELS - src_labels - {"WriteBlock.Write#1", "WriteBlock.Write#2", "WriteBlock.Write#3"})
    if missing:
        ctx.drift.append("model labels not present in the instrumented source: %s" % ",".join(missing))
    extra_labels = sorted(src_labels - MODEL_LABELS)

    # GEN
    ctx.tlc(SD, "KeepstorePut", "MC_C02.cfg", timeout=900,
            label="exhaustive: AllOrNothing in every state, contract obligations, no leftovers")
    if ctx.thorough:
        r = ctx.tlc(SD, "KeepstorePut", "MC_C02_mut2.cfg", timeout=900, must_pass=False,
                    label="non-vacuity: one temp name per block (shared by overlapping uploads) is refuted")
        if r.violated != "AllOrNothing":
            raise vlib.InfraError("MC_C02_mut2.cfg was expected to refute AllOrNothing:\n" + r.tail())
        r = ctx.tlc(SD, "KeepstorePut", "MC_C02_mut.cfg", timeout=900, must_pass=False,
                    label="non-vacuity: temp names that look like blocks are refuted")
        if r.violated != "ContractHolds":
            raise vlib.InfraError("MC_C02_mut.cfg was expected to refute ContractHolds:\n" + r.tail())
    recs, _ = ctx.gen(SD, "KeepstorePut", "Gen_C02.cfg", timeout=900, label="one scenario per (pre, size, mode, point)")
    uniq = {}
    for s in recs:
        if s["point"] == "WriteBlock.errClose":
            s["point"] = "WriteBlock.tmpfile.Close"
        if s["mode"] in ("kill", "cancel", "werr") and s["point"] == "":
            continue      # the behaviour in which the fault was never applied = mode "none"
        if s["mode"] == "werr" and s["pre"] in ("intact_old", "nodir"):
            continue      # the model never reaches a write there either (Touch path / mkdir fails first)
        if s["rival"] != "" and not s["rdone"]:
            continue      # the rival's label was never reached: same as the scenario without rival
        if s["rival2"] != "" and s["rst"] not in ("abort", "finish"):
            continue      # likewise for the stalling rival
        s["rend"] = s["rst"] if s["rival2"] != "" else ""
        uniq.setdefault((s["pre"], s["n"], s["mode"], s["point"], s["occ"], s["rival"], s["rival2"], s["rend"]), s)
    scns = list(uniq.values())
    # Concretisation of pre = corrupt_old: the corruption KIND (the contract does not care which).  Every kind is
    # used with every scenario that ends in an acknowledgement (mode none / killack); the other scenarios draw one.
    rnd = random.Random(ctx.seed)
    kinds = ["flip", "trunc", "ext", "subst", "empty"]
    out = []
    for s in scns:
        if s["pre"] != "corrupt_old":
            out.append(s)
            continue
        ks = kinds if s["n"] > 0 else ["ext", "subst"]
        if s["mode"] in ("none", "killack"):
            out += [dict(s, ck=k) for k in ks]
        else:
            out.append(dict(s, ck=rnd.choice(ks)))
    scns = out
    # The stalling rival: how far the second upload gets (its label rstop, always past its TempFile) before the first
    # one resumes is a concretisation parameter - in the model the rival's steps touch nothing the first one can see
    # (unique temp names).  Right after its TempFile always; one more, seeded; all of them in the thorough tier.
    rstops = ["WriteBlock.lock", "WriteBlock.Copy", "WriteBlock.Write#1", "WriteBlock.tmpfile.Close", "WriteBlock.Chtimes"]
    out = []
    for s in scns:
        if not s.get("rival2"):
            out.append(s)
            continue
        ok = [r for r in rstops if not (r == "WriteBlock.Write#1" and s["n"] == 0)]
        use = ok if ctx.thorough else [ok[0], rnd.choice(ok[1:])]
        out += [dict(s, rstop=r) for r in use]
    scns = out
    # kill points the model does not know: every other label the source has on the PUT path
    for lab in extra_labels:
        for pre in ("none", "intact_old", "corrupt_old"):
            scns.append({"pre": pre, "n": 3, "mode": "kill", "point": lab, "occ": 1, "extra": True,
                         "ck": rnd.choice(kinds)})
    if not ctx.thorough:
        # quick: every kill point of the 3-chunk write with the three ordinary pre-states, a seeded sample of the
        # other kill scenarios (child processes are the expensive part), everything else
        kills = [s for s in scns if s["mode"] in ("kill", "killack")]
        core = [s for s in kills if not s.get("extra") and
                ((s["n"] == 3 and s["pre"] in ("none", "intact_old", "corrupt_old")) or
                 (s["mode"] == "killack" and s["pre"] == "corrupt_old"))]
        other = [s for s in kills if s not in core]
        rnd.shuffle(other)
        scns = core + other[:12] + [s for s in scns if s["mode"] not in ("kill", "killack")]
    # GET /index concurrent with the PUT (index clause at every instant of the write): schedules of KeepVolume.tla
    idx, _ = ctx.gen(SD, "KeepVolume", "Gen_C02_index.cfg", timeout=900, label="schedules GET /index || PUT")
    for s in idx:
        pre = s["pre"][0]
        scns.append({"pre": pre, "n": 1, "mode": "index", "point": "", "occ": 0,
                     "ck": rnd.choice(kinds) if pre == "corrupt_old" else "",
                     "steps": [{"a": st["a"], "l": st["l"]} for st in s["steps"]]})
    ctx.extra["index_schedules"] = len(idx)
    ctx.extra["rival_scenarios"] = sum(1 for s in scns if s.get("rival"))
    ctx.extra["stalling_rival_scenarios"] = sum(1 for s in scns if s.get("rival2"))
    if not ctx.thorough:
        r2 = [s for s in scns if s.get("rival2")]
        rnd.shuffle(r2)
        drop = set(id(s) for s in r2[140:])
        scns = [s for s in scns if id(s) not in drop]
    for i, s in enumerate(scns):
        s["id"] = i + 1
    by_id = {s["id"]: s for s in scns}
    ctx.extra["scenarios_emitted"] = len(scns)
    ctx.extra["kill_scenarios"] = sum(1 for s in scns if s["mode"] in ("kill", "killack"))
    ctx.extra["extra_kill_points"] = extra_labels

    # RUN
    c04 = os.path.join(vlib.VERIF, "harness/C04_keepstore")
    ov = ctx.harness_overlay(PKG, "harness/C02_keepstore", extra={
        PKG + "/unix_volume.go": instr,
        PKG + "/zz_verif_hooks.go": os.path.join(c04, "hooks.go"),
        PKG + "/zz_verif_vks_common_test.go": os.path.join(c04, "vks_common_test.go"),
    })
    events, out = ctx.go_run_driver(PKG, ov, "TestVerifC02$", scns, timeout=2400)
    traces = vlib.split_traces(events)
    ctx.evaluations = len(traces)
    infra = [t[0] for t in traces if t[0].get("infra")]
    if infra:
        raise vlib.InfraError("%d scenarios had infrastructure trouble (first scn=%s: %s)"
                              % (len(infra), infra[0].get("scn"), infra[0].get("infra")))
    pointed = [t[0] for t in traces if t[0]["mode"] in ("kill", "cancel", "werr")]
    skipped = [h for h in pointed if not h.get("reached")]
    ctx.extra["scenarios_skipped"] = len(skipped)
    r2 = [t[0] for t in traces if t[0].get("rival2")]
    ctx.extra["stalling_rival_applied"] = sum(1 for h in r2 if h.get("reached"))
    if r2 and ctx.extra["stalling_rival_applied"] < len(r2) // 2:
        ctx.drift.append("only %d of %d stalling-rival schedules could be applied" % (ctx.extra["stalling_rival_applied"], len(r2)))
    unexpected = [h for h in skipped if not by_id[h["scn"]].get("extra")]
    if unexpected:
        ctx.drift.append("%d model scenarios whose point was never reached (first: %s %s pre=%s n=%s)"
                         % (len(unexpected), unexpected[0]["mode"], unexpected[0]["point"], unexpected[0]["pre"],
                            unexpected[0]["n"]))
    if len(unexpected) > len(pointed) // 2:
        raise vlib.InfraError("more than half of the scenarios could not be applied")
    reached = set()
    for t in traces:
        reached.update(t[0].get("labels") or [])
    never = sorted(MODEL_LABELS - reached)
    if never:
        ctx.drift.append("model labels never reached: %s" % ",".join(never))
    unknown = sorted(l for l in reached if l.split(".")[0] in PUT_METHODS and l not in MODEL_LABELS and l not in extra_labels)
    if unknown:
        ctx.drift.append("labels reached that neither the model nor the label inventory knows: %s" % ",".join(unknown))

    # Layout-dependent observations and "the index lists what was acknowledged" are not in the statement: drift
    notlisted, tmpblk, nofile = [], [], []
    for t in traces:
        acked = any(e["ev"] == "outcome" and e["kind"] == "reply" and 200 <= e["st"] < 300 for e in t)
        for e in t:
            if e["ev"] == "index" and acked and "complete" not in e["entries"]:
                notlisted.append(t[0]["scn"])
            if e["ev"] == "dirscan" and e.get("tmpblk"):
                tmpblk.append(t[0]["scn"])
            if e["ev"] == "dirscan" and acked and e.get("blk") != "complete":
                nofile.append(t[0]["scn"])
    for what, l in (("acknowledged block not listed by the index", notlisted),
                    ("a leftover file in the block directory has a block-like name", tmpblk),
                    ("acknowledged but no complete file at <root>/<hash[:3]>/<hash>", nofile)):
        if l:
            ctx.drift.append("beyond the statement: %s in %d scenarios (first scn=%s)" % (what, len(l), l[0]))

    # JUDGE
    ctx.judge(SD, "KeepstorePutTrace", "Judge_C02.cfg", events, scenario_of=by_id)

    nontrivial = set()
    for t in traces:
        h = t[0]
        if h["mode"] == "index":
            nontrivial.add(("index", h["pre"], h.get("ck", ""), tuple(h.get("order") or [])))
        elif (h["mode"] != "none" or h.get("rival") or h.get("rival2")) and h.get("reached"):
            nontrivial.add((h["pre"], h.get("ck", ""), h["n"], h["mode"], h["point"], h["occ"], h.get("rival", ""),
                            h.get("rival2", ""), h.get("rstop", ""), h.get("rend", "")))
    ctx.extra["distinct_nontrivial"] = len(nontrivial)
    ctx.extra["labels_reached"] = len(reached)
    ctx.rule = ("scenarios = (pre-existing copy none/intact/corrupt/directory/no block dir) x (0, 1, 3 chunks) x "
                "(kill | cancel at every yield point the model reaches, kill right after the acknowledgement, write "
                "error at every chunk) from KeepstorePut.tla, plus a kill at every other label the instrumented source "
                "has on the PUT path; a corrupt pre-existing copy is one of bit flip / truncated / extended (intact prefix "
                "+ appended bytes) / substituted / zero-length, every kind with every acknowledged scenario, seeded "
                "otherwise; non-trivial = the point was reached; distinct by (pre, corruption kind, size, mode, label, "
                "occurrence)")
    ex = [t for t in traces if t[0]["mode"] == "kill" and t[0].get("reached")][:2] + \
         [t for t in traces if t[0]["mode"] == "cancel" and t[0].get("reached")][:1] + \
         [t for t in traces if t[0]["mode"] == "werr"][:1]
    ctx.samples = [{"scenario": by_id.get(t[0].get("scn")), "trace": t} for t in ex]
    ctx.trusted_base = ["tools/instrument (labels follow the source)", "kill point = SIGKILL to the own process in a "
                        "re-executed test binary", "cancel point = CloseNotifier of the response writer",
                        "content classes by byte comparison with the block / the placed corrupt copy",
                        "index line abstraction (name, size vs. the file at the block path)"]
    ctx.assumptions = ["process death, not power loss: completed system calls persist (no fsync semantics)",
                       "Directory volumes only, one volume, Serialize off",
                       "after a cancel the observation is made once no WriteBlock call is in progress",
                       "TempFile failure is not injected (no permission tricks as root); mkdir and rename failures are"]
    ctx.exhaustive = ctx.thorough


if __name__ == "__main__":
    vlib.main("C02", run)
