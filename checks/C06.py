#!/usr/bin/env python3
"""C06 - keep-balance acts only on a complete view of collections and block indexes.

Three parts, each GEN -> RUN -> JUDGE (DESIGN.md section 6, C06):

 (a) scan     specs/balance/CollectionScan.tla   (EachCollection's cursor modes x a changing table)
              harness/C06_keepbalance/scan_driver_test.go   real EachCollection, fake list API
              specs/balance/CollectionScanTrace.tla          (CollectionScanContract)
 (b) framing  specs/balance/IndexFraming.tla     (index shapes x every truncation point)
              harness/C06_arvados, C06_keepclient, C06_keepstore   the three index readers/writer
              specs/balance/IndexFramingTrace.tla            (IndexFramingContract)
 (c') sweepseq specs/balance/SweepSeq.tla        (2-3 consecutive runs, service set changing, stale trash lists)
              harness/C06_keepbalance/sweepseq_driver_test.go   real Balancer.Run x n, RunOptions threaded through
              specs/balance/SweepSeqTrace.tla                    (SweepSeqContract)
 (d) compose  specs/balance/GCCompose.tla        (TLC only: keep-balance's trash decision composed with
              keepstore's TrashItem / Trash re-checks and concurrent client writes; the assumption-dropping
              configurations must each be refuted)
 (c) sweep    specs/balance/Sweep.tla            (phases of Balancer.Run x one failing request)
              harness/C06_keepbalance/sweep_driver_test.go  real Balancer.Run, fake API + keepstores
              specs/balance/SweepTrace.tla                   (SweepContract)
"""
import json
import os
import random
import sys

sys.path.insert(0, os.path.join(os.path.dirname(os.path.abspath(__file__)), "..", "lib"))
import vlib  # noqa

SD = "specs/balance"
PARTS = [p for p in os.environ.get("VERIF_C06_PARTS", "scan,framing,sweep,sweepseq,compose").split(",") if p]


def judge_batched(ctx, module, cfg, events, by_id, batch=1000, max_rejects=5, timeout=1700):
    """ctx.judge re-judges the whole file after every rejection; judging in batches keeps a run with
    violations fast.  Stops examining after max_rejects rejections in total."""
    traces = vlib.split_traces(events)
    before = len(ctx.violations) + len(ctx.known_seen)
    for i in range(0, len(traces), batch):
        left = max_rejects - (len(ctx.violations) + len(ctx.known_seen) - before)
        if left <= 0:
            ctx.log("judge: %d rejections, not examining further traces" % max_rejects)
            break
        flat = [e for t in traces[i:i + batch] for e in t]
        ctx.judge(SD, module, cfg, flat, scenario_of=by_id, timeout=timeout, max_rejects=left)


def part_scan(ctx, rnd):
    pkg = "services/keep-balance"
    ctx.tlc(SD, "CollectionScan", "MC_CollectionScan_big.cfg" if ctx.thorough else "MC_CollectionScan.cfg",
            timeout=1700, label="scan: exhaustive, refinement of the contract, cursor invariants, termination")
    scns, r = ctx.gen(SD, "CollectionScan", "Gen_CollectionScan_big.cfg" if ctx.thorough else "Gen_CollectionScan.cfg",
                      timeout=1700, label="scan: scenario emission")
    ctx.extra["scan_scenarios_emitted"] = len(scns)
    if not scns:
        raise vlib.InfraError("scan: no scenario emitted")
    cap = 20000 if ctx.thorough else 1500
    scns.sort(key=lambda s: s["id"])
    rnd.shuffle(scns)
    # two thirds of the sample without a failing request, one third with one (initial count, a page, final count)
    nofail = [s for s in scns if s.get("failreq", -1) < 0][:cap * 2 // 3]
    withfail = [s for s in scns if s.get("failreq", -1) >= 0][:cap - len(nofail)]
    scns = nofail + withfail
    variants = ["s500", "conn", "trunc"]
    for s in scns:
        s["fvar"] = variants[(s["id"] + ctx.seed) % 3]
    # random populations beyond the model's bounds (up to 200 collections, heavy ties, page sizes
    # below and above the tie multiplicity, server-side page cap with pageSize 0)
    nrand = 1500 if ctx.thorough else 120
    base = 10 ** 7
    for i in range(nrand):
        if ctx.thorough or i % 12 == 0:
            n = rnd.choice([0, 1, 2, 3, 5, 8, 13, 30, 60, 120, 200]) if i % 3 else rnd.randint(0, 200)
        else:   # quick tier: long scans (one page request per collection) are kept few, judging them is slow
            n = rnd.choice([0, 1, 2, 3, 5, 8, 13, 30, 60])
        tmax = rnd.choice([1, 2, 3, max(1, n // 10), max(1, n // 3), max(1, n)])
        lim = rnd.choice([1, 2, 3, 4, 5, 7, 10, 25, 100, 1000])
        s = {"id": base + i, "mode": "random", "rseed": ctx.seed * 1000003 + i, "n": n, "tmax": tmax,
             "lim": lim, "nenv": rnd.choice([0, 0, 1, 2, 4, 8, 16]), "cap": 0}
        if i % 7 == 0:
            s["lim"] = 0
            s["cap"] = rnd.choice([1, 2, 3, 5, 10, 50, 1000])
        if i % 5 == 1:
            # a failing list request somewhere (a number beyond the last request means no failure)
            s["failreq"] = rnd.choice([0, 1, 2, 3, rnd.randint(0, 12)])
            s["fvar"] = rnd.choice(["s500", "conn", "trunc"])
        scns.append(s)
    by_id = {s["id"]: s for s in scns}
    ov = ctx.harness_overlay(pkg, "harness/C06_keepbalance")
    events, out = ctx.go_run_driver(pkg, ov, "TestVerifC06Scan$", scns, timeout=1500)
    traces = vlib.split_traces(events)
    # drift: the model's predicted delivery sequence / result against the real one
    ndrift = 0
    nontrivial = set()
    for t in traces:
        scn = by_id.get(t[0].get("scn"))
        dseq = [e["u"] for e in t if e["ev"] == "deliver"]
        fin = [("ok" if e["ok"] else "err") for e in t if e["ev"] == "finish"]
        if scn is not None and "expect_dseq" in scn:
            if dseq != scn["expect_dseq"] or fin != [scn["expect_fin"]]:
                ndrift += 1
                if ndrift == 1:
                    ctx.drift.append("scan: scenario %s: model predicts deliveries %s/%s, code did %s/%s"
                                     % (scn["id"], scn["expect_dseq"], scn["expect_fin"], dseq, fin))
        pages = [e for e in t if e["ev"] == "page"]
        envs = [e for e in t if e["ev"] in ("mod", "add", "del")]
        if len(pages) >= 3 or envs:
            ops = tuple(tuple(f[1] for f in e["flt"]) for e in pages)
            nontrivial.add((len(t[0]["tbl"]), t[0]["lim"], ops, tuple((e["ev"], e.get("t", 0)) for e in envs),
                            tuple(fin)))
    over = [t[0].get("scn") for t in traces if any(e["ev"] == "overrun" for e in t)]
    if over:
        ctx.drift.append("scan: %d scans did not end within the request budget (first scn=%s)" % (len(over), over[0]))
    if ndrift > 1:
        ctx.drift.append("scan: %d scenarios in total differ from the model's prediction" % ndrift)
    judge_batched(ctx, "CollectionScanTrace", "Judge_CollectionScan.cfg", events, by_id)
    ctx.evaluations += len(traces)
    ctx.extra["scan_traces"] = len(traces)
    ctx.samples += [{"scenario": by_id.get(t[0].get("scn")), "trace": t[:40]} for t in traces[:1] + traces[-1:]]
    return nontrivial


def part_framing(ctx, rnd):
    ctx.tlc(SD, "IndexFraming", "MC_IndexFraming_big.cfg" if ctx.thorough else "MC_IndexFraming.cfg",
            timeout=1700, label="framing: every shape x cut point; reader/handler models refine the contract")
    scns, r = ctx.gen(SD, "IndexFraming", "Gen_IndexFraming_big.cfg" if ctx.thorough else "Gen_IndexFraming.cfg",
                      timeout=1700, label="framing: scenario emission")
    ctx.extra["framing_scenarios_emitted"] = len(scns)
    if not scns:
        raise vlib.InfraError("framing: no scenario emitted")
    # the writer-side scenarios each build a keepstore router and make three HTTP requests: sample them
    scns.sort(key=lambda s: s["id"])
    rnd.shuffle(scns)
    wr = [s for s in scns if s["mode"] == "write"][:2500 if ctx.thorough else 300]
    rd = [s for s in scns if s["mode"] == "read"][:12000]
    scns = rd + wr
    # beyond the model's bounds: long responses, every kind of cut position
    base = 2 * 10 ** 7
    nrand = 3000 if ctx.thorough else 300
    for i in range(nrand):
        n = rnd.choice([0, 1, 2, 3, 4, 7, 20, 60])
        shape = [[rnd.randint(1, 9), rnd.choice([10, 19])] for _ in range(n)]
        total = 1 + sum(32 + 1 + e[0] + 1 + e[1] + 1 for e in shape)
        bounds = [0]
        for e in shape:
            bounds.append(bounds[-1] + 32 + 1 + e[0] + 1 + e[1] + 1)
        how = rnd.randint(0, 4)
        if how == 0:
            cut = total
        elif how == 1:
            cut = rnd.choice(bounds)                       # exactly between two lines / before the terminator
        elif how == 2:
            cut = max(0, rnd.choice(bounds) - 1)           # the newline of an entry is missing
        else:
            cut = rnd.randint(0, total - 1)
        scns.append({"id": base + i, "mode": "read", "shape": shape, "cut": cut})
    nw = 300 if ctx.thorough else 40
    for i in range(nw):
        nv = rnd.randint(1, 4)
        vols = [[[rnd.randint(1, 4), 19] for _ in range(rnd.randint(0, 5))] for _ in range(nv)]
        scns.append({"id": base + nrand + i, "mode": "write", "vols": vols, "failvol": rnd.randint(0, nv), "failat": 0,
                     "dir": True})
    for s in scns:
        s["eof"] = "unexpected" if (s["id"] + ctx.seed) % 4 == 0 else "clean"
    by_id = {s["id"]: s for s in scns}
    events = []
    per_reader = []
    for pkg, hd, test in (("sdk/go/arvados", "harness/C06_arvados", "TestVerifC06Index$"),
                          ("sdk/go/keepclient", "harness/C06_keepclient", "TestVerifC06GetIndex$"),
                          ("services/keepstore", "harness/C06_keepstore", "TestVerifC06IndexWriter$")):
        ov = ctx.harness_overlay(pkg, hd)
        ev, out = ctx.go_run_driver(pkg, ov, test, scns, timeout=1500)
        events += ev
        per_reader.append(ev)
    traces = vlib.split_traces(events)
    nontrivial = set()
    whole_rejected = 0
    writer_untruncated = 0
    first_wr = first_wu = None
    for t in traces:
        h = t[0]
        for e in t[1:]:
            if e["ev"] == "read":
                if h["cut"] == h["n"] and e["err"]:
                    whole_rejected += 1
                    first_wr = first_wr or t
                if 0 < h["cut"] < h["n"]:
                    nontrivial.add((h["rdr"], tuple(map(tuple, h["shape"])), h["cut"]))
            elif e["ev"] == "write":
                if not e["failed"] and (e["status"] != 200 or not e["term"] or e["e1"] or e["e2"]):
                    whole_rejected += 1
                    first_wr = first_wr or t
                if e["failed"]:
                    nontrivial.add((h["rdr"], h["nvols"], h["failvol"], h["failat"], h["dir"], h["path"]))
                    if e["status"] == 200 and e["term"]:
                        writer_untruncated += 1
                        first_wu = first_wu or t
    if whole_rejected:
        ctx.drift.append("framing: %d complete index responses were not accepted, first: %s"
                         % (whole_rejected, json.dumps(first_wr)[:600]))
    if writer_untruncated:
        # a writer obligation, not in the statement (which is about readers): drift, never a violation
        ctx.drift.append("framing: keepstore terminated %d index responses with the empty line although a volume "
                         "failed while being indexed, first: %s" % (writer_untruncated, json.dumps(first_wu)[:500]))
    ctx.extra["framing_writer_untruncated"] = writer_untruncated
    for ev in per_reader:
        judge_batched(ctx, "IndexFramingTrace", "Judge_IndexFraming.cfg", ev, by_id, batch=20000, max_rejects=3)
    ctx.evaluations += len(traces)
    ctx.extra["framing_traces"] = len(traces)
    ctx.samples += [{"scenario": by_id.get(t[0].get("scn")), "trace": t} for t in traces[5:6] + traces[-1:]]
    return nontrivial


def part_sweep(ctx, rnd):
    pkg = "services/keep-balance"
    ctx.tlc(SD, "Sweep", "MC_Sweep_big.cfg" if ctx.thorough else "MC_Sweep.cfg", timeout=1700,
            label="sweep: all interleavings of index fetches / collection producer / consumer x one failing "
                  "request; refinement, no commit after a failure, Run always returns")
    scns, r = ctx.gen(SD, "Sweep", "Gen_Sweep_big.cfg" if ctx.thorough else "Gen_Sweep.cfg", timeout=1700,
                      label="sweep: scenario emission (configuration x failing request)")
    ctx.extra["sweep_scenarios_emitted"] = len(scns)
    if not scns:
        raise vlib.InfraError("sweep: no scenario emitted")
    variants = ["s500", "conn", "trunc", "trunc2"]
    for s in scns:
        s["fvar"] = variants[(s["id"] + ctx.seed) % 4]
        s["lim"] = 2
        s["bufs"] = [1, 0, 2, 1000][(s["id"] // 4 + ctx.seed) % 4]
    # beyond the model's bounds: more servers and pages, ties (more page requests), any page size
    base = 3 * 10 ** 7
    nrand = 1500 if ctx.thorough else 200
    for i in range(nrand):
        S = rnd.randint(1, 6)
        pages = rnd.randint(0, 6)
        m2 = rnd.random() < 0.4
        kinds = [("none", 0), ("services", 0), ("user", 0), ("collnull", 0), ("discovery", 0),
                 ("collcount", rnd.randint(1, 2)), ("mounts", rnd.randint(1, S)),
                 ("index", rnd.randint(1, S + (1 if m2 else 0))), ("index", rnd.randint(1, S + (1 if m2 else 0))),
                 ("collpage", rnd.randint(1, pages + 2)), ("collpage", rnd.randint(1, pages + 2)),
                 ("clear", rnd.randint(1, S)), ("pull", rnd.randint(1, S)), ("trash", rnd.randint(1, S))]
        fk, ft = rnd.choice(kinds)
        trash = rnd.random() < 0.8
        scns.append({"id": base + i, "S": S, "m2": m2, "pages": pages, "lim": rnd.randint(1, 3),
                     "ties": rnd.random() < 0.5, "pulls": rnd.random() < 0.8, "trash": trash,
                     "clear": trash and rnd.random() < 0.5, "fk": fk, "ft": ft, "fvar": rnd.choice(variants),
                     "bufs": rnd.choice([0, 1, 2, 1000])})
    by_id = {s["id"]: s for s in scns}
    ov = ctx.harness_overlay(pkg, "harness/C06_keepbalance")
    events, out = ctx.go_run_driver(pkg, ov, "TestVerifC06Sweep$", scns, timeout=1500)
    traces = vlib.split_traces(events)
    nontrivial = set()
    n_ok_after_fail = n_put_after_fail = n_unexpected = n_unreached = 0
    for t in traces:
        scn = by_id.get(t[0].get("scn")) or {}
        failed_at = [i for i, e in enumerate(t) if e.get("failed")]
        done = [e for e in t if e["ev"] == "done"]
        ok = bool(done and done[0]["ok"])
        if failed_at and ok:
            n_ok_after_fail += 1
        if failed_at and any(e["ev"] == "put" and e["n"] > 0 for e in t[failed_at[0] + 1:]) \
                and t[failed_at[0]]["ev"] == "req":
            n_put_after_fail += 1
        if "expect_ok" in scn and scn["expect_ok"] != ok:
            n_unexpected += 1
        if scn.get("fk", "none") != "none" and not failed_at and "expect_ok" in scn:
            n_unreached += 1
            if os.environ.get("VERIF_DEBUG"):
                print("UNREACHED", scn, [e for e in t if e["ev"] in ("done",)])
        if failed_at:
            e = t[failed_at[0]]
            nontrivial.add((t[0]["S"], t[0]["m2"], t[0]["pages"], t[0]["pulls"], t[0]["trash"], t[0]["clear"],
                            e.get("kind", e.get("phase")), e["tgt"], t[0]["fvar"]))
    if n_ok_after_fail:
        ctx.drift.append("sweep: Run returned nil although a request failed in %d runs" % n_ok_after_fail)
    if n_put_after_fail:
        ctx.drift.append("sweep: a non-empty trash/pull list was sent after a failed request in %d runs "
                         "(a violation only if the request was an index or a collection page)" % n_put_after_fail)
    if n_unexpected:
        ctx.drift.append("sweep: %d runs ended differently from the model's prediction" % n_unexpected)
    if n_unreached:
        ctx.drift.append("sweep: in %d runs the request to fail was never made" % n_unreached)
    if n_unreached > len(traces) // 2:
        raise vlib.InfraError("sweep: more than half of the failure positions were not reached")
    judge_batched(ctx, "SweepTrace", "Judge_Sweep.cfg", events, by_id, batch=2000)
    ctx.evaluations += len(traces)
    ctx.extra["sweep_traces"] = len(traces)
    ctx.samples += [{"scenario": by_id.get(t[0].get("scn")), "trace": t[:40]} for t in traces[300:301] + traces[-1:]]
    return nontrivial


def judge_as_drift(ctx, module, cfg, events, by_id, what, max_rejects=5, timeout=1700):
    """Judge traces against a contract whose clauses go beyond the letter of the property statement:
    a rejection is reported as DRIFT (exit code unaffected), never as a VIOLATION.  Returns the number of
    rejected traces found (judging stops after max_rejects)."""
    traces = vlib.split_traces(events)
    nrej = 0
    while traces and nrej < max_rejects:
        flat = [e for t in traces for e in t]
        ctx.nrun += 1
        tp = os.path.join(ctx.scratch, "judge%d.ndjson" % ctx.nrun)
        vlib.write_ndjson(tp, flat)
        r = ctx.tlc(SD, module, cfg, env={"VERIF_TRACE": tp}, workers=1, timeout=timeout, count=False,
                    must_pass=False, dfs=True)
        if r.ok:
            break
        line, why = vlib.judge_rejection(r, len(flat))
        if line is None:
            raise vlib.InfraError("judge %s/%s failed without a rejection point (rc=%d):\n%s"
                                  % (module, cfg, r.rc, r.tail(60)))
        n = 0
        for i, t in enumerate(traces):
            if n < line <= n + len(t):
                ev = t[line - n - 1]
                ctx.drift.append("%s: %s rejected event %d of scenario %s (%s): %s"
                                 % (what, module, line - n, json.dumps(by_id.get(t[0].get("scn")))[:300], why,
                                    json.dumps(ev)[:200]))
                traces.pop(i)
                nrej += 1
                break
            n += len(t)
        else:
            raise vlib.InfraError("judge: rejected line %d outside trace file" % line)
    ctx.traces_validated += len(traces) if nrej < max_rejects else 0
    return nrej


def part_sweepseq(ctx, rnd):
    pkg = "services/keep-balance"
    ctx.tlc(SD, "SweepSeq", "MC_SweepSeq_big.cfg" if ctx.thorough else "MC_SweepSeq.cfg", timeout=1700,
            label="sweepseq: 3 runs, changing service set, stale lists, dry runs, one failing request per run; "
                  "no stale non-empty list at index time, inductive invariant of SafeRendezvousState")
    scns, r = ctx.gen(SD, "SweepSeq", "Gen_SweepSeq_big.cfg" if ctx.thorough else "Gen_SweepSeq.cfg", timeout=1700,
                      label="sweepseq: scenario emission (sequence of run descriptors)")
    ctx.extra["sweepseq_scenarios_emitted"] = len(scns)
    if not scns:
        raise vlib.InfraError("sweepseq: no scenario emitted")
    cap = 6000 if ctx.thorough else 1600
    if len(scns) > cap:
        scns.sort(key=lambda s: s["id"])
        rnd.shuffle(scns)
        scns = scns[:cap]
    variants = ["s500", "conn"]
    for s in scns:
        s["fvar"] = variants[(s["id"] + ctx.seed) % 2]
        s["pulls"] = (s["id"] // 2 + ctx.seed) % 2 == 0
    # beyond the model's bounds: up to 5 servers, 2-5 runs
    base = 4 * 10 ** 7
    for i in range(600 if ctx.thorough else 150):
        nsrv = rnd.randint(2, 5)
        runs = []
        S = sorted(rnd.sample(range(1, nsrv + 1), rnd.randint(1, nsrv)))
        for _ in range(rnd.randint(2, 5)):
            if rnd.random() < 0.6:
                S = sorted(rnd.sample(range(1, nsrv + 1), rnd.randint(1, nsrv)))
            c = rnd.random() < 0.7
            fk, ft = "none", 0
            x = rnd.random()
            if x < 0.15:
                fk, ft = "scan", rnd.choice([0] + S)
            elif c and x < 0.35:
                fk, ft = "clear", rnd.choice(S)
            elif c and x < 0.5:
                fk, ft = "trash", rnd.choice(S)
            runs.append({"S": S, "c": c, "fk": fk, "ft": ft})
        scns.append({"id": base + i, "stale": sorted(rnd.sample(range(1, nsrv + 1), rnd.randint(0, nsrv))),
                     "runs": runs, "fvar": rnd.choice(variants), "pulls": rnd.random() < 0.5})
    by_id = {s["id"]: s for s in scns}
    ov = ctx.harness_overlay(pkg, "harness/C06_keepbalance")
    events, out = ctx.go_run_driver(pkg, ov, "TestVerifC06SweepSeq$", scns, timeout=1500)
    traces = vlib.split_traces(events)
    nontrivial = set()
    nclear_unreached = 0
    for t in traces:
        runs = []
        for e in t:
            if e["ev"] == "runstart":
                runs.append([tuple(e["servers"]), e["commit"], e["fk"], e["ft"], 0, False])
            elif e["ev"] == "put" and e["what"] == "trash" and runs:
                runs[-1][4] += 1
                runs[-1][5] = runs[-1][5] or e["failed"]
        if len(runs) >= 2 and any(r[0] != runs[0][0] for r in runs):
            nontrivial.add((tuple(t[0]["stale"]), tuple(tuple(r[:5]) for r in runs)))
    # (1) what the C06 statement itself demands, run by run: no non-empty trash/pull list after a failed
    #     index or collection-page request (SweepContract) - rejections here are violations
    per_run = []
    for e in events:
        if e["ev"] == "reset":
            scn = e["scn"]
        elif e["ev"] == "runstart":
            per_run.append({"ev": "reset", "scn": scn, "part": "sweepseq-run", "run": e["run"]})
        elif e["ev"] in ("req", "put", "done"):
            per_run.append(e)
    judge_batched(ctx, "SweepTrace", "Judge_Sweep.cfg", per_run, by_id, batch=6000)
    # (2) the sequence protocol (SweepSeqContract) goes beyond the letter of the statement: a rejection is
    #     reported as DRIFT and never changes the exit code
    nrej = judge_as_drift(ctx, "SweepSeqTrace", "Judge_SweepSeq.cfg", events, by_id, "sweepseq")
    ctx.extra["sweepseq_rejections"] = ctx.extra.get("sweepseq_rejections", 0) + nrej
    ctx.evaluations += len(traces)
    ctx.extra["sweepseq_traces"] = len(traces)
    ctx.samples += [{"scenario": by_id.get(t[0].get("scn")), "trace": t[:60]} for t in traces[700:701]]
    return nontrivial


def part_compose(ctx):
    """Design-level only (no binding): the two halves of garbage collection composed."""
    ctx.tlc(SD, "GCCompose", "MC_GCCompose_big.cfg" if ctx.thorough else "MC_GCCompose.cfg", timeout=1200,
            label="compose: a removed block is unreferenced with all signatures expired; a block touched after "
                  "the index is not removed by that sweep's request")
    if ctx.thorough:
        notrefuted = []
        for cfg in ("ttl", "skew", "scan", "noeq", "latency"):
            r = ctx.tlc(SD, "GCCompose", "MC_GCCompose_%s.cfg" % cfg, timeout=1200, must_pass=False, count=False)
            if not r.violated:
                notrefuted.append(cfg)
        ctx.extra["compose_assumptions_refuted_when_dropped"] = 5 - len(notrefuted)
        if notrefuted:
            raise vlib.InfraError("GCCompose: dropping assumption %s is no longer refuted" % notrefuted)


def run(ctx):
    rnd = random.Random(ctx.seed)
    nontrivial = 0
    if "scan" in PARTS:
        nontrivial += len(part_scan(ctx, rnd))
    if "framing" in PARTS:
        nontrivial += len(part_framing(ctx, rnd))
    if "sweep" in PARTS:
        nontrivial += len(part_sweep(ctx, rnd))
    if "sweepseq" in PARTS:
        nontrivial += len(part_sweepseq(ctx, rnd))
    if "compose" in PARTS:
        part_compose(ctx)
    ctx.extra["distinct_nontrivial"] = nontrivial
    ctx.rule = ("scan: all paths of CollectionScan.tla within the Gen bounds (initial table x page size x environment "
                "actions at every page boundary) plus seeded random populations of 0-200 collections; non-trivial = at "
                "least three page requests or an environment action; distinct by (population size, page size, filter "
                "operators per page, environment actions, result). framing: every (index shape, cut point) and "
                "(volumes, failure point) of IndexFraming.tla plus random long responses; non-trivial = a proper "
                "non-empty prefix / a failing volume; distinct by (reader, shape, cut) or (volumes, failure, route). "
                "sweep: every (cluster configuration, failing request) of Sweep.tla plus random larger clusters; "
                "non-trivial = a request was made to fail; distinct by (configuration, failing request, failure kind). "
                "sweepseq: every sequence of run descriptors (service set, CommitTrash, failing request) of SweepSeq.tla "
                "(sampled) plus random sequences of 2-5 runs over up to 5 servers; non-trivial = the service set "
                "changes within the sequence; distinct by (stale servers, run descriptors, trash PUTs per run). "
                "distinct_nontrivial is the sum of the four counts")
    ctx.trusted_base = ["fake collections list API (its answers are themselves checked by TLC against the contract's "
                        "definition of a faithful list API)",
                        "rank <-> timestamp/uuid concretisation tables in the drivers",
                        "fake API / keepstore transports of the sweep driver and their request classification",
                        "byte-string builders for index responses; scripted failing volume and the ENOTDIR trick "
                        "for Directory volumes"]
    ctx.assumptions = ["the list API is atomic per request and orders equal keys by (modified_at, uuid) as requested",
                       "modified_at only moves forward to a non-decreasing database clock (as the statement says)",
                       "a failed request = HTTP 500, transport error or body cut short; one failing request per sweep",
                       "sweep contract strict only for index and collection-page failures (the statement's words)"]


if __name__ == "__main__":
    vlib.main("C06", run)
