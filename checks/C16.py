#!/usr/bin/env python3
"""C16 - Containers get the cheapest adequate instance type and start in priority order.

(a) instance type
  GEN   specs/dispatch/NodeSize.tla      MC_NodeSize*.cfg  (the filter-and-minimise loop, any map order,
                                         refines NodeSizeContract; loop invariants)
                                         Gen_NodeSize*.cfg (every type table x constraint vector of the bounds)
  RUN   harness/C16_dispatchcloud        real ChooseInstanceType on concretised inputs
  JUDGE specs/dispatch/NodeSizeTrace.tla (NodeSizeContract)
(b) priority order of one scheduling pass
  GEN   specs/dispatch/RunQueue.tla      MC_RunQueue*.cfg  (runQueue step by step against a small pool,
                                         refines RunQueueContract), Gen_RunQueue*.cfg (snapshots + predicted log)
  RUN   harness/C16_scheduler            real Scheduler.runQueue, recording stub pool/queue
  JUDGE specs/dispatch/RunQueueTrace.tla (RunQueueContract)
"""
import os
import random
import sys

sys.path.insert(0, os.path.join(os.path.dirname(os.path.abspath(__file__)), "..", "lib"))
import vlib  # noqa

SD = "specs/dispatch"
MI64 = 64 << 20


# ---------------------------------------------------------------- (a) random inputs beyond the bounds
def rand_nodesize(rnd, sid):
    n = rnd.randint(1, 12)
    types = []
    for _ in range(n):
        types.append({"price": rnd.randint(1, 6), "ram": rnd.choice([10, 20, 21, 40, 41, 60, 80, 100]),
                      "vcpus": rnd.choice([1, 2, 4, 8]),
                      "scratch": rnd.choice([0, MI64, 2 * MI64 - 1, 2 * MI64, 2 * MI64 + 1, 4 * MI64, 6 * MI64, 8 * MI64,
                                             2000000000]),
                      "pre": rnd.random() < 0.3})
    t = rnd.choice(types)
    # RAM need around t's boundary: floor(sum*100/95) in t.ram-1 .. t.ram+1
    base = t["ram"] * 95 // 100
    total = max(0, base + rnd.choice([-2, -1, 0, 0, 1, 2]))
    reserve = rnd.randint(0, total) if rnd.random() < 0.6 else 0
    kc = rnd.randint(0, total - reserve) if rnd.random() < 0.6 else 0
    ram = total - reserve - kc
    vcpus = max(0, t["vcpus"] + rnd.choice([-1, 0, 0, 1]))
    imgn = rnd.choice([0, 0, 100, 121, 122, 163, 164, 205, 206, 248])
    img = 0 if imgn < 122 else ((imgn - 80) // 42) * MI64
    # scratch need = max(tmp, img) + img around t.scratch
    want = t["scratch"] + rnd.choice([-1, 0, 0, 1])
    tmp = want - img
    if tmp < img or rnd.random() < 0.2:
        tmp = rnd.choice([0, 1, MI64, img]) if rnd.random() < 0.7 else max(0, tmp)
    tmp = max(0, min(tmp, 9 * MI64))
    if tmp > 1 and rnd.random() < 0.5:
        a = rnd.randint(1, tmp - 1)
        tmps = [a, tmp - a]
    elif tmp > 0:
        tmps = [tmp]
    else:
        tmps = []
    return {"id": sid, "types": types, "ram": ram, "kc": kc, "reserve": reserve, "vcpus": vcpus,
            "tmps": tmps, "imgn": imgn, "pre": t["pre"] if rnd.random() < 0.8 else (not t["pre"]),
            "scale": rnd.choice([1, 95]), "mode": "random"}


def part_a(ctx, rnd):
    pkg = "lib/dispatchcloud"
    if ctx.thorough:
        ctx.tlc(SD, "NodeSize", "MC_NodeSize_big.cfg", timeout=1800, label="(a) exhaustive: refinement, loop invariants, <= 2 types")
        ctx.tlc(SD, "NodeSize", "MC_NodeSize_3.cfg", timeout=1800, label="(a) exhaustive: refinement, loop invariants, <= 3 types")
        scns, _ = ctx.gen(SD, "NodeSize", "Gen_NodeSize_big.cfg", timeout=1800, label="(a) input emission <= 2 types")
        s3, _ = ctx.gen(SD, "NodeSize", "Gen_NodeSize_3.cfg", timeout=1800, label="(a) input emission <= 3 types")
        for s in s3:
            s["id"] += 10 ** 7
        scns += s3
    else:
        ctx.tlc(SD, "NodeSize", "MC_NodeSize.cfg", timeout=900, label="(a) exhaustive: refinement, loop invariants, termination")
        scns, _ = ctx.gen(SD, "NodeSize", "Gen_NodeSize.cfg", timeout=900, label="(a) input emission")
    if not scns:
        raise vlib.InfraError("NodeSize Gen emitted nothing")
    ctx.extra["a_inputs_emitted"] = len(scns)
    if not ctx.thorough and len(scns) > 8000:
        # quick tier: a seeded sample of the emitted inputs (the thorough tier runs all of them)
        rnd.shuffle(scns)
        scns = sorted(scns[:8000], key=lambda s: s["id"])
    nmodel = len(scns)
    nrand = 20000 if ctx.thorough else 1500
    for i in range(nrand):
        scns.append(rand_nodesize(rnd, 2 * 10 ** 7 + i))
    for s in scns:
        s["calls"] = 2
    by_id = {s["id"]: s for s in scns}
    ov = ctx.harness_overlay(pkg, "harness/C16_dispatchcloud")
    events, out = ctx.go_run_driver(pkg, ov, "TestVerifC16NodeSize$", scns, timeout=1500)
    traces = vlib.split_traces(events)
    if len(traces) != len(scns):
        raise vlib.InfraError("NodeSize driver recorded %d traces for %d scenarios" % (len(traces), len(scns)))
    # drift: the impl-shaped model predicts success iff its May set is not empty, and a pick in May
    nd = 0
    nontrivial = set()
    for t in traces:
        s = by_id.get(t[0]["scn"])
        picks = tuple(sorted(set(e["pick"] for e in t[1:])))
        if s is not None and "may" in s:
            for e in t[1:]:
                if e["ok"] != (len(s["may"]) > 0) or (e["ok"] and e["pick"] not in s["may"]):
                    nd += 1
            if s["may"] and len(s["may"]) < len(s["types"]):
                nontrivial.add(s["id"])
            elif s["may"] != s["must"]:
                nontrivial.add(s["id"])
        elif s is not None:
            if any(e["ok"] for e in t[1:]) and len(s["types"]) > 1:
                nontrivial.add(s["id"])
    if nd:
        ctx.drift.append("(a) %d results differ from the prediction of NodeSize.tla" % nd)
    acc = ctx.judge(SD, "NodeSizeTrace", "Judge_NodeSize.cfg", events, scenario_of=by_id, timeout=1800)
    # the code's scratch arithmetic to the byte is more than the statement says: drift only
    ctx.judge_as_drift("a_exact_scratch_arithmetic", SD, "NodeSizeTrace", "Judge_NodeSize_exact.cfg", events,
                       scenario_of=by_id, timeout=1800, max_rejects=5)
    ctx.extra["a_inputs_model"] = nmodel
    ctx.extra["a_inputs_random"] = nrand
    ctx.extra["a_traces_accepted"] = acc
    ctx.samples += [{"scenario": by_id.get(t[0]["scn"]), "trace": t} for t in (traces[:1] + traces[nmodel - 1:nmodel + 1])]
    return len(traces), len(nontrivial)


# ---------------------------------------------------------------- (b) random snapshots beyond the bounds
def rand_runqueue(rnd, sid):
    nt = rnd.randint(1, 3)
    n = rnd.randint(1, 8)
    prios = [rnd.choice([0, 1, 1, 2, 2, 3, 4]) for _ in range(n)]
    ctrs = []
    for p in prios:
        ctrs.append({"prio": p, "state": rnd.choice(["Queued", "Locked", "Locked"]), "type": rnd.randint(1, nt),
                     "inrun": rnd.choice(["no"] * 8 + ["live", "exited"]), "late": rnd.random() < 0.05})
    pool = {"idle": [rnd.choice([0, 0, 1, 2]) for _ in range(nt)],
            "boot": [rnd.choice([0, 0, 1, 2, 3, 4]) for _ in range(nt)],
            "qleft": rnd.choice([0, 0, 1, 2, 9, 9]),
            "createok": [rnd.random() < 0.8 for _ in range(nt)],
            "startok": [rnd.random() < 0.85 for _ in range(nt)]}
    ready = [{"at": rnd.randint(0, 10), "t": rnd.randint(1, nt)} for _ in range(rnd.choice([0, 0, 1, 2]))]
    return {"id": sid, "ctrs": ctrs, "pool": pool, "ready": ready, "mode": "random"}


def part_b(ctx, rnd):
    pkg = "lib/dispatchcloud/scheduler"
    if ctx.thorough:
        ctx.tlc(SD, "RunQueue", "MC_RunQueue_big.cfg", timeout=3000, label="(b) exhaustive: refinement, <= 4 containers")
        ctx.tlc(SD, "RunQueue", "MC_RunQueue_b3.cfg", timeout=3000, label="(b) exhaustive: refinement, <= 3 containers, up to 3 booting workers per type")
        ctx.tlc(SD, "RunQueue", "MC_RunQueue_edge.cfg", timeout=1800, label="(b) exhaustive: running/late/priority 0, termination")
        scns, _ = ctx.gen(SD, "RunQueue", "Gen_RunQueue_big.cfg", timeout=3000, label="(b) snapshot emission <= 3 containers, priorities 1-2")
        s2, _ = ctx.gen(SD, "RunQueue", "Gen_RunQueue_edge.cfg", timeout=1800, label="(b) snapshot emission, edge cases")
        for s in s2:
            s["id"] += 10 ** 7
        scns += s2
    else:
        ctx.tlc(SD, "RunQueue", "MC_RunQueue.cfg", timeout=900, label="(b) exhaustive: refinement, <= 2 containers, full pool incl. 3 booting workers of a type")
        scns, _ = ctx.gen(SD, "RunQueue", "Gen_RunQueue.cfg", timeout=900, label="(b) snapshot emission <= 2 containers")
    if not scns:
        raise vlib.InfraError("RunQueue Gen emitted nothing")
    for s in scns:
        # position of the model's mid-pass "worker became idle" steps among the logged calls
        s["ready"] = []
        k = 0
        for e in s["log"]:
            if e["op"] == "ready":
                s["ready"].append({"at": k, "t": e["t"]})
            else:
                k += 1
    ctx.extra["b_snapshots_emitted"] = len(scns)
    if not ctx.thorough and len(scns) > 8000:
        # quick tier: every snapshot in which a worker becomes idle mid-pass and at least two starts are
        # attempted afterwards or around it (the shapes that exercise the dontstart latch), up to 4000,
        # plus a seeded sample of the rest
        rnd.shuffle(scns)
        hot = [s for s in scns if s["ready"] and sum(1 for e in s["log"] if e["op"] == "start") >= 2][:4000]
        hid = {s["id"] for s in hot}
        rest = [s for s in scns if s["id"] not in hid][:8000 - len(hot)]
        ctx.extra["b_quick_latch_shapes"] = len(hot)
        scns = sorted(hot + rest, key=lambda s: s["id"])
    nmodel = len(scns)
    nrand = 30000 if ctx.thorough else 2000
    for i in range(nrand):
        scns.append(rand_runqueue(rnd, 2 * 10 ** 7 + i))
    by_id = {s["id"]: s for s in scns}
    ov = ctx.harness_overlay(pkg, "harness/C16_scheduler")
    events, out = ctx.go_run_driver(pkg, ov, "TestVerifC16RunQueue$", scns, timeout=1500)
    if "VERIF-NOTE goroutines still alive" in out:
        raise vlib.InfraError("lock goroutines of a pass did not end (machine too slow?)")
    traces = vlib.split_traces(events)
    if len(traces) != len(scns):
        raise vlib.InfraError("RunQueue driver recorded %d traces for %d scenarios" % (len(traces), len(scns)))
    # drift: predicted call log vs recorded one, where the visiting order is determined (no tied priorities)
    nd = ncmp = 0
    first = None
    nontrivial = set()
    for t in traces:
        s = by_id.get(t[0]["scn"])
        calls = [(e["ev"], e.get("c", 0), e.get("t", 0), e.get("ok", e.get("r", True)))
                 for e in t[1:] if e["ev"] in ("create", "kill", "start", "unlock", "shutdown")]
        if any(e[0] in ("start", "unlock") for e in calls):
            nontrivial.add((tuple((c["prio"], c["state"], c["type"], c["inrun"]) for c in s["ctrs"]), tuple(calls)))
        if s is None or "log" not in s:
            continue
        pr = [c["prio"] for c in s["ctrs"]]
        if len(set(pr)) != len(pr):
            continue
        pred = [(e["op"], e["c"], e["t"], e["r"]) for e in s["log"] if e["op"] != "ready"]
        # kill/start/unlock carry no type in the trace, create/shutdown no container
        norm = lambda L: [(o, c if o in ("kill", "start", "unlock") else 0, tt if o in ("create", "shutdown", "start") else 0, r)
                          for (o, c, tt, r) in L]
        ncmp += 1
        a, b = norm(pred), norm(calls)
        # shutdown order is a map order
        if sorted(a) != sorted(b) or [x for x in a if x[0] != "shutdown"] != [x for x in b if x[0] != "shutdown"]:
            nd += 1
            first = first or (s["id"], a, b)
    if nd:
        ctx.drift.append("(b) %d of %d compared call logs differ from RunQueue.tla's prediction; first: %r" % (nd, ncmp, first))
    acc = ctx.judge(SD, "RunQueueTrace", "Judge_RunQueue.cfg", events, scenario_of=by_id, timeout=1800)
    ctx.extra["b_snapshots_model"] = nmodel
    ctx.extra["b_snapshots_random"] = nrand
    ctx.extra["b_logs_compared_with_model"] = ncmp
    ctx.extra["b_traces_accepted"] = acc
    ctx.samples += [{"scenario": by_id.get(t[0]["scn"]), "trace": t} for t in (traces[nmodel // 2:nmodel // 2 + 1] + traces[-1:])]
    return len(traces), len(nontrivial)


def run(ctx):
    rnd = random.Random(ctx.seed)
    only = os.environ.get("VERIF_C16_PART", "")      # development aid: run one half only
    na, nta = part_a(ctx, rnd) if only in ("", "a") else (0, 0)
    nb, ntb = part_b(ctx, rnd) if only in ("", "b") else (0, 0)
    ctx.evaluations = na + nb
    ctx.extra["distinct_nontrivial"] = nta + ntb
    ctx.extra["a_nontrivial"] = nta
    ctx.extra["b_nontrivial"] = ntb
    ctx.exhaustive = False
    ctx.rule = ("(a) inputs = every multiset of 1..MaxTypes instance types over the value sets of the Gen configuration x "
                "every constraint vector placed at the boundaries of those values (exact, one above, one below; RAM in two "
                "units so that both the truncating and the exact discount are exercised), plus seeded random tables of 1-12 "
                "types with constraints around a random type's boundary; non-trivial = some but not all types adequate, or the "
                "two roundings of the discount differ. (b) snapshots = every priority-ordered sequence of containers "
                "(Queued/Locked, 2 types) x every small pool (idle/booting per type, quota left, create/start success per type, "
                "one worker becoming idle mid-pass) of the Gen configuration, plus seeded random snapshots of 1-8 containers x "
                "1-3 types; non-trivial = the pass started or unlocked something; distinct by (snapshot, call log)")
    ctx.trusted_base = ["(a) concretiser: small integers -> ByteSize / Mounts / PDH size field; abstraction reads the same fields back",
                        "(b) recording stub pool and queue (deterministic answers from the scenario's pool state)",
                        "quiescence of a pass = goroutine count back to its value before the pass"]
    ctx.assumptions = ["(a) RAM quantities are small literal byte counts (scale 1) or multiples of 95 MiB (scale 95); scratch in real bytes < 2^31",
                       "(a) the rounding of the 5% discount is not fixed by the statement: a type short by a fraction of a byte may be chosen or not",
                       "(b) the pool answers Create/Start per type consistently within a pass, except for one worker finishing boot mid-pass",
                       "(b) 'Locked' and 'waiting' are read off the snapshot the pass started from"]


if __name__ == "__main__":
    vlib.main("C16", run)
