#!/usr/bin/env python3
"""C09 - saved manifests reproduce the tree and reference only blocks that were stored.

GEN   specs/collfs/CollFSFlush.tla  MC_CollFSFlush_C09*.cfg: the segment/flush model with FAILING Keep writes
                                    (every placement of failures within the bounds): content intact after a failed
                                    write, a successful synchronous flush leaves only stored segments
      specs/collfs/CollFSGen.tla    call sequences (shortest path to every distinct contract state), as in C08
      specs/collfs/CollFSFlushDir.tla  MC_/Gen_CollFSFlushDir_C09*.cfg: two directories; scope of Flush("" | "." | dir,
                                    shortBlocks), per-directory packing, Sync/MarshalManifest: content unchanged,
                                    no block across directories, other directories untouched, what is stored
                                    afterwards; its scenarios are replayed and the stored-ness compared (drift)
RUN   harness/C08_arvados + harness/C09_arvados: real CollectionFileSystem, recording Keep that fails the k-th
                                    write (every k) / at a rate / only in background / only in the final save;
                                    names over bytes 0x01-0xff; saves by MarshalManifest / Sync / Flush+Marshal;
                                    the saved text is tokenized and also re-loaded by the real loader
JUDGE specs/collfs/CollFSStoreTrace.tla (CollFSStore contract: grammar, Resolve(M) = tree, locators, errors)
"""
import os
import random
import sys

sys.path.insert(0, os.path.join(os.path.dirname(os.path.abspath(__file__)), "..", "lib"))
sys.path.insert(0, os.path.dirname(os.path.abspath(__file__)))
import vlib  # noqa
import C08   # noqa  (shared helpers: tiny_op, judge_fast, install_classifier)

SD = "specs/collfs"
PKG = "sdk/go/arvados"
NAMECLASSES = ["", "ascii", "utf8", "del", "ascii", "rawhigh"]


def build_scenarios(ctx, paths, rnd):
    scns = []
    sid = 0
    kbudget = 8 if ctx.thorough else 5
    # (1) TLC call sequences x "the k-th Keep write fails" for every k (budgeted)
    for p in paths:
        sid += 1
        ops = list(p["ops"]) + [C08.tiny_op(rnd) for _ in range(2)]
        scns.append({"id": sid, "mode": "steps", "ops": ops, "bs": rnd.choice([1, 1, 2, 2, 3]),
                     "flush": rnd.choice(["none", "none", "flushall", "flushlong", "mixed"]), "rseed": ctx.seed * 31 + sid,
                     "init": "empty", "fail": "kth_all", "failk": kbudget, "saves": rnd.choice([1, 2]),
                     "namemode": rnd.choice(NAMECLASSES), "gen": "tlc"})
    # (2) long random sequences x failure patterns
    nrand = 90 if ctx.thorough else 20
    nops = 150 if ctx.thorough else 70
    fails = [("rate", 20), ("bg", 50), ("final", 50), ("kth_all", 0), ("rate", 60), ("", 0)]
    bss = [1, 2, 3, 4, 5, 8, 13, 16, 32, 64]
    for i in range(nrand):
        sid += 1
        f, pct = fails[i % len(fails)]
        scns.append({"id": sid, "mode": "random", "ops": [], "bs": bss[i % len(bss)],
                     "flush": C08.FLUSHES[(i * 5 + i // 7) % len(C08.FLUSHES)], "rseed": ctx.seed * 7919 + i, "nops": nops,
                     "init": "manifest" if i % 3 == 1 else "empty", "fail": f, "failpct": pct,
                     "failk": 2 * kbudget, "saves": 3, "namemode": NAMECLASSES[i % len(NAMECLASSES)], "gen": "random"})
    for sc in scns:
        if sc["gen"] == "random" and sc["flush"] in ("flushall", "flushlong", "flushdir", "mixed") and sc["id"] % 3 != 0:
            sc["hold"] = True         # background block writes stay pending across the next call
    # (2b) a call while the block write of an asynchronous Flush is still pending (incl. a pure truncate-grow)
    for sc in C08.pending_flush_scenarios(sid + 1, ctx.seed, rnd):
        sid += 1
        sc.update({"id": sid, "fail": "", "saves": 1, "namemode": ""})
        scns.append(sc)
    # (3) load a generated manifest and save it unchanged
    for i in range(60 if ctx.thorough else 12):
        sid += 1
        scns.append({"id": sid, "mode": "steps", "ops": [], "bs": bss[i % len(bss)], "flush": "none",
                     "rseed": ctx.seed * 104729 + i, "init": "manifest", "fail": "", "saves": 1,
                     "namemode": NAMECLASSES[i % len(NAMECLASSES)], "gen": "loadsave"})
    # (4) regression scenarios for KF-C09-1 (fixed): names with DEL / bytes that are not UTF-8
    for i, cls in enumerate(["del", "rawhigh"]):
        sid += 1
        o = {"op": "open", "h": 1, "p": ["a"], "acc": "rw", "cr": True, "ex": False, "tr": False, "ap": False}
        scns.append({"id": sid, "mode": "steps", "ops": [o, {"op": "write", "h": 1, "d": "xy"}], "bs": 2,
                     "flush": "none", "rseed": ctx.seed + i, "init": "empty", "fail": "", "saves": 1,
                     "namemode": cls, "gen": "reg"})
    return scns


def run(ctx):
    rnd = random.Random(ctx.seed)
    if C08.SKIP_MC:
        ctx.log("VERIF_SKIP_MC=1: model checking stage skipped")
    else:
        ctx.tlc(SD, "CollFSFlush", "MC_CollFSFlush_C09_big.cfg" if ctx.thorough else "MC_CollFSFlush_C09.cfg",
            timeout=1500, label="exhaustive: segment/flush model with failing Keep writes (content intact, sync flush complete, no hazard)")
    if not C08.SKIP_MC:
        ctx.tlc(SD, "CollFSFlushDir", "MC_CollFSFlushDir_C09_big.cfg" if ctx.thorough else "MC_CollFSFlushDir_C09.cfg",
                timeout=2400, label="exhaustive: Flush scope / per-directory packing / Marshal over two directories with failing writes")
    fdirs, r = ctx.gen(SD, "CollFSFlushDir", "Gen_CollFSFlushDir_C09.cfg", timeout=1500,
                       label="flush-scope scenarios with the model's stored-ness prediction after every call")
    fdirs.sort(key=lambda d: repr(d))
    rnd.shuffle(fdirs)
    fdirs = fdirs[:(2500 if ctx.thorough else 200)]
    paths, r = ctx.gen(SD, "CollFSGen", "Gen_CollFS_C08_big.cfg" if ctx.thorough else "Gen_CollFS_C08.cfg",
                       timeout=1500, label="contract state space + call sequence emission")
    paths = [p for p in paths if len(p["ops"]) >= 2]
    paths.sort(key=lambda p: (len(p["ops"]), repr(p["ops"])))
    rnd.shuffle(paths)
    # sequences that end with data in some file are the interesting ones for saving
    paths = [p for p in paths if any(o["op"] == "write" for o in p["ops"])][:(1200 if ctx.thorough else 160)]
    scns = build_scenarios(ctx, paths, rnd)
    sid = max(s["id"] for s in scns)
    for d in fdirs:
        sid += 1
        scns.append({"id": sid, "mode": "flushdir", "bs": d["bs"], "fsteps": d["fsteps"], "rseed": ctx.seed, "flush": "none",
                     "init": "empty", "gen": "flushdir"})
    by_id = {s["id"]: s for s in scns}
    ctx.extra["scenarios"] = {"tlc_paths": len(paths), "flushdir": len(fdirs), "total": len(scns)}
    ov = ctx.harness_overlay(PKG, "harness/C08_arvados")
    ov.update(ctx.harness_overlay(PKG, "harness/C09_arvados"))
    events, out = C08.run_driver(ctx, PKG, ov, "TestVerifC09$", scns, timeout=2400)
    # flush-scope scenarios: the accessor's observations against the model's prediction (drift only),
    # then the observations are dropped: the contract judges the ordinary events
    nobs = bad = 0
    for t in vlib.split_traces(events):
        scn = by_id.get(t[0].get("scn"))
        if not scn or scn.get("mode") != "flushdir":
            continue
        exp = [st["stored"] for st in scn["fsteps"] if st["op"] == "expect"]
        obs = [e for e in t if e["ev"] == "stored"]
        for i, o in enumerate(obs):
            nobs += 1
            if i >= len(exp) or o["files"] != exp[i] or o["cross"]:
                bad += 1
                if bad == 1:
                    ctx.drift.append("flush scope: scenario %s observation %d: real %s cross=%s, model %s"
                                     % (scn["id"], i, o["files"], o["cross"], exp[i] if i < len(exp) else None))
        if len(obs) != len(exp):
            bad += 1
    if bad > 1:
        ctx.drift.append("flush scope: %d of %d stored-ness observations differ from CollFSFlushDir" % (bad, nobs))
    ctx.extra["flushdir_observations"] = nobs
    events = [e for e in events if e["ev"] != "stored"]
    traces = vlib.split_traces(events)
    deferred = C08.infra_events(ctx, traces, save_hang_ok=True)
    events = [e for t in traces for e in t]
    ctx.evaluations = len(traces)
    ctx.extra["events_judged"] = len(events)
    C08.install_classifier(ctx)
    C08.judge_fast(ctx, SD, "CollFSStoreTrace", "Judge_CollFSStore_C09.cfg", events, scenario_of=by_id, timeout=2400)
    C08.raise_deferred(ctx, deferred)
    nontrivial = set()
    saves_ok = saves_err = putfail = 0
    for t in traces:
        sig = []
        for e in t:
            if e["ev"] == "putb":
                sig.append(("p", e["ok"], e["insave"]))
                putfail += 0 if e["ok"] else 1
            elif e["ev"] == "save":
                sig.append(("s", e["ok"], len(e["m"]["streams"])))
                if e["ok"]:
                    saves_ok += 1
                else:
                    saves_err += 1
        if any(x[0] == "s" and x[2] > 0 for x in sig) or any(x[0] == "s" and not x[1] for x in sig):
            nontrivial.add((t[0].get("bs"), t[0].get("nameclass"), tuple(sig)))
    ctx.extra["distinct_nontrivial"] = len(nontrivial)
    ctx.extra["saves_ok"] = saves_ok
    ctx.extra["saves_failed"] = saves_err
    ctx.extra["keep_writes_failed"] = putfail
    ctx.rule = ("scenarios = C08 call sequences (TLC paths to distinct contract states that write data; long random "
                "sequences; load-and-save of generated manifests) x failure plan (k-th write fails for every k up to a "
                "budget, failure rates, background only, final save only) x name class (symbols, ASCII incl. controls/"
                "space/colon/backslash, UTF-8, DEL, raw non-UTF-8 bytes) x save kind; non-trivial = a non-empty manifest was saved or a save "
                "failed; distinct by (block size, name class, sequence of Keep write outcomes and save outcomes)")
    ctx.samples = [{"scenario": by_id.get(t[0].get("scn")), "trace": [e for e in t if e["ev"] in ("reset", "putb", "savecall", "save")][:8]}
                   for t in traces[:1] + traces[-3:-2]]
    ctx.trusted_base = ["recording fake Keep with scripted write failures",
                        "manifest tokenizer and grammar check in collfs_store_test.go (published grammar; lenient: valid UTF-8 accepted)",
                        "name concretiser (abstract symbol <-> byte string) and its inverse",
                        "everything listed for C08"]
    ctx.assumptions = ["a save is required to fail only through its consequences (a successful save must resolve to the "
                       "tree using stored blocks only); whether an unneeded late background write failing during a save "
                       "fails it is not constrained",
                       "grammar validity is decided by the harness tokenizer"]


if __name__ == "__main__":
    vlib.main("C09", run)
