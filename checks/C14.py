#!/usr/bin/env python3
"""C14 - Dispatcher never runs a container twice at once or without holding its lock.

GEN   specs/dispatch/Dispatch.tla   MC_Dispatch_*.cfg  (refinement of DispatchContract, AtMostOneProc; the
                                    expected counterexample around fixStaleLocks is re-confirmed: MC_Dispatch_kf)
                                    Gen_Dispatch*.cfg  (random walks of the model = scenarios for binding i)
      specs/dispatch/QueueCache.tla MC_QueueCache*.cfg (container.Queue for one container: answers vs polls;
                                    NoRegress/Fresh outside the known class; the known class re-confirmed; the
                                    proposed repair modelled), Gen_QueueCache.cfg (walks for binding iii)
RUN   (i)  harness/C14_scheduler     real Scheduler stepped against vSim (model walks + seeded random walks)
      (ii) harness/C14_dispatchcloud real dispatcher + worker.Pool + stub cloud, faults, restart, process tables
      (iii) harness/C14_container   real container.Queue against a gated fake APIClient
JUDGE specs/dispatch/DispatchTrace.tla (DispatchContract; mode exact for i, sound for ii)
      specs/dispatch/QueueCacheTrace.tla (QueueCacheContract, for iii)
"""
import os
import random
import sys

sys.path.insert(0, os.path.join(os.path.dirname(os.path.abspath(__file__)), "..", "lib"))
import vlib  # noqa

SD = "specs/dispatch"


def e2e_scenarios(ctx, rnd, base=0):
    """Scenarios of the end-to-end driver (shared with C15)."""
    scns = [{"id": base + 1, "n": 30, "prios": 5, "rseed": rnd.randrange(1 << 30), "faults": False, "calm": True,
             "deadlinefactor": 100}]
    nfaulty = 6 if ctx.thorough else 2
    for i in range(nfaulty):
        n = rnd.choice([50, 80, 120, 200, 350, 500]) if ctx.thorough else rnd.choice([50, 70, 90])
        scns.append({"id": base + 2 + i, "n": n, "prios": rnd.choice([1, 5, 20]), "rseed": rnd.randrange(1 << 30),
                     "faults": True, "errdestroy": rnd.choice([0.0, 0.1, 0.3]), "crashrate": rnd.choice([0.05, 0.1, 0.3]),
                     "deadlockrate": rnd.choice([0.0, 0.1]), "cancels": rnd.randint(0, 5), "holds": rnd.randint(0, 3),
                     "ibops": rnd.randint(0, 4), "restart": True, "stalems": 3000, "execms": rnd.choice([0, 5, 20]),
                     "deadlinefactor": 100})
    # clause (c): the operator holds every instance as soon as it appears, for a while
    scns.append({"id": base + 80, "n": 12, "prios": 3, "rseed": rnd.randrange(1 << 30), "faults": False, "holdallms": 400,
                 "deadlinefactor": 100})
    # a stale answer of the cloud's list call overlapping create + boot + start (pool.sync's threshold)
    scns.append({"id": base + 85, "n": 3, "prios": 1, "rseed": rnd.randrange(1 << 30), "faults": False, "stalelist": True,
                 "deadlinefactor": 100})
    # the scenario that targets the expected finding (StaleLockTimeout << boot timeout, deaf VM, restart)
    # (its reproduction depends on which container lands on the slow VM: two attempts)
    for k in range(2):
        scns.append({"id": base + 90 + k, "n": 2, "prios": 1, "rseed": rnd.randrange(1 << 30), "kf": True, "stalems": 30,
                     "deadlinefactor": 100})
    return scns


def e2e_overlay(ctx):
    """End-to-end driver, the scripted regression scenarios of C15 (same package) and the accessors."""
    pkg = "lib/dispatchcloud"
    ov = ctx.harness_overlay(pkg, "harness/C14_dispatchcloud")
    ov.update(ctx.harness_overlay(pkg, "harness/C15_dispatchcloud"))
    ov.update({k: v for k, v in ctx.harness_overlay("lib/dispatchcloud/test", "harness/C14_test").items()
               if "zz_verif_vio" not in k})
    ov.update({k: v for k, v in ctx.harness_overlay("lib/dispatchcloud/worker", "harness/C15_worker").items()
               if "zz_verif_vio" not in k})
    return ov


def drop_infra(ctx, events, label):
    """Runs whose child process died for a reason that is not a panic in the code under test (timeout,
    kill, failed set-up, scenario not applicable) say nothing about the property: dropped and counted."""
    keep, dropped = [], []
    for t in vlib.split_traces(events):
        bad = [e for e in t if e["ev"] == "infra"]
        if bad:
            dropped.append({"scn": t[0].get("scn"), "what": str(bad[0].get("what"))[:200]})
        else:
            keep += t
    ctx.extra[label + "_runs_dropped_infra"] = dropped
    if len(dropped) > 2:
        raise vlib.InfraError("%s: %d runs died for infrastructure reasons: %r" % (label, len(dropped), dropped[:3]))
    return keep


def run_e2e(ctx, scns, label="e2e"):
    events, out = ctx.go_run_driver("lib/dispatchcloud", e2e_overlay(ctx), "TestVerifC14E2E$", scns, timeout=2400)
    return drop_infra(ctx, events, label)


def run_probe_race(ctx):
    """Scripted schedule (real scheduler + real pool + scripted VM): a probe answer older than a container start."""
    events, out = ctx.go_run_driver("lib/dispatchcloud", e2e_overlay(ctx), "TestVerifC14ProbeRace$", [], timeout=600)
    ev2, out = ctx.go_run_driver("lib/dispatchcloud", e2e_overlay(ctx), "TestVerifC14LostAck$", [], timeout=600)
    return drop_infra(ctx, events + ev2, "scripted")


def S(a, c=0, w=0, x=""):
    return {"a": a, "c": c, "w": w, "x": x}


def scripted_scenarios():
    """Hand-written schedules (same step alphabet as the model walks) that put the real scheduler into
    situations random walks reach rarely.  On the unchanged code the steps marked (*) are not enabled
    and are skipped."""
    run_c = lambda c, w: [S("rq"), S("apicommit", c), S("rq"), S("vmboot", 0, w), S("probestart", 0, w), S("probeend", 0, w),
                          S("rq"), S("startexec", c, w)]
    # 1: restart while container 1 (Locked, process alive on instance 1) and an idle instance 2 exist; instance 2
    #    answers its probe first.  fixStaleLocks must keep the scheduler from running: (*) rq must not happen.
    a = [S("update"), S("fixiter")] + run_c(1, 1) + [S("sync")]
    a += [S("update")] + run_c(2, 2) + [S("procrunning", 2, 2), S("procfinalize", 2, 2), S("procend", 2, 2),
                                        S("probestart", 0, 2), S("probeend", 0, 2), S("update"), S("rq"), S("sync"), S("rq"), S("sync")]
    a += [S("restart"), S("update"), S("fixiter"), S("probestart", 0, 2), S("probeend", 0, 2), S("fixiter"),
          S("rq"), S("sync"), S("rq"),                      # (*)
          S("probestart", 0, 1), S("probeend", 0, 1), S("fixiter"), S("fixdone"), S("rq"), S("sync"),
          S("procrunning", 1, 1), S("procfinalize", 1, 1), S("procend", 1, 1), S("probestart", 0, 1), S("probeend", 0, 1),
          S("update"), S("rq"), S("sync"), S("rq"), S("sync")]
    # 2: a cancelled container whose process lingers must be killed, not restarted, also after the pool forgot it
    b = [S("update"), S("fixiter")] + run_c(1, 1) + [S("usercancel", 1), S("update"), S("rq"), S("sync"), S("killtick", 1, 1),
         S("killtick", 1, 1), S("rq"), S("sync"), S("rq"), S("sync"), S("update"), S("rq"), S("sync")]
    # 3: put on hold (priority 0) while Locked and waiting: must be re-queued, never started
    c = [S("update"), S("fixiter"), S("rq"), S("apicommit", 1), S("userhold", 1), S("update"), S("rq"), S("sync"), S("apicommit", 1),
         S("vmboot", 0, 1), S("probestart", 0, 1), S("probeend", 0, 1), S("update"), S("rq"), S("sync"), S("rq")]
    return [{"id": 900001, "mode": "script", "nc": 2, "nw": 2, "init": ["Queued", "Queued"], "steps": a},
            {"id": 900002, "mode": "script", "nc": 1, "nw": 1, "init": ["Queued"], "steps": b},
            {"id": 900003, "mode": "script", "nc": 1, "nw": 1, "init": ["Queued"], "steps": c}]


def part_queue(ctx, rnd):
    """container.Queue's cache vs the API server: answers to its own calls against polls."""
    ctx.tlc(SD, "QueueCache", "MC_QueueCache.cfg", timeout=900, label="container.Queue, one container: NoRegress / Fresh outside the known class")
    r = ctx.tlc(SD, "QueueCache", "MC_QueueCache_kf_strict.cfg", timeout=900, must_pass=False,
                label="expected counterexample (judged clause): a late answer makes a container startable again after a "
                      "newer non-startable version was shown")
    ctx.extra["design_level_counterexample_late_answer"] = bool(r.violated)
    ctx.tlc(SD, "QueueCache", "MC_QueueCache_fixed.cfg", timeout=900, label="the proposed repair (C14-1.diff) modelled: NoRegress / Fresh, no exclusion")
    walks, _ = ctx.gen(SD, "QueueCache", "Gen_QueueCache.cfg", simulate="num=%d" % (1500 if ctx.thorough else 150), depth=17,
                       timeout=900, label="random walks of QueueCache.tla")
    walks = walks[:(6000 if ctx.thorough else 400)]
    for i, s in enumerate(walks):
        s["id"] = i + 1
    Q = lambda a, x="": {"a": a, "x": x}
    first = [Q("updstart"), Q("updend"), Q("call", "lock"), Q("commit"), Q("usercancel")]
    # 9101: the answer arrives after a complete poll (known class); 9102: during the poll (dontupdate, allowed);
    # 9103: unlock answer after the container was locked again by a poll-visible change is impossible (latch) - a late
    #       cancel answer after the container completed instead
    walks.append({"id": 9101, "steps": first + [Q("updstart"), Q("updend"), Q("deliver"), Q("updstart"), Q("updend")]})
    walks.append({"id": 9102, "steps": first + [Q("updstart"), Q("deliver"), Q("updend"), Q("updstart"), Q("updend")]})
    walks.append({"id": 9103, "steps": [Q("updstart"), Q("updend"), Q("call", "lock"), Q("commit"), Q("deliver"), Q("running"),
                                        Q("call", "cancel"), Q("updstart"), Q("updend"), Q("commit"), Q("updstart"), Q("updend"),
                                        Q("deliver"), Q("updstart"), Q("updend")]})
    pkg = "lib/dispatchcloud/container"
    ov = ctx.harness_overlay(pkg, "harness/C14_container")
    events, out = ctx.go_run_driver(pkg, ov, "TestVerifC14Queue$", walks, timeout=900)
    if "VERIF-NOTE" in out:
        ctx.drift.append("queue-level driver: " + [l for l in out.splitlines() if "VERIF-NOTE" in l][0])
    tr = vlib.split_traces(events)
    sk = sum(t[0].get("skipped", 0) for t in tr)
    ap = sum(t[0].get("applied", 0) for t in tr)
    ctx.extra["iii_steps_applied"] = ap
    ctx.extra["iii_steps_skipped"] = sk
    if sk > ap:
        raise vlib.InfraError("more than half of the queue-level steps could not be applied")
    acc = ctx.judge(SD, "QueueCacheTrace", "Judge_QueueCache.cfg", events, scenario_of={s["id"]: s for s in walks},
                    timeout=900, max_rejects=200)
    # the implementation-shaped clauses (NoRegress, Fresh) go beyond the statement: drift only
    ctx.judge_as_drift("iii_queue_noregress_fresh", SD, "QueueCacheTrace", "Judge_QueueCache_full.cfg", events,
                       scenario_of={s["id"]: s for s in walks}, timeout=900, max_rejects=12)
    ctx.extra["iii_traces"] = len(tr)
    ctx.extra["iii_traces_accepted"] = acc
    ctx.samples += [{"scenario": walks[-3], "trace": [t for t in tr if t[0]["scn"] == 9101][0]}] if any(t[0]["scn"] == 9101 for t in tr) else []
    return len(tr), acc


def run(ctx):
    rnd = random.Random(ctx.seed)
    # ---------------------------------------------------------------- GEN: design-level checks
    ctx.tlc(SD, "Dispatch", "MC_Dispatch_quick.cfg", timeout=1200,
            label="exhaustive 1 container x 1 instance, passes atomic, crash + cancel/hold: refinement (exact), AtMostOneProc")
    if ctx.thorough:
        ctx.tlc(SD, "Dispatch", "MC_Dispatch_exact.cfg", timeout=3000,
                label="1 x 2, restart + StaleLockTimeout, known class excluded: refinement (exact)")
        ctx.tlc(SD, "Dispatch", "MC_Dispatch_2c.cfg", timeout=3000, label="2 x 1, crash + user: refinement (exact)")
        ctx.tlc(SD, "Dispatch", "MC_Dispatch_sound.cfg", timeout=3000,
                label="1 x 1, ALL interleavings, atomic queue: refinement (sound)")
        ctx.tlc(SD, "Dispatch", "MC_Dispatch_async.cfg", timeout=3000,
                label="1 x 1, ALL interleavings, container.Queue semantics (delayed answers): refinement (async)")
        ctx.tlc(SD, "Dispatch", "MC_Dispatch_list.cfg", timeout=3000,
                label="1 x 2, list calls that take time, pool.sync threshold taken before the call (the code): refinement")
        rl = ctx.tlc(SD, "Dispatch", "MC_Dispatch_list_kf.cfg", timeout=3000, must_pass=False,
                     label="why the threshold must be taken before the call: threshold after the call => second process")
        ctx.extra["design_level_counterexample_threshold_after_list"] = bool(rl.violated)
        rp = ctx.tlc(SD, "Dispatch", "MC_Dispatch_probe_kf.cfg", timeout=3000, must_pass=False,
                     label="why probeAndUpdate compares wkr.updated: discarding only while a start is pending => second process")
        ctx.extra["design_level_counterexample_stale_probe"] = bool(rp.violated)
        ctx.tlc(SD, "Dispatch", "MC_Dispatch_quota.cfg", timeout=3000, label="1 x 2, a Create answered with a quota error, hold-off: refinement")
        r = ctx.tlc(SD, "Dispatch", "MC_Dispatch_kf.cfg", timeout=3000, must_pass=False,
                    label="expected counterexample: restart + StaleLockTimeout with an unknown worker (no exclusion)")
        ctx.extra["design_level_counterexample_fixStaleLocks"] = bool(r.violated)
        if not r.violated:
            ctx.drift.append("MC_Dispatch_kf.cfg no longer finds the fixStaleLocks counterexample")
    # ---------------------------------------------------------------- GEN: scenarios for binding (i)
    k = 10 if ctx.thorough else 1
    scns = []
    gens = (("Gen_Dispatch.cfg", 60 * k), ("Gen_Dispatch_calm.cfg", 60 * k), ("Gen_Dispatch_kf.cfg", 40 * k))
    if not ctx.thorough:
        gens = (("Gen_Dispatch.cfg", 60), ("Gen_Dispatch_kf.cfg", 30))
    for cfg, num in gens:
        got, _ = ctx.gen(SD, "Dispatch", cfg, simulate="num=%d" % num, depth=121, timeout=1800,
                         label="random walks of the model (%s)" % cfg)
        scns += got
    rnd.shuffle(scns)
    scns = scns[:(6000 if ctx.thorough else 900)]
    for i, s in enumerate(scns):
        s["id"] = i + 1
    nmodel = len(scns)
    if nmodel == 0:
        raise vlib.InfraError("Dispatch Gen emitted nothing")
    nrand = 1500 if ctx.thorough else 200
    for i in range(nrand):
        staleto = i % 10 == 0
        scns.append({"id": 10 ** 6 + i, "mode": "random", "rseed": ctx.seed * 1000003 + i, "nc": rnd.randint(1, 4),
                     "nw": rnd.randint(1, 3), "init": [rnd.choice(["Queued", "Queued", "Locked"]) for _ in range(4)],
                     "n": 400, "restarts": rnd.choice([0, 1, 2]) if not staleto else 1, "staleto": staleto, "steps": []})
    scns += scripted_scenarios()
    by_id = {s["id"]: s for s in scns}
    only = os.environ.get("VERIF_C14_PART", "")      # development aid: "i" or "ii"
    # ---------------------------------------------------------------- RUN + JUDGE (i)
    pkg = "lib/dispatchcloud/scheduler"
    ov = ctx.harness_overlay(pkg, "harness/C14_scheduler")
    if only == "ii":
        scns = scns[:5]
    events, out = ctx.go_run_driver(pkg, ov, "TestVerifC14Sched$", scns, timeout=2400)
    if "VERIF-NOTE" in out:
        ctx.drift.append("scheduler-level driver: " + [l for l in out.splitlines() if "VERIF-NOTE" in l][0])
    traces = vlib.split_traces(events)
    applied = sum(t[0].get("applied", 0) for t in traces if t[0]["scn"] < 10 ** 6)
    skipped = sum(t[0].get("skipped", 0) for t in traces if t[0]["scn"] < 10 ** 6)
    ctx.extra["i_model_steps_applied"] = applied
    ctx.extra["i_model_steps_skipped"] = skipped
    if skipped > applied:
        raise vlib.InfraError("more than half of the model steps could not be applied to the real scheduler")
    acc1 = ctx.judge(SD, "DispatchTrace", "Judge_Dispatch.cfg", events, scenario_of=by_id, timeout=1800)
    nontrivial = set()
    starts = 0
    for t in traces:
        sc = [(e["ev"], e.get("c", 0), e.get("w", 0)) for e in t if e["ev"] in ("startcall", "procstart", "exit", "restart", "vmgone")]
        starts += sum(1 for e in t if e["ev"] == "startcall")
        if any(e[0] == "procstart" for e in sc):
            nontrivial.add(tuple(sc))
    ctx.extra["i_scenarios_model"] = nmodel
    ctx.extra["i_scenarios_random"] = nrand
    ctx.extra["i_start_decisions_judged"] = starts
    ctx.extra["i_traces_accepted"] = acc1
    ctx.samples += [{"scenario": {k: v for k, v in by_id[t[0]["scn"]].items() if k != "steps"}, "trace": t[:40]}
                    for t in traces[:1] + traces[-1:]]
    # ---------------------------------------------------------------- RUN + JUDGE (ii)
    e2e = e2e_scenarios(ctx, rnd)
    if only == "i":
        e2e = e2e[:1]
    ev2 = run_e2e(ctx, e2e)
    if only != "i":
        ev2 += run_probe_race(ctx)
        e2e.append({"id": 9201, "n": 1, "script": "probe answer taken before a start, returned after it"})
        e2e.append({"id": 9202, "n": 1, "script": "crunch-run --detach starts the process, its acknowledgement is lost"})
    tr2 = vlib.split_traces(ev2)
    maxw = max([e.get("w", 0) for e in ev2] + [w for e in ev2 for w in e.get("bad", []) + e.get("others", [])] + [0])
    maxc = max(s["n"] for s in e2e)
    if maxc > 520 or maxw > 6000:
        raise vlib.InfraError("end-to-end run outside the judge's identity sets (%d containers, instance %d)" % (maxc, maxw))
    # smaller identity sets judge faster
    jcfg = ("Judge_Dispatch_e2e_mid.cfg" if maxc <= 130 and maxw <= 300 else
            "Judge_Dispatch_e2e.cfg" if maxw <= 1000 else "Judge_Dispatch_e2e_huge.cfg")
    acc2 = ctx.judge(SD, "DispatchTrace", jcfg, ev2,
                     scenario_of={s["id"]: s for s in e2e}, timeout=1800, heap="12g")
    nproc = sum(1 for e in ev2 if e["ev"] == "procsnap")
    ctx.extra["ii_runs"] = len(tr2)
    ctx.extra["ii_containers"] = sum(s["n"] for s in e2e)
    ctx.extra["ii_process_starts_judged"] = nproc
    ctx.extra["ii_traces_accepted"] = acc2
    ctx.extra["ii_final"] = [t[-1] for t in tr2 if t[-1]["ev"] == "final"]
    nbug = sum(1 for e in ev2 if e["ev"] == "stubbug")
    if nbug:
        ctx.drift.append("the stub cloud reported %d times 'StubDriver bug or caller bug' (two processes of a container on one VM, "
                         "also visible as a process start with the same VM among the others)" % nbug)
    if not only and not any(k == "KF-C14-1" for k, _ in ctx.known_seen):
        ctx.drift.append("the targeted fixStaleLocks scenario did not reproduce KF-C14-1 in this run")
    if tr2:
        ctx.samples += [{"scenario": e2e[-1], "trace": [e for e in tr2[-1] if e["ev"] not in ("entries", "updatomic")][:40]}]
    # ---------------------------------------------------------------- (iii) queue level
    nq, accq = part_queue(ctx, rnd)
    ctx.evaluations = len(traces) + len(tr2) + nq
    ctx.extra["distinct_nontrivial"] = len(nontrivial) + nproc
    ctx.exhaustive = False
    ctx.rule = ("(i) scenarios = random walks (depth 120) of Dispatch.tla with passes atomic over 1-2 containers x 2 instances "
                "(three fault budgets incl. restart + StaleLockTimeout) plus seeded random walks drawn by the driver over 1-4 "
                "containers x 1-3 instances (400 steps); non-trivial = at least one process was started; distinct by the "
                "sequence of start/exit/restart/instance-gone events. (ii) end-to-end runs of 30-500 containers with VM "
                "faults, cancels, holds, operator hold/drain and one dispatcher restart; every process start is one judged case. "
                "(iii) random walks (depth 16) of QueueCache.tla plus three hand-written schedules against the real container.Queue")
    ctx.trusted_base = ["vSim: Go copy of the environment/pool side of Dispatch.tla (scheduler-level binding)",
                        "queue / pool recording wrappers and the SSH exec hook of the end-to-end driver",
                        "test.StubDriver / test.Queue (repository test support) and the added read-only accessors",
                        "quiescence = goroutine count", "fake APIClient of the queue-level binding (filters, offset paging, version in Priority)"]
    ctx.assumptions = ["'currently Locked' is judged relative to the dispatcher's information (see DispatchContract.tla, clause b)",
                       "container.Queue (delayed answers, dontupdate) is bound for one container at a time with a gated fake APIClient; "
                       "a poll is taken to see the record as it is when its first list request is released",
                       "an API answer is delivered before the second poll after the call begins (model, async mode)",
                       "end to end, overlaps of two processes of a container are observed at process starts (process tables), "
                       "'shut down but not yet destroyed' instances are not observable"]


if __name__ == "__main__":
    vlib.main("C14", run)
