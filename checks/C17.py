#!/usr/bin/env python3
"""C17 - a container's saved output is exactly what it left in its output directory.

GEN   specs/collfs/OutputCopy.tla  MC_C17*.cfg  (the model of copier.walkMount/walkHostFS/walkMountsBelow with its
                                                symlink budget = the expected output with cycle detection, all trees)
                                   Gen_C17*.cfg (every tree of the bounded space = one scenario)
RUN   harness/C17_crunchrun/vc17_copier_test.go (tree materialised in a temp dir, real copier.Copy, fake Keep)
JUDGE specs/collfs/OutputCopyTrace.tla         (OutputCopy!CopyOK over Manifest.tla)
"""
import os
import random
import sys

HERE = os.path.dirname(os.path.abspath(__file__))
sys.path.insert(0, os.path.join(HERE, "..", "lib"))
sys.path.insert(0, HERE)
import vlib  # noqa
import C10 as c10  # noqa  (shared helpers: concretiser template overlay, background runs, tolerant parallel judge)

SD = "specs/collfs"

# ---------------------------------------------------------------------------------------------------------
# Random output trees beyond the model's bounds (depth up to 4, up to 14 entries).  The generator only has to
# respect what the contract leaves unjudged (OutputCopy.tla header): a link target never passes THROUGH another
# link, and a target inside the collection mount names something that exists there.
# ---------------------------------------------------------------------------------------------------------
NAMES = [[97], [98], [99], [120], [121],                 # a b c x y
         [97, 32, 98], [58, 99], [92, 49], [233], [120, 255]]   # "a b", ":c", "\\1", a Latin-1 byte, "x" 0xFF
UP = [46, 46]
OUT, MNT, SEC, ETC, M_, S_, K_ = [111, 117, 116], [109, 110, 116], [115, 101, 99], [101, 116, 99], [109], [115], [107]
CONTENTS = [302, 401, 503, 0, 601, 302]
D_, D1_, E_, F_, G_, H_, J_ = [100], [100, 49], [101], [102], [103], [104], [106]
# OutputCopy!MountFamily and OutputCopy!MountCfgs, with the paths that exist below the mounted subtree
FAMILY = {
    1: [{"name": [46], "blocks": [103, 0, 202], "toks": [{"pos": 0, "len": 4, "name": F_}, {"pos": 1, "len": 0, "name": G_}]},
        {"name": [46, 47] + D_, "blocks": [202, 103], "toks": [{"pos": 1, "len": 4, "name": H_}]}],
    2: [{"name": [46, 47] + D_, "blocks": [103], "toks": [{"pos": 0, "len": 3, "name": H_}]},
        {"name": [46, 47] + D1_, "blocks": [202], "toks": [{"pos": 0, "len": 2, "name": K_}]},
        {"name": [46, 47] + D1_ + [47] + E_, "blocks": [202, 103], "toks": [{"pos": 1, "len": 3, "name": J_}]}],
    3: [{"name": [46], "blocks": [103], "toks": [{"pos": 0, "len": 3, "name": [92, 51, 53, 49]}]},
        {"name": [46, 47, 100, 92, 51, 55, 55], "blocks": [202], "toks": [{"pos": 0, "len": 2, "name": H_}]}],
}
P1 = [[], [F_], [G_], [D_], [D_, H_]]
P3 = [[], [[233]], [[100, 255]], [[100, 255], H_]]           # M3: names that are not UTF-8
P2 = [[], [D_], [D_, H_], [D1_], [D1_, K_], [D1_, E_], [D1_, E_, J_]]
# (where, family, mount path, paths existing below the mounted subtree); "deep" = beneath a random subdirectory
MOUNT_CFGS = [("none", 1, [], [[]]), ("outside", 1, [], P1), ("beneath", 1, [], P1), ("outside", 2, [], P2),
              ("outside", 2, [D_], [[], [H_]]), ("beneath", 2, [D_], [[], [H_]]), ("beneath", 2, [], P2),
              ("deep", 1, [], P1), ("deep", 2, [D_], [[], [H_]]), ("deep", 2, [], P2),
              ("outside", 3, [], P3), ("beneath", 3, [], P3), ("deep", 3, [], P3)]


def clean(comps):
    acc = []
    for c in comps:
        if c == UP:
            acc = acc[:-1]
        elif c != [46]:
            acc.append(c)
    return acc


def rand_tree(rnd):
    mnt, fam, mpath, mpaths = rnd.choice(MOUNT_CFGS)
    while True:
        nodes = {}
        dirs = [()]
        # directories and files first ...
        for _ in range(rnd.randint(2, 10)):
            parent = rnd.choice(dirs)
            if len(parent) >= 4:
                continue
            p = parent + (tuple(rnd.choice(NAMES)),)
            if p in nodes:
                continue
            k = rnd.choice(["dir", "dir", "file", "file"])
            nodes[p] = {"path": [list(x) for x in p], "k": k, "c": rnd.choice(CONTENTS) if k == "file" else 0, "abs": False, "tg": []}
            if k == "dir":
                dirs.append(p)
        # ... where the collection is mounted (beneath a subdirectory: every link to that directory must bring it along) ...
        if mnt == "deep" and len(dirs) == 1:
            continue
        mroot = {"none": None, "outside": [MNT], "beneath": [OUT, M_]}.get(mnt) if mnt != "deep" else \
            [OUT] + [list(x) for x in rnd.choice(dirs[1:])] + [M_]
        # ... then where the secret is: nowhere, outside, directly beneath /out, or in some directory below it ...
        r = rnd.random()
        if r < 0.2:
            sroot = []
        elif r < 0.35:
            sroot = [SEC]
        elif r < 0.55 or len(dirs) == 1:
            sroot = [OUT, S_]
        else:
            sroot = [OUT] + [list(x) for x in rnd.choice(dirs[1:])] + [S_]
        # ... then the links
        for _ in range(rnd.randint(1, 5)):
            parent = rnd.choice(dirs)
            if len(parent) >= 4:
                continue
            p = parent + (tuple(rnd.choice(NAMES)),)
            if p in nodes:
                continue
            n = {"path": [list(x) for x in p], "k": "link", "c": 0, "abs": False, "tg": []}
            r = rnd.random()
            others = [q for q in nodes if q != p[:len(q)]]           # existing entries that are not ancestors
            if r < 0.4 and others:                                   # an existing entry, relative
                q = rnd.choice(others)
                i = 0
                while i < len(parent) and i < len(q) and parent[i] == q[i]:
                    i += 1
                n["tg"] = [UP] * (len(parent) - i) + [list(x) for x in q[i:]]
            elif r < 0.55 and others:                                # an existing entry, absolute
                n["abs"], n["tg"] = True, [OUT] + [list(x) for x in rnd.choice(others)]
            elif r < 0.75 and mroot:                                 # into the mounted collection (something that exists there)
                n["abs"], n["tg"] = True, mroot + rnd.choice(mpaths)
            elif r < 0.82 and sroot:                                 # the secret
                n["abs"], n["tg"] = True, sroot + ([K_] if sroot == [SEC] else [])
            elif r < 0.91:                                           # anything relative: missing, cyclic, escaping
                n["tg"] = rnd.choice([[rnd.choice(NAMES)], [UP], [UP, rnd.choice(NAMES)], [rnd.choice(NAMES), rnd.choice(NAMES)],
                                      [UP, UP, rnd.choice(NAMES)], [UP, UP, UP, UP, UP, ETC]])
            else:                                                    # anything absolute outside the mounts / missing
                n["abs"] = True
                n["tg"] = rnd.choice([[OUT, rnd.choice(NAMES)], [ETC, K_], [OUT], [SEC, K_], [OUT, S_]])
            nodes[p] = n
        kinds = {p: n["k"] for p, n in nodes.items()}
        ok = True
        for p, n in nodes.items():
            if n["k"] != "link":
                continue
            base = [] if n["abs"] else [OUT] + [list(x) for x in p[:-1]]
            tp = clean(base + n["tg"])
            if tp[:1] == [OUT]:
                for i in range(2, len(tp)):
                    if kinds.get(tuple(tuple(x) for x in tp[1:i])) == "link":
                        ok = False                                   # passes THROUGH another link: not judged
            if mroot and tp[:len(mroot)] == mroot and tp[len(mroot):] not in mpaths:
                ok = False                                           # names nothing in the collection mount: not judged
        if ok and any(n["k"] == "link" for n in nodes.values()):
            order = sorted(nodes, key=lambda p: (len(p), p))
            return {"nodes": [nodes[p] for p in order], "mroot": mroot or [], "mpath": mpath, "sec": sroot, "mount": FAMILY[fam],
                    "experr": False, "random": True}


def run(ctx):
    rnd = random.Random(ctx.seed)
    W = int(os.environ.get("VERIF_TLC_WORKERS", "6"))
    big = ctx.thorough
    # ---- GEN: design-level check in the background, scenario emission in the foreground
    mc_cfg = "MC_C17.cfg" if big else "MC_C17_quick.cfg"
    d = ctx._stage([SD])
    cmd = ["java", "-XX:+UseParallelGC", "-XX:ParallelGCThreads=2", "-Xmx8g", "-Xss64m", "-cp", vlib.TLA_CP, "tlc2.TLC", "-workers", str(max(1, W - 1)),
           "-metadir", os.path.join(d, "meta"), "-config", mc_cfg, "OutputCopy"]
    mc = c10.Bg(cmd, d, dict(os.environ), 1700)
    scns, _ = ctx.gen(SD, "OutputCopy", "Gen_C17_big.cfg" if big else "Gen_C17.cfg", timeout=1700,
                      label="scenario emission: every output tree of the bounded space")
    ctx.extra["scenarios_emitted"] = len(scns)
    # every tree of the space is emitted; at code level: those whose copy must succeed first, then those that must
    # fail, a seeded sample of each when there are too many (quick 1500, thorough 16000)
    ok = [s for s in scns if not s["experr"]]
    bad = [s for s in scns if s["experr"]]
    rnd.shuffle(ok)
    rnd.shuffle(bad)
    cap_ok, cap_all = (12000, 16000) if big else (1200, 1500)
    ok = ok[:cap_ok]
    scns = ok + bad[:max(300, cap_all - len(ok))]
    nrand = 3000 if big else 400
    scns += [rand_tree(rnd) for _ in range(nrand)]
    for i, s in enumerate(scns):
        s["id"] = i + 1
    by_id = {s["id"]: s for s in scns}
    # ---- RUN
    pkg = "lib/crunchrun"
    ov = ctx.harness_overlay(pkg, "harness/C17_crunchrun", extra=c10.common_overlay(ctx, pkg, "crunchrun"))
    events, out = ctx.go_run_driver(pkg, ov, "TestVerifC17$", scns, timeout=1700)
    traces = vlib.split_traces(events)
    ctx.evaluations = len(traces)
    # ---- JUDGE
    nrej = c10.judge_all(ctx, traces, by_id, per_batch=600, module="OutputCopyTrace", cfg="Judge_C17.cfg")
    ctx.log("judge: %d executions rejected" % nrej)
    rc, mout, wall = mc.wait()
    r = vlib.TlcResult(rc, mout, wall)
    ctx.states += r.distinct
    ctx.transitions += r.generated
    ctx.mc_runs.append({"module": "OutputCopy", "cfg": mc_cfg, "distinct": r.distinct, "generated": r.generated,
                        "wall_s": round(wall, 1), "label": "exhaustive: copier walk (symlink budget) = expected output"})
    if not r.ok:
        raise vlib.InfraError("TLC OutputCopy/%s did not pass (rc=%d, violated=%s):\n%s" % (mc_cfg, rc, r.violated, r.tail()))
    # ---- evidence
    def shape(s):
        return (str(s["mroot"]), str(s["mpath"]), str(s["sec"]), len(s["mount"]),
                tuple((str(n["path"]), n["k"], n["abs"], str(n["tg"])) for n in s["nodes"]))
    ctx.extra["distinct_nontrivial"] = len({shape(s) for s in scns if any(n["k"] == "link" for n in s["nodes"])})
    ctx.extra["expected_errors_among_generated"] = sum(1 for s in scns if s["experr"])
    ctx.extra["random_trees"] = nrand
    ctx.extra["copies_ok"] = sum(1 for t in traces if t[1].get("kind") == "ok")
    ctx.rule = ("scenarios = every output tree of OutputCopy.tla within the Gen bounds (5 candidate paths, each absent / "
                "directory / file / symlink to one of the listed relative or absolute targets incl. chains, cycles, "
                "escapes; a collection mount outside the output path, beneath it or beneath one of its subdirectories, showing all or one directory of one of two "
                "collections, one of which has directories whose names are prefixes of each other; a secret mount outside, "
                "beneath the output path or inside one of its subdirectories) plus seeded random trees (depth <= 4, up "
                "to 14 entries, random relative/absolute targets); non-trivial = trees with at "
                "least one symlink, distinct by (mount mode, secret mode, node kinds and targets)")
    ex = [t for t in traces if t[1].get("kind") == "ok" and len(t[1].get("out", [])) > 1][:2] + \
         [t for t in traces if t[1].get("kind") == "error"][:1]
    ctx.samples = [{"scenario": by_id.get(t[0].get("scn")), "trace": t} for t in ex]
    ctx.trusted_base = ["materialisation of the abstract tree in a temp dir (mkdir/write/symlink)",
                        "fake Keep (PutB/ReadAt in memory) and stub API client returning the mount's manifest",
                        "concretiser/abstraction of C10 (block id <-> content bytes, tokenising of the returned manifest)",
                        "description of newly written blocks by the host contents they hold (content bytes identify file and offset)"]
    ctx.assumptions = ["link targets never pass through another link and never name a missing path inside a collection mount",
                       "two mounted collections to choose from; no writable collection mounts, no special files, no huge files",
                       "names are plain ASCII here (name escaping is C10's subject)"]
    ctx.exhaustive = False


if __name__ == "__main__":
    vlib.main("C17", run)
