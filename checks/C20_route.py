#!/usr/bin/env python3
"""C20, extra part - per-object routing of federation.Conn (chooseBackend and the Get/Update/Delete/... wrappers).

GEN   specs/federation/FedRoute.tla     Gen_FedRoute.cfg (every classified method x prefix class x configured
                                        remotes x login cluster; invariants on the complete table)
RUN   harness/C20_route_federation/route_driver_test.go  (real federation.Conn called by reflection; local =
                                        recording stub, remotes = real rpc.Conn -> HTTP -> real router -> recording stub)
JUDGE specs/federation/FedRouteTrace.tla      ROUTING clauses of FedRouteContract (the requested method reaches only the
                                        backend named by the UUID prefix / cluster id, at most once; an unknown prefix
                                        never reaches a remote).  Growth beyond every property statement: judged with
                                        ctx.judge_as_drift, rejections are DRIFT lines, never a violation of C20.
      specs/federation/FedRouteSaltTrace.tla  SALTING clause only (at a remote the caller's token is salted for that
                                        remote, no leak, no foreign salt) = C19's statement: judged strictly by
                                        salt_part(ctx), which checks/C19.py calls.

run_part(ctx) is used by checks/C20.py, salt_part(ctx) by checks/C19.py.
Alone: python3 checks/C20_route.py --tier quick   (routing part, drift only)
"""
import os
import random
import sys

sys.path.insert(0, os.path.join(os.path.dirname(os.path.abspath(__file__)), "..", "lib"))
import vlib  # noqa

PAM = {"lib/controller/localdb/login_pam.go": "harness/stubs/login_pam_stub.go"}
# API methods that are deliberately not in FedRoute.tla's table (see its header)
NOT_ROUTED_BY_OBJECT = {"ConfigGet", "Login", "Logout", "UserList", "UserSessionCreate", "UserSessionAuthInfo"}


def collect(ctx):
    """GEN + RUN; returns (table rows, scenarios by id, events, number of traces)."""
    sd = "specs/federation"
    pkg = "lib/controller/federation"
    rnd = random.Random(ctx.seed + 77)
    got, r = ctx.gen(sd, "FedRoute", "Gen_FedRoute.cfg", timeout=900,
                     label="routing table: scenario emission + invariants (complete table)")
    scns = []
    for s in got:
        s["id"] = 7 * 10 ** 6 + len(scns)
        s["rseed"] = ctx.seed
        scns.append(s)
    ctx.extra["route_table_rows"] = len(scns)
    if not ctx.thorough:
        rnd.shuffle(scns)
        scns = scns[:700]
    elif True:
        more = []
        for rep in (1, 2):                 # further concretisations (uuid kinds, bogus strings, tokens)
            for s in scns:
                s = dict(s)
                s["id"] += rep * 10 ** 5
                s["rseed"] = ctx.seed + rep
                more.append(s)
        scns += more
    by_id = {s["id"]: s for s in scns}
    ov = ctx.harness_overlay(pkg, "harness/C20_route_federation", extra=PAM)
    events, out = ctx.go_run_driver(pkg, ov, "TestVerifC20Route$", scns, timeout=1500)
    # is every API method classified?
    table = set(s["method"] for s in got)
    for ln in out.splitlines():
        if ln.startswith("VERIF-API-METHODS:"):
            api = set(ln.split(":", 1)[1].strip().split(","))
            unclassified = sorted(m for m in api - table - NOT_ROUTED_BY_OBJECT if not m.endswith("List"))
            gone = sorted(table - api)
            if unclassified:
                ctx.drift.append("arvados.API methods not in FedRoute.tla's routing table: %s" % ", ".join(unclassified))
            if gone:
                ctx.drift.append("FedRoute.tla names methods that arvados.API no longer has: %s" % ", ".join(gone))
    traces = vlib.split_traces(events)
    nd = 0
    for t in traces:
        s = by_id.get(t[0]["scn"])
        if any(e["ev"] == "nomethod" for e in t):
            continue
        gotd = sorted(e["dest"] for e in t if e["ev"] == "call")
        if s and gotd != sorted(s["expect"]) and gotd:
            nd += 1
            if nd <= 3:
                ctx.drift.append("FedRoute.tla predicted %s, code called %s (%s pfx=%s known=%s login=%s)"
                                 % (s["expect"], gotd, s["method"], s["pfx"], s["known"], s["login"]))
    events = [e for t in traces if not any(x["ev"] == "nomethod" for x in t) for e in t]
    ctx.extra["route_traces"] = len(vlib.split_traces(events))
    ctx.extra["route_remote_calls"] = sum(1 for e in events if e["ev"] == "call" and e["dest"] != "local")
    ctx.trusted_base.append("routing part: reflection-based caller, recording APIStubs behind the real router, "
                            "method classes of FedRoute.tla (read off conn.go)")
    return by_id, events


def run_part(ctx):
    """C20: routing clauses, DRIFT only."""
    by_id, events = collect(ctx)
    ctx.judge_as_drift("routing", "specs/federation", "FedRouteTrace", "Judge_FedRoute.cfg", events,
                       scenario_of=by_id, timeout=900, max_rejects=10)
    ctx.assumptions.append("routing part (drift only): refusing (no call at all) is accepted; bookkeeping calls of other "
                           "methods are not constrained; an unknown prefix may reach the local cluster, never a remote")
    return ctx.extra["route_traces"]


def salt_part(ctx):
    """C19: salting clause at every remote delivery of the routing traces, strict."""
    by_id, events = collect(ctx)
    ctx.judge("specs/federation", "FedRouteSaltTrace", "Judge_FedRoute.cfg", events, scenario_of=by_id, timeout=900,
              max_rejects=25 if ctx.thorough else 6)
    return ctx.extra["route_traces"]


if __name__ == "__main__":
    vlib.main("C20route", lambda ctx: run_part(ctx))
