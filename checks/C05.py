#!/usr/bin/env python3
"""C05 - keep-balance never trashes a replica that is still needed or too new.

GEN   specs/balance/BalanceBlock.tla   MC_BalanceBlock*.cfg (transcription of balanceBlock refines
                                       BalanceContract outside the known-finding layouts)
                                       Gen_BalanceBlock*.cfg (every layout of the bounded space, and
                                       simulated layouts of a wider space, with the predicted result)
RUN   harness/C05_keepbalance/balance_driver_test.go  (real cleanupMounts, setupLookupTables, balanceBlock)
JUDGE specs/balance/BalanceTrace.tla   (BalanceContract: physical-device model)
"""
import json
import os
import random
import sys

sys.path.insert(0, os.path.join(os.path.dirname(os.path.abspath(__file__)), "..", "lib"))
import vlib  # noqa

SD = "specs/balance"


def hand_scenarios():
    """Layouts written by hand from reading the code (DESIGN.md section 3.1 candidates)."""
    def lay(srv, has, mt, dev=None, ro=None, cls=None, repl=None, srvro=(), desired=None):
        n = len(srv)
        return {"n": n, "srv": srv, "ro": ro or [False] * n, "dev": dev or [0] * n, "repl": repl or [1] * n,
                "cls": cls or [["default"]] * n, "has": has, "mt": mt, "srvro": list(srvro), "cut": 5,
                "desired": desired or {"default": 2}}
    return [
        # two empty writable mounts ranked first, then two views of one device, then a copy elsewhere
        {"id": 900001, "lay": lay([1, 2, 3, 4, 5], [False, False, True, True, True], [1, 1, 1, 1, 2],
                                  dev=[0, 0, 1, 1, 0])},
        # same, the last copy is on a mount outside the desired class
        {"id": 900002, "lay": lay([1, 2, 3, 4, 5], [False, False, True, True, True], [1, 1, 1, 1, 2],
                                  dev=[0, 0, 1, 1, 0], cls=[["default"]] * 4 + [["special"]])},
        # desired class offered by no mount
        {"id": 900003, "lay": lay([1, 2], [True, True], [1, 2], desired={"default": 0, "special": 2})},
        # referenced, no replica, no writable mount
        {"id": 900004, "lay": lay([1, 2], [False, False], [1, 1], ro=[True, True])},
        # two in-class replicas on one server and an out-of-class replica elsewhere
        {"id": 900006, "lay": lay([1, 1, 2], [True, True, True], [1, 2, 3],
                                  cls=[["default"], ["default"], ["special"]])},
        # one in-class replica next to an empty wanted mount on the same server, out-of-class replica elsewhere
        {"id": 900007, "lay": lay([1, 1, 2], [False, True, True], [1, 1, 9], repl=[1, 1, 2],
                                  cls=[["default", "special"], ["special"], ["default"]],
                                  desired={"default": 1, "special": 1})},
        # control: distinct devices instead of views
        {"id": 900005, "lay": lay([1, 2, 3, 4, 5], [False, False, True, True, True], [1, 1, 1, 1, 2],
                                  dev=[0, 0, 1, 2, 0])},
    ]


def tags_of(lay):
    """Layout classes used by known_findings.d/C05.json (annotation only, nothing is judged here)."""
    n = lay["n"]
    sro = set(lay["srvro"])
    ero = [lay["ro"][m] or lay["srv"][m] in sro for m in range(n)]
    views = {}
    for m in range(n):
        if lay["dev"][m] != 0 and lay["has"][m]:
            views[lay["dev"][m]] = views.get(lay["dev"][m], 0) + 1
    offered = set(c for m in range(n) for c in lay["cls"][m])
    referenced = any(v > 0 for v in lay["desired"].values())
    per_srv = {}
    for m in range(n):
        per_srv.setdefault(lay["srv"][m], []).append(lay["has"][m])
    return {
        "replica_on_multi_mount_server": any(len(v) >= 2 and any(v) for v in per_srv.values()),
        "replica_outside_desired_class": any(v > 0 and lay["has"][m] and c not in lay["cls"][m]
                                             for c, v in lay["desired"].items() for m in range(n)),
        "shared_views": any(v >= 2 for v in views.values()),
        "class_without_mount": any(v > 0 and c not in offered for c, v in lay["desired"].items()),
        "no_writable_no_replica": referenced and not any(lay["has"]) and all(ero),
    }, ero, referenced


def annotate(events):
    """Add derived fields to the recorded events (used only to match known findings)."""
    lay = ero = None
    for e in events:
        if e["ev"] == "reset":
            lay = e["lay"]
            e["tags"], ero, referenced = tags_of(lay)
            lostdue = referenced and not any(lay["has"])
        elif e["ev"] == "trash":
            ok = 1 <= e["m"] <= lay["n"]
            e["old"] = e["t"] <= lay["cut"]
            e["ero"] = ero[e["m"] - 1] if ok else True
            e["lostdue"] = False
        elif e["ev"] == "finish":
            e["old"], e["ero"] = True, False
            e["lostdue"] = bool(lostdue and not e["lost"])
    return events


def run_judge(ctx, events, cfg):
    """One TLC run over the trace file; returns the sorted 1-based line numbers of the rejected events
    (BalanceTrace.tla reports each rejection and skips the rest of that trace)."""
    import re
    ctx.nrun += 1
    tp = os.path.join(ctx.scratch, "judge%d.ndjson" % ctx.nrun)
    vlib.write_ndjson(tp, events)
    r = ctx.tlc(SD, "BalanceTrace", cfg, env={"VERIF_TRACE": tp}, workers=1, timeout=2400, count=False,
                must_pass=False)
    if not r.ok:
        raise vlib.InfraError("judge BalanceTrace/%s did not consume the trace file (rc=%d):\n%s"
                              % (cfg, r.rc, r.tail(40)))
    return sorted(set(int(x) for x in re.findall(r"REJECTED_LINE\D+(\d+)", r.out)))


def rejected_traces(traces, lines):
    """Map rejected line numbers to (trace index, 1-based offset in the trace)."""
    import bisect
    starts = []
    n = 0
    for t in traces:
        starts.append(n)
        n += len(t)
    out = []
    for ln in lines:
        i = bisect.bisect_right(starts, ln - 1) - 1
        out.append((i, ln - starts[i]))
    return out


def kf4_signature(t):
    """Structural signature of KF-C05-4 on a rejected trace: an in-class replica is trashed although its
    server is otherwise in use (another mount of it keeps a replica or receives a pull), while a replica
    outside that class is kept on another server.  (Annotation only.)"""
    lay = t[0]["lay"]
    n = lay["n"]
    trashed = set(e["m"] for e in t if e["ev"] == "trash" and 1 <= e["m"] <= n
                  and lay["has"][e["m"] - 1] and lay["mt"][e["m"] - 1] == e["t"])
    pulled = set(e["to"] for e in t if e["ev"] == "pull")
    for c, des in lay["desired"].items():
        if des <= 0:
            continue
        for m in trashed:
            if c not in lay["cls"][m - 1]:
                continue
            srv = lay["srv"][m - 1]
            used = any(m2 != m and lay["srv"][m2 - 1] == srv
                       and ((lay["has"][m2 - 1] and m2 not in trashed) or m2 in pulled)
                       for m2 in range(1, n + 1))
            outside = any(lay["srv"][m3 - 1] != srv and lay["has"][m3 - 1] and m3 not in trashed
                          and c not in lay["cls"][m3 - 1] for m3 in range(1, n + 1))
            if used and outside:
                return True
    return False


def model_predictions(ctx, layouts):
    """BalanceBlock.tla's own result (the model contains the known defects) for the given layouts:
    {id: set of predicted trash sets (one per tie order)}."""
    import re
    ctx.nrun += 1
    lp = os.path.join(ctx.scratch, "layouts%d.ndjson" % ctx.nrun)
    vlib.write_ndjson(lp, layouts)
    r = ctx.tlc(SD, "BalanceBlock", "Predict_BalanceBlock.cfg", env={"VERIF_LAYOUTS": lp}, workers=1, timeout=2400,
                count=False, must_pass=False)
    if not r.ok:
        raise vlib.InfraError("BalanceBlock prediction run failed (rc=%d):\n%s" % (r.rc, r.tail(40)))
    pred = {}
    for m in re.finditer(r'<<"PREDICT", (\d+), \{([^}]*)\}, \{([^}]*)\}, (TRUE|FALSE)>>', r.out):
        tr = frozenset(int(x) for x in m.group(2).replace(" ", "").split(",") if x)
        pred.setdefault(int(m.group(1)), set()).add(tr)
    return pred


def judge_all(ctx, events, by_id):
    """One TLC run reports every rejected event; each rejection is classified by vlib (known finding or
    VIOLATION).  Before that the rejected traces are judged again under the two counting variants of the
    contract, which yields the signature tags the known findings are matched on:
      permount_ok    the whole trace is accepted when every mount counts as its own device   (KF-C05-1)
      classblind_ok  the whole trace is accepted when every mount counts for every class     (KF-C05-4)
      both_ok        accepted with both relaxations at once (a layout where both defects combine)
      kf4_sig        structural signature of KF-C05-4
      model_same     the real code computed exactly the trash set that BalanceBlock.tla (the model of the
                     unmutated algorithm, known defects included) predicts for this layout under some
                     tie order: the CAUSE is the known algorithm, not something else with the same outcome"""
    traces = vlib.split_traces(events)
    rej = rejected_traces(traces, run_judge(ctx, events, "Judge_Balance.cfg"))
    if rej:
        sub = [traces[i] for i, off in rej]
        flat = [e for t in sub for e in t]
        bad_pm = set(i for i, off in rejected_traces(sub, run_judge(ctx, flat, "Judge_Balance_permount.cfg")))
        bad_cb = set(i for i, off in rejected_traces(sub, run_judge(ctx, flat, "Judge_Balance_classblind.cfg")))
        bad_both = set(i for i, off in rejected_traces(sub, run_judge(ctx, flat, "Judge_Balance_both.cfg")))
        pred = model_predictions(ctx, [{"id": j + 1, "lay": t[0]["lay"]} for j, t in enumerate(sub)])
    for j, (i, off) in enumerate(rej):
        if len(ctx.violations) >= 25:
            ctx.log("judge: 25 violations, not classifying the remaining rejections")
            break
        t = traces[i]
        ev = t[off - 1]
        ev["permount_ok"] = j not in bad_pm
        ev["classblind_ok"] = j not in bad_cb
        ev["both_ok"] = j not in bad_both
        ev["kf4_sig"] = kf4_signature(t)
        ev["model_same"] = frozenset(e["m"] for e in t if e["ev"] == "trash") in pred.get(j + 1, set())
        if os.environ.get("VERIF_DEBUG"):
            print("REJECTED", off, json.dumps(t))
        ctx.classify({"trace": t, "offset": off, "why": "event not allowed by the contract"}, by_id)
    ctx.traces_validated += len(traces) - len(rej)
    return len(rej)


def run(ctx):
    pkg = "services/keep-balance"
    rnd = random.Random(ctx.seed)
    # GEN: design-level check of the transcription against the contract (outside the known findings)
    if ctx.thorough:
        ctx.tlc(SD, "BalanceBlock", "MC_BalanceBlock_bigA.cfg", timeout=2400,
                label="exhaustive: <=3 mounts, shared device, read-only mounts/servers, 3 mtimes, one class")
        ctx.tlc(SD, "BalanceBlock", "MC_BalanceBlock_bigB.cfg", timeout=2400,
                label="exhaustive: <=3 mounts, two classes, replication 1-2")
        ctx.tlc(SD, "BalanceBlock", "MC_BalanceBlock_bigC.cfg", timeout=2400,
                label="exhaustive: <=5 mounts on <=4 servers (<=2 per server), shared device, old/new mtimes, one class")
    else:
        ctx.tlc(SD, "BalanceBlock", "MC_BalanceBlock.cfg", timeout=1500,
                label="exhaustive: <=3 mounts on <=3 servers, shared device, old/new mtimes, one class")
    # GEN: scenarios = every layout of the bounded space (known-finding layouts included) ...
    scns, r = ctx.gen(SD, "BalanceBlock", "Gen_BalanceBlock_big.cfg" if ctx.thorough else "Gen_BalanceBlock.cfg",
                      timeout=2400, label="scenario emission: all layouts of the bounded space")
    if not scns:
        raise vlib.InfraError("no scenario emitted")
    cap = 30000 if ctx.thorough else 4000
    if len(scns) > cap:
        scns.sort(key=lambda s: s["id"])
        rnd.shuffle(scns)
        scns = scns[:cap]
    # ... and simulated layouts of a wider space (<= 6 mounts on <= 5 servers, 2 classes, replication 1-3,
    # 2 shared devices, read-only flags, desired 0-4)
    sim, r = ctx.gen(SD, "BalanceBlock", "Gen_BalanceBlock_sim.cfg", timeout=2400,
                     simulate="num=%d" % (20000 if ctx.thorough else 1500), depth=60,
                     label="scenario emission: simulated layouts of the wide space")
    for s in sim:
        s["id"] += 10 ** 6
    scns += sim
    scns += hand_scenarios()
    ctx.extra["scenarios_emitted"] = len(scns)
    # random layouts beyond the model's bounds: up to 16 servers x 1-2 mounts
    nrand = 8000 if ctx.thorough else 1200
    base = 10 ** 7
    for i in range(nrand):
        scns.append({"id": base + i, "mode": "random", "rseed": ctx.seed * 1000003 + i,
                     "nsrv": rnd.choice([1, 2, 3, 4, 5, 6, 8, 12, 16])})
    by_id = {s["id"]: s for s in scns}
    # RUN
    ov = ctx.harness_overlay(pkg, "harness/C05_keepbalance")
    events, out = ctx.go_run_driver(pkg, ov, "TestVerifC05$", scns, timeout=1500)
    annotate(events)
    traces = vlib.split_traces(events)
    ctx.evaluations = len(traces)
    # drift: the transcription's predicted result against the real one (only where the unspecified
    # order of equal sort keys cannot matter: at most one mount per server)
    ndrift = 0
    nontrivial = set()
    for t in traces:
        scn = by_id.get(t[0]["scn"]) or {}
        lay = t[0]["lay"]
        tr = sorted(e["m"] for e in t if e["ev"] == "trash")
        pu = sorted(e["to"] for e in t if e["ev"] == "pull")
        lost = [e["lost"] for e in t if e["ev"] == "finish"]
        if "expect_trash" in scn and len(set(lay["srv"])) == len(lay["srv"]):
            if tr != sorted(scn["expect_trash"]) or pu != sorted(scn["expect_pull"]) or lost != [scn["expect_lost"]]:
                ndrift += 1
                if ndrift == 1:
                    ctx.drift.append("scenario %s: model predicts trash %s pull %s lost %s, code did %s %s %s"
                                     % (scn["id"], scn["expect_trash"], scn["expect_pull"], scn["expect_lost"],
                                        tr, pu, lost))
        if tr or pu or (lost and lost[0]):
            nontrivial.add(json.dumps([lay["srv"], lay["ro"], lay["dev"], lay["repl"], lay["cls"], lay["has"],
                                       lay["mt"], lay["srvro"], sorted(lay["desired"].items())]))
    if ndrift > 1:
        ctx.drift.append("%d scenarios in total differ from the model's prediction" % ndrift)
    # JUDGE
    nrej = judge_all(ctx, events, by_id)
    ctx.extra["rejected_traces"] = nrej
    ctx.extra["distinct_nontrivial"] = len(nontrivial)
    ctx.rule = ("scenarios = every layout BalanceBlock.tla can build within the Gen bounds, simulated layouts of a "
                "wider space, %d hand-written layouts and seeded random layouts of up to 16 servers x 1-2 mounts; "
                "non-trivial = at least one trash or pull request or a lost block; distinct by the complete layout"
                % len(hand_scenarios()))
    ctx.samples = [{"scenario": by_id.get(t[0]["scn"]), "trace": t} for t in traces[200:201] + traces[-2:]]
    ctx.trusted_base = ["layout -> Balancer concretiser and changeset -> event abstraction in the driver",
                        "server numbering by the real keepclient.NewRootSorter order",
                        "physical-device model in BalanceContract.tla"]
    ctx.assumptions = ["mounts that share a non-blank DeviceID are views of one physical device with one replication "
                       "value and one set of storage classes",
                       "carrying out a trash request on a mount removes the copy on that mount's device",
                       "layouts in which cleanupMounts drops a mount appear only among the random layouts"]


if __name__ == "__main__":
    vlib.main("C05", run)
