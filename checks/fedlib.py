"""Helpers shared by the federation-family checks (C18, C19, C20)."""
import re

import vlib


def panic_in_code_under_test(stack):
    """True only if the panicking goroutine's first non-runtime frame after panic() lies in a non-harness file of
    the repository under test, and the panic is not the test binary's own timeout."""
    if not stack or "test timed out" in stack:
        return False
    lines = stack.splitlines()
    seen_panic = False
    for i, ln in enumerate(lines):
        if ln.startswith("panic("):
            seen_panic = True
            continue
        if not seen_panic:
            continue
        m = re.match(r"^\s+(\S+\.go):\d+", ln)
        if not m:
            continue
        path = m.group(1)
        if "/runtime/" in path or path.startswith("runtime/"):
            continue
        return "zz_verif" not in path and ("/lib/controller/" in path or "/sdk/go/" in path or "/services/" in path)
    return False


def drop_infra_traces(ctx, events, label):
    """A `hang` (the driver gave up waiting) or a `panic` that is not provably raised in the code under test is
    infrastructure trouble, never a verdict: such traces are dropped and counted; more than a few is exit 2."""
    keep, dropped = [], 0
    traces = vlib.split_traces(events)
    for t in traces:
        bad = False
        for e in t:
            if e.get("ev") == "hang":
                bad = True
            elif e.get("ev") == "panic" and not panic_in_code_under_test(e.get("stack", "")):
                bad = True
        if bad:
            dropped += 1
        else:
            keep.extend(t)
    ctx.extra[label + "_infra_traces_dropped"] = dropped
    if dropped > max(3, len(traces) // 100):
        raise vlib.InfraError("%s: %d of %d traces ended in a driver hang / harness panic" % (label, dropped, len(traces)))
    if dropped:
        ctx.drift.append("%s: %d traces dropped (driver hang or harness panic: infrastructure, not judged)" % (label, dropped))
    return keep
