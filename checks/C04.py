#!/usr/bin/env python3
"""C04 - a freshly written or touched block survives garbage collection for the TTL.

GEN   specs/keepstore/KeepVolume.tla   MC_C04*.cfg  (system-call granularity; contract obligations, lock
                                                    discipline, AckedSurvives; KF-C04-1 was repaired in 6f6002f,
                                                    MC_C04_nofix.cfg shows the race in the model of the old code;
                                                    KF-C04-2 is in the model, excluded by name)
                                       Gen_C04*.cfg (every schedule of PUT|TOUCH || DELETE|trash-item [|| untrash|
                                                    EmptyTrash] [|| ticks], up to commutation of invisible steps)
RUN   harness/C04_keepstore            instrumented unix_volume.go (tools/instrument, built and run here on the
                                       CURRENT working tree), yield-point scheduler, virtual time; plus seeded
                                       random sequential histories
JUDGE specs/keepstore/KeepstoreGCTrace.tla (KeepstoreGCContract)
"""
import json
import os
import random
import re
import subprocess
import sys

sys.path.insert(0, os.path.join(os.path.dirname(os.path.abspath(__file__)), "..", "lib"))
import vlib  # noqa

SD = "specs/keepstore"
PKG = "services/keepstore"

# labels the model KeepVolume.tla knows (pc values); the scheduler parks actors only at these
ALPHABET = [
    "Compare.stat", "Compare.getFunc",
    "Touch.OpenFile", "Touch.lock", "Touch.lockfile", "Touch.Chtimes",
    "WriteBlock.IsFull", "WriteBlock.MkdirAll", "WriteBlock.TempFile", "WriteBlock.lock", "WriteBlock.Copy",
    "WriteBlock.Write#1", "WriteBlock.tmpfile.Close", "WriteBlock.Chtimes", "WriteBlock.OpenFile",
    "WriteBlock.lockfile", "WriteBlock.Rename",
    "Mtime.Stat",
    "Trash.lock", "Trash.OpenFile", "Trash.lockfile", "Trash.Stat", "Trash.Remove", "Trash.Rename",
    "Untrash.ReadDir", "Untrash.Rename",
    "EmptyTrash.Walk", "EmptyTrash.Remove",
    "IndexTo.Open", "IndexTo.rootdir.Readdirnames", "IndexTo.blockdir.Readdir", "IndexTo.blockdir.Close",
]
# labels of the scheduled methods that exist in the source but only on error paths the C04 model does not take
ERROR_PATH = {"WriteBlock.Remove", "WriteBlock.tmpfile.Name"}
SCHEDULED_METHODS = ("Compare", "Touch", "WriteBlock", "Mtime", "Trash", "Untrash", "EmptyTrash", "IndexTo")


def build_instrumented(ctx):
    """Build tools/instrument into the scratch dir and run it on the working tree's unix_volume.go."""
    env = dict(os.environ)
    env.update(vlib.GOENV)
    exe = os.path.join(ctx.scratch, "instrument")
    p = subprocess.run(["go", "build", "-o", exe, "."], cwd=os.path.join(vlib.VERIF, "tools/instrument"),
                       env=env, stdout=subprocess.PIPE, stderr=subprocess.STDOUT, text=True)
    if p.returncode != 0:
        raise vlib.InfraError("cannot build tools/instrument:\n" + p.stdout)
    src = os.path.join(vlib.REPO, PKG, "unix_volume.go")
    out = os.path.join(ctx.scratch, "unix_volume_instrumented.go")
    lab = os.path.join(ctx.scratch, "labels.json")
    p = subprocess.run([exe, "-in", src, "-out", out, "-labels", lab], stdout=subprocess.PIPE,
                       stderr=subprocess.STDOUT, text=True)
    if p.returncode != 0:
        raise vlib.InfraError("instrumenter failed on %s:\n%s" % (src, p.stdout))
    with open(lab) as f:
        labels = json.load(f)
    return out, labels


def judge_all(ctx, events, scenario_of, module="KeepstoreGCJudge", cfg="Judge_C04_all.cfg"):
    """Judge every trace in ONE TLC run (each trace is its own initial state, see KeepstoreGCJudge.tla) and
    classify each rejected trace with ctx.classify (known finding / VIOLATION).  vlib.Ctx.judge restarts TLC
    after every rejection, which costs minutes when the unchanged tree has known findings."""
    traces = vlib.split_traces(events)
    if not traces:
        return 0
    start = {}
    n = 1
    for i, t in enumerate(traces):
        t[0]["len"] = len(t)
        start[n] = i
        n += len(t)
    ctx.nrun += 1
    tp = os.path.join(ctx.scratch, "judgeall%d.ndjson" % ctx.nrun)
    vlib.write_ndjson(tp, [ev for t in traces for ev in t])
    r = ctx.tlc(SD, module, cfg, env={"VERIF_TRACE": tp}, workers=1, timeout=1800, count=False, must_pass=False)
    rejected = []
    if not r.ok:
        m = re.search(r"REJECTED_TRACES.*?\{(.*?)\}\s*>>", r.out, re.S)
        if not m:
            raise vlib.InfraError("judge %s/%s failed without naming rejected traces (rc=%d):\n%s"
                                  % (module, cfg, r.rc, r.tail(60)))
        for a, b in re.findall(r"<<(\d+), (\d+)>>", m.group(1)):
            a, b = int(a), int(b)
            if a not in start:
                raise vlib.InfraError("judge: rejected trace at line %d is not a reset line" % a)
            rejected.append({"trace": traces[start[a]], "offset": b - a + 1,
                             "why": "event not allowed by the contract"})
        if not rejected:
            raise vlib.InfraError("judge: could not parse rejected traces:\n" + r.tail(30))
    ctx.traces_validated += len(traces) - len(rejected)
    for rj in rejected:
        head = rj["trace"][0]
        t, off = rj["trace"], rj["offset"]
        rev = t[off - 1] if 0 < off <= len(t) else {}
        op = rev.get("op")
        if rev.get("ev") == "ret":
            op = next((e.get("op") for e in reversed(t[:off - 1]) if e.get("ev") == "call" and e.get("id") == rev.get("id")), None)
        if rev.get("ev") == "index" or (rev.get("ev") in ("call", "ret") and op in ("pull", "index")):
            # not part of C04's statement (pull-worker writes, index listing): never a violation of C04
            ctx.drift.append("beyond C04: contract rejected %s of scn %s" % (json.dumps(rev)[:160], head.get("scn")))
            continue
        extra = {"hist_class": hist_class(head, rj["trace"], rj["offset"]) if head.get("mode") == "random" else "none"}
        kfc = kf_class(head)
        if kfc == "C04-2-untrash-overwrites":
            # the concurrent form of KF-C04-2 is a breach of the survival clause (a) and of nothing else
            info, _ = seq_mirror(head, rj["trace"], rj["offset"])
            if not info or info["fails"] != {"a"}:
                kfc = "none"
        extra["kf_class"] = kfc
        ctx.classify(rj, lambda h, extra=extra: dict(scenario_of(h), **extra))
    return len(traces) - len(rejected)


def is_lock_probe(scn):
    """A schedule (from a behaviour that ignores the flock guards) in which one actor is told to pass its
    lockfile step while the other actor is inside its flock section."""
    steps = scn["steps"]
    hold = {}
    for a, firsts, inside in (("w", ("Touch.lockfile", "WriteBlock.lockfile"), ("Touch.Chtimes", "WriteBlock.Rename")),
                              ("t", ("Trash.lockfile",), ("Trash.Stat", "Trash.Rename", "Trash.Remove"))):
        idx = [i for i, st in enumerate(steps) if st["a"] == a and st["l"] in firsts]
        if not idx:
            continue
        last = idx[0]
        for i in range(idx[0] + 1, len(steps)):
            if steps[i]["a"] == a:
                if steps[i]["l"] in inside and steps[i]["v"] == steps[idx[0]]["v"]:
                    last = i
                else:
                    break
        hold[a] = (idx[0], last)
    if len(hold) < 2:
        return False
    (w0, w1), (t0, t1) = hold["w"], hold["t"]
    return w0 < t0 < w1 or t0 < w0 < t1


def kf_class(reset):
    """Schedule class of a recorded execution, from the turns actually taken (reset.order).

    C04-1-overwrite-race: on one volume holding a corrupt old replica, Trash.Stat, then WriteBlock.Rename,
    then Trash.Rename|Remove."""
    order = reset.get("order") or []
    vols = reset.get("vols") or []
    for v in range(1, len(vols) + 1):
        if vols[v - 1].get("st") != "corrupt" or vols[v - 1].get("mtu", 0) > -2:
            continue
        pos = {}
        for i, o in enumerate(order):
            pos.setdefault(o, i)
        a = pos.get("t:Trash.Stat@%d" % v)
        b = pos.get("w:WriteBlock.Rename@%d" % v)
        c = min([pos[k] for k in ("t:Trash.Rename@%d" % v, "t:Trash.Remove@%d" % v) if k in pos], default=None)
        if a is not None and b is not None and c is not None and a < b < c:
            return "C04-1-overwrite-race"
    # C04-2 in a concurrent schedule (three requests): on one volume that had a trashed copy, Untrash.Rename runs
    # while a block file is at the path (there initially, or put there by an earlier WriteBlock.Rename), the
    # writer timestamps that volume (Touch.Chtimes / WriteBlock.Rename, before or after: Touch and Trash then
    # hold flocks on different inodes), and Trash.Rename|Remove comes after the Untrash.Rename
    for v in range(1, len(vols) + 1):
        if not vols[v - 1].get("tr"):
            continue
        first = {}
        for i, o in enumerate(order):
            first.setdefault(o, i)
        u = first.get("x:Untrash.Rename@%d" % v)
        if u is None:
            continue
        wr = first.get("w:WriteBlock.Rename@%d" % v)
        had_file = vols[v - 1].get("st") != "absent" or (wr is not None and wr < u)
        ws = [first[k] for k in ("w:Touch.Chtimes@%d" % v, "w:WriteBlock.Rename@%d" % v) if k in first]
        ts = [i for i, o in enumerate(order) if o in ("t:Trash.Rename@%d" % v, "t:Trash.Remove@%d" % v) and i > u]
        if had_file and ws and ts:
            return "C04-2-untrash-overwrites"
    return "none"


NEG = -10 ** 5


def seq_mirror(reset, trace, offset=None):
    """Replays KeepstoreGCContract's bookkeeping on a trace (sequential histories and concurrent schedules).
    Returns (info at the scan with 1-based index `offset`, list of GETs that failed inside the protected period).
    info = {"fails": set of ScanOk clauses that fail there, "lastop", "vanished": [volume index..], "seen": previous
    scan, "now", "over": volumes on which an untrash ran while a block file and a trashed copy were both present}."""
    ttl, life, trash = reset.get("ttl", 2), reset.get("life", 0), reset.get("trash", True)
    ro = set(k for k, b in enumerate(reset.get("ro") or []) if b)
    seen = reset.get("vols") or []
    n = len(seen)
    wr = [k for k in range(n) if k not in ro]
    now, tscan = 0, 0
    prot = max([v["mtu"] + ttl for v in seen if v["st"] == "intact"], default=NEG)
    ent, emp_at, unt, must, gc = set(), NEG, False, False, False
    over = set()
    pend, lastop, quiet = {}, None, True
    bad_gets = []
    info = None
    for i, ev in enumerate(trace[1:], 2):
        kind = ev["ev"]
        if kind == "tick":
            now += ev["d"]
        elif kind == "call":
            for c in pend.values():
                c["sole"] = False
            pend[ev["id"]] = dict(ev, t0=now, sole=quiet and not pend)
            quiet = False
            if ev["op"] == "untrash":
                over |= set(k for k in wr if seen[k]["st"] != "absent" and seen[k]["tr"])
        elif kind == "ret" and ev.get("id") in pend:
            call = pend.pop(ev["id"])
            t0 = call["t0"]
            op, st = call["op"], ev.get("status")
            lastop = op
            live = call["sole"] and any(d > now for k in wr for d in seen[k]["tr"])
            untrashing = unt or any(c["op"] == "untrash" for c in pend.values())
            if op in ("put", "touch") and st == 200:
                prot = max(prot, t0 + ttl)
            elif op == "get" and call["sole"] and now < prot and any(v["st"] == "intact" for v in seen) and st != 200:
                bad_gets.append({"scn": reset.get("scn"), "status": st})
            elif op == "delete":
                gc = True
                if trash:
                    ent |= set(wr)
            elif op == "trashlist":
                gc = True
                if trash:
                    ent |= set(k for k in wr if call.get("mount", 0) in (0, k + 1)
                               and ((seen[k]["st"] != "absent" and seen[k]["mt"] == call.get("req")) or untrashing))
            elif op == "empty":
                gc = True
                emp_at = max(emp_at, now)
            elif op == "untrash":
                unt = True
                must = must or live
        elif kind == "scan":
            s = ev["vols"]
            fails = set()
            if now < prot and all(v["st"] == "absent" for v in s):
                fails.add("a")
            vanished = [k for k in range(n) if seen[k]["st"] != "absent" and s[k]["st"] == "absent"]
            if gc and any(k not in ent for k in vanished):
                fails.add("b")
            for k in range(n):
                if any(d < tscan + life for d in set(s[k]["tr"]) - set(seen[k]["tr"])):
                    fails.add("c")
                if any(d > emp_at and not unt for d in set(seen[k]["tr"]) - set(s[k]["tr"])):
                    fails.add("d")
            if must and not ent and all(v["st"] == "absent" for v in s):
                fails.add("e")
            if i == offset:
                info = {"fails": fails, "lastop": lastop, "vanished": vanished, "seen": seen, "now": now,
                        "over": set(over), "ttl": ttl}
            over -= set(k for k in range(n) if s[k]["st"] == "absent")
            seen, tscan, quiet = s, now, True
            ent, emp_at, unt, must, gc = set(), NEG, False, False, False
    return info, bad_gets


def hist_class(reset, trace, offset):
    """History class of a rejected sequential random trace (offset = 1-based index of the rejected event).
    C04-2-untrash-overwrites needs ALL of: the rejected event is a scan at which clause (a) fails and no other
    clause does; the request directly before it was a DELETE or a trash-list item; every replica that vanished
    carried an OLD timestamp in the scan before (mtu + ttl <= now: by its timestamp the removal was legitimate); and
    at least one of them was on a volume where an untrash had run while a block file and a trashed copy were both
    present (Untrash renames the trashed copy, with its old timestamp, OVER the block file) and which has held a
    file ever since."""
    ev = trace[offset - 1] if 0 < offset <= len(trace) else {}
    if ev.get("ev") != "scan":
        return "none"
    info, _ = seq_mirror(reset, trace, offset)
    if not info or info["fails"] != {"a"} or info["lastop"] not in ("delete", "trashlist") or not info["vanished"]:
        return "none"
    if any(info["seen"][k]["mtu"] + info["ttl"] > info["now"] for k in info["vanished"]):
        return "none"
    if not any(k in info["over"] for k in info["vanished"]):
        return "none"
    return "C04-2-untrash-overwrites"


def run(ctx):
    instr, labels = build_instrumented(ctx)
    src_labels = set(l for m in SCHEDULED_METHODS for l in labels["labels"].get(m, []))
    missing = sorted(set(ALPHABET) - src_labels - {"WriteBlock.Write#1"})
    extra = sorted(src_labels - set(ALPHABET) - ERROR_PATH)
    if missing:
        ctx.drift.append("model labels not present in the instrumented source: %s" % ",".join(missing))
    if extra:
        ctx.drift.append("source labels unknown to the model (passed through): %s" % ",".join(extra))
    ctx.extra["instrumented_labels"] = sum(len(v) for v in labels["labels"].values())

    # GEN: design-level checks
    ctx.tlc(SD, "KeepVolume", "MC_C04.cfg" if ctx.thorough else "MC_C04_quick.cfg", timeout=1500,
            label="exhaustive: contract obligations (no exclusion), AckedSurvives, lock discipline")
    ctx.tlc(SD, "KeepVolume", "MC_C04_idx.cfg", timeout=1500,
            label="exhaustive: PUT|pull || DELETE|trash item || GET /index, 1 volume (IndexComplete)")
    if ctx.thorough:
        r = ctx.tlc(SD, "KeepVolume", "MC_C04_nofix.cfg", timeout=600, must_pass=False,
                    label="non-vacuity: the model of the code before 6f6002f (WBFlock = FALSE) has the overwrite race")
        if r.violated != "NoViolation":
            raise vlib.InfraError("MC_C04_nofix.cfg was expected to refute NoViolation:\n" + r.tail())
        r = ctx.tlc(SD, "KeepVolume", "MC_C04_idxabort.cfg", timeout=600, must_pass=False,
                    label="model of the code as it is: GET /index can abort (IndexTo panics on a vanished entry)")
        if r.violated != "IndexNeverAborts":
            raise vlib.InfraError("MC_C04_idxabort.cfg was expected to refute IndexNeverAborts:\n" + r.tail())
        ctx.tlc(SD, "KeepVolume", "MC_C04_idx2.cfg", timeout=1500,
                label="exhaustive: pairs of PUT|pull, DELETE|trash item, GET /index on 2 volumes")
        ctx.tlc(SD, "KeepVolume", "MC_C04_x.cfg", timeout=1500,
                label="exhaustive with untrash / EmptyTrash as a concurrent request (KF-C04-2 excluded by name)")

    # GEN: scenarios (one TLC run; families selected by the spec's GenFilter)
    scns, _ = ctx.gen(SD, "KeepVolume", "Gen_C04.cfg" if ctx.thorough else "Gen_C04_quick.cfg", timeout=1500,
                      label="schedules (1 volume; 2 volumes; third actor), partial-order reduced")
    for j, s in enumerate(scns):
        s["id"] = 10 ** 6 + j
    rnd = random.Random(ctx.seed)
    budget, kfmax = (6000, 200) if ctx.thorough else (700, 12)
    probes = [s for s in scns if s.get("nl") and is_lock_probe(s)]
    scns = [s for s in scns if not s.get("nl")]
    kfs = [s for s in scns if s["kf"] or s["viol"]]
    rest = [s for s in scns if not (s["kf"] or s["viol"])]
    rnd.shuffle(kfs)
    rnd.shuffle(rest)
    rnd.shuffle(probes)
    nprobe = 40 if ctx.thorough else 10
    for s in probes:
        s["probe"] = True
    scns = kfs[:kfmax] + probes[:nprobe] + rest[:max(0, budget - min(len(kfs), kfmax))]
    ctx.extra["lock_probe_schedules"] = min(len(probes), nprobe)
    ctx.extra["scenarios_emitted"] = len(scns)
    if ctx.thorough:
        # full-granularity schedules (no partial-order reduction, ticks anywhere): seeded simulation
        sim, _ = ctx.gen(SD, "KeepVolume", "Gen_C04_sim.cfg", timeout=1500, simulate="num=2000", depth=60,
                         label="simulation: full interleavings with ticks")
        for j, s in enumerate(sim):
            s["id"] = 5 * 10 ** 6 + j
        scns += sim
    nrand = 1000 if ctx.thorough else 150
    for i in range(nrand):
        scns.append({"id": 9 * 10 ** 6 + i, "mode": "random", "rseed": ctx.seed * 1000003 + i,
                     "len": rnd.randint(3, 12)})
    for i in range(4):   # fixed histories: a trash-list item naming a read-only mount (both kinds) x lifetime 0/2
        scns.append({"id": 8 * 10 ** 6 + i, "mode": "random", "fixed": "rolist", "rseed": i, "len": 1})
    by_id = {s["id"]: s for s in scns}

    # RUN
    ov = ctx.harness_overlay(PKG, "harness/C04_keepstore", extra={PKG + "/unix_volume.go": instr})
    events, out = ctx.go_run_driver(PKG, ov, "TestVerifC04$", scns, timeout=2400,
                                    env={"VERIF_C04_ALPHABET": ",".join(ALPHABET)})
    traces = vlib.split_traces(events)
    ctx.evaluations = len(traces)
    by_scn = {t[0].get("scn"): t for t in traces}

    def scenario_of(head):
        s = dict(by_id.get(head.get("scn")) or {})
        s["kf_class"] = kf_class(head)
        return s

    sched = [t for t in traces if t[0].get("mode") != "random"]
    # lock probes are expected to block in the unchanged code; they are not drift
    # (nor are index schedules whose number of Readdir turns differs: the order of directory entries is the
    # filesystem's business, the model chooses one)
    mism = [t[0] for t in sched if not (by_id.get(t[0].get("scn")) or {}).get("probe")
            and not ((by_id.get(t[0].get("scn")) or {}).get("xk") == "index" and not t[0].get("blocked") and not t[0].get("unknown"))
            and (t[0].get("mism") or t[0].get("unused") or t[0].get("blocked") or t[0].get("unknown"))]
    ctx.extra["lock_probes_blocked"] = sum(1 for t in sched if (by_id.get(t[0].get("scn")) or {}).get("probe")
                                           and t[0].get("blocked"))
    hangs = [t[0] for t in sched if t[0].get("hang")]
    if mism:
        ctx.drift.append("%d of %d schedules did not follow the model's labels (first scn=%s mism=%s unused=%s "
                         "blocked=%s unknown=%s)" % (len(mism), len(sched), mism[0].get("scn"), mism[0].get("mism"),
                                                     mism[0].get("unused"), mism[0].get("blocked"), mism[0].get("unknown")))
    if hangs:
        raise vlib.InfraError("%d scenarios did not terminate (first scn=%s)" % (len(hangs), hangs[0].get("scn")))
    stalled = set(t[0].get("scn") for t in traces if t[0].get("stalled"))
    ctx.extra["stalled_scenarios"] = len(stalled)
    if len(stalled) > max(5, len(traces) // 20):
        raise vlib.InfraError("%d scenarios stalled before a clock tick; the machine is too loaded" % len(stalled))
    if stalled:   # not judged: the clock could not be moved safely
        traces = [t for t in traces if t[0].get("scn") not in stalled]
        events = [ev for t in traces for ev in t]
    slow = [t[0] for t in traces if t[0].get("elapsed_ms", 0) > 20 * 60 * 1000]
    if slow:
        raise vlib.InfraError("a scenario took more than a third of a time unit; virtual time is unreliable")

    # JUDGE
    # The `index` events (GET /index lists only complete blocks) and the pull-worker writes are growth of the
    # specification beyond C04's statement (the index clause is C02's and is judged strictly by checks/C02.py).
    # They are evaluated here as DRIFT only and taken out of the traces, so that C04's own clauses are judged on
    # the whole of every trace and a rejection can never be printed as a violation of C04.
    bad_index = [ev for ev in events if ev.get("ev") == "index" and any(e != "complete" for e in ev.get("entries", []))]
    ctx.extra["index_events"] = sum(1 for ev in events if ev.get("ev") == "index")
    ctx.extra["index_events_rejected"] = len(bad_index)
    if bad_index:
        ctx.drift.append("beyond C04 (C02's index clause): %d GET /index responses listed something that is not a "
                         "complete block, first: %s" % (len(bad_index), json.dumps(bad_index[0])[:200]))
    # A GET that fails inside the protected period while an intact copy was seen is C01's business: drift here
    bad_gets = []
    for t in traces:
        if t[0].get("mode") == "random":
            bad_gets += seq_mirror(t[0], [e for e in t if e.get("ev") != "index"])[1]
    if bad_gets:
        ctx.drift.append("beyond C04 (C01's obligation): %d GETs of a protected block with an intact copy did not "
                         "answer 200, first: %s" % (len(bad_gets), json.dumps(bad_gets[0])))
    judge_all(ctx, [ev for ev in events if ev.get("ev") != "index"], scenario_of)

    # evidence
    reached = set()
    nontrivial = set()
    for t in sched:
        order = t[0].get("order") or []
        for o in order:
            reached.add(o.split(":", 1)[1].split("@")[0])
        acts = [o.split(":")[0] for o in order]
        switches = sum(1 for a, b in zip(acts, acts[1:]) if a != b)
        if switches >= 2:
            nontrivial.add((tuple(order), json.dumps([v["st"] for v in t[0]["vols"]]), t[0].get("life"), t[0].get("ro") and tuple(t[0]["ro"])))
    for t in traces:
        if t[0].get("mode") == "random" and len(t[0].get("ops", [])) >= 3:
            nontrivial.add(("random", tuple(t[0]["ops"]), json.dumps(t[0]["vols"], sort_keys=True)))
    unreached = sorted(set(ALPHABET) - reached)
    if unreached:
        ctx.drift.append("model labels never reached by a schedule: %s" % ",".join(unreached))
    ctx.extra["labels_reached"] = len(reached)
    ctx.extra["distinct_nontrivial"] = len(nontrivial)
    ctx.extra["schedules_run"] = len(sched)
    ctx.extra["random_histories"] = len(traces) - len(sched)
    ctx.rule = ("schedules = behaviours of KeepVolume.tla (one turn per yield point of the instrumented "
                "unix_volume.go; PUT|TOUCH || DELETE|trash-item [|| untrash|EmptyTrash] [|| ticks]; 1-2 volumes; "
                "initial copy none/intact old/intact young/corrupt old; Serialize on/off; lifetime 0/2) replayed "
                "through the scheduler, plus seeded random sequential histories of put/touch/get/delete/trash-item/"
                "untrash/empty/tick with a scan after each; non-trivial = at least two actor switches (schedules) "
                "or at least three operations (histories); distinct by executed turn order + initial state")
    ex = [t for t in sched if len(t[0].get("order") or []) > 8][:2] + [t for t in traces if t[0].get("mode") == "random"][:2]
    ctx.samples = [{"scenario": by_id.get(t[0].get("scn")), "trace": t} for t in ex]
    ctx.trusted_base = ["tools/instrument (go/ast rewrite; labels follow the source)",
                        "yield-point scheduler harness/C04_keepstore/hooks.go",
                        "virtual time = shifting stored mtimes and trash deadlines by whole hours",
                        "directory scan + content classes (md5) in vks_common_test.go",
                        "stored-timestamp token = mtime in ns (compared with the item's block_mtime)"]
    ctx.assumptions = ["one block hash; Directory volumes only; one keepstore process per directory",
                       "protection is counted from the CALL time of the acknowledged request (<= ack time)",
                       "initial copies count as acknowledged at their stored timestamp",
                       "time unit 1 h: boundaries are never closer than 1 h to the real time a scenario takes",
                       "a timestamp captured by time.Now() one statement before the system call that stores it is "
                       "treated as taken at the system call",
                       "replayed schedules do not tick the clock while a trash-list item, an untrash or an EmptyTrash is "
                       "in flight (the clock is moved by rewriting stored timestamps; values already read by a request "
                       "cannot be rewritten); TLC still explores those behaviours at model level (MC configurations)",
                       "a replica that disappears while an untrash ran since the last scan counts as entitled for a "
                       "trash-list item (the scan cannot tell which timestamp the untrashed copy had)"]
    ctx.exhaustive = False


if __name__ == "__main__":
    vlib.main("C04", run)
