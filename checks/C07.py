#!/usr/bin/env python3
"""C07 - block signatures verify only for the exact hash, token, expiry and key.

GEN   specs/crypto/BlobSig.tla   MC_BlobSig.cfg (VerifySignature / keepstore GET / SignManifest steps refine
                                 BlobSigContract; unforgeability on the abstract injective signature function)
                                 Gen_BlobSig.cfg (one case per locator perturbation x verification-parameter
                                 perturbation x clock relation x hint placement x block present; manifest
                                 locator shapes)
RUN   harness/C07_arvados/c07_driver_test.go   (real SignLocator/VerifySignature/SignManifest; reference
                                 HMAC-SHA1 written from blob.rb; emits the concrete cases)
      harness/C07_keepstore/c07ks_driver_test.go (the same concrete cases against keepstore with BlobSigning on)
JUDGE specs/crypto/BlobSigTrace.tla (BlobSigContract)
"""
import json
import os
import random
import re
import sys

sys.path.insert(0, os.path.join(os.path.dirname(os.path.abspath(__file__)), "..", "lib"))
import vlib  # noqa

MALFORMED = ["nosig", "sigchar_nonhex", "expchar_nonhex", "sig_short", "sig_long", "exp_short", "exp_long", "noat"]
LOCPERTS = ["none", "hash", "exp_future", "exp_past", "expchar_future", "expchar_past", "expcase", "sigchar",
            "sigcase"] + MALFORMED
VERPERTS = ["none", "token", "ttl", "key"]
LENONLY = ["sig_short", "sig_long", "exp_short", "exp_long"]


def predicted(wf, same, rel):
    """BlobSig.tla's verdict as a function of the observed clock relation (drift detection only)."""
    if not wf:
        return {"missing"}
    if rel == "past":
        return {"expired"}
    if rel == "near":
        return {"expired", "ok" if same else "invalid"}
    return {"ok"} if same else {"invalid"}


def run(ctx):
    sd = "specs/crypto"
    rnd = random.Random(ctx.seed)
    mc = ctx.tlc(sd, "BlobSig", "MC_BlobSig.cfg", timeout=900,
            label="exhaustive: verification steps refine the contract; unforgeability; keepstore never probes before verifying",
            extra=["-coverage", "1"] if ctx.thorough else [])
    if ctx.thorough:   # -coverage 1: actions of the model that were never taken would make the check vacuous
        ctx.extra["vacuous_actions"] = re.findall(r"^<(\w+) line [^>]*>: 0:0", mc.out, re.M)
    gen, r = ctx.gen(sd, "BlobSig", "Gen_BlobSig.cfg", timeout=900, label="case emission")
    cases = {}
    for g in gen:
        k = json.dumps(g["cs"], sort_keys=True)
        c = cases.setdefault(k, {"cs": g["cs"], "wf": g["wf"], "same": g["same"], "expect": set(),
                                 "expect_out": g["expect_out"]})
        c["expect"].add(g["expect"])
    cases = [cases[k] for k in sorted(cases)]
    if len(cases) < 1000:
        raise vlib.InfraError("Gen emitted only %d cases" % len(cases))
    ctx.extra["cases_emitted"] = len(cases)
    conc = 6 if ctx.thorough else 1
    scns = []
    nid = 0
    for k in range(conc):
        for c in cases:
            nid += 1
            cs = c["cs"]
            if cs["kind"] == "verify":
                scns.append({"id": nid, "kind": "verify", "mode": "gen", "ploc": cs["ploc"], "pver": cs["pver"],
                             "erel": cs["erel"], "size": cs["size"], "before": cs["before"], "after": cs["after"],
                             "present": cs["present"], "wf": c["wf"], "same": c["same"],
                             "lenonly": cs["ploc"] in LENONLY, "cseed": k})
            else:
                scns.append({"id": nid, "kind": "manifest", "mode": "gen", "wf": True, "same": True, "cseed": k,
                             "oddws": False, "expect_out": c["expect_out"],
                             "streams": [{"locs": [{"size": cs["size"], "hints": list(cs["shape"])}], "files": 1}]})
    # seeded random manifests from the grammar generator (several streams, many locators, odd whitespace)
    for i in range(3000 if ctx.thorough else 400):
        nid += 1
        streams = []
        for _ in range(rnd.randint(1, 4)):
            locs = []
            for _ in range(rnd.randint(1, 5)):
                locs.append({"size": rnd.random() < 0.85,
                             "hints": [rnd.choice(["A", "K", "K"]) for _ in range(rnd.randint(0, 4))]})
            streams.append({"locs": locs, "files": rnd.randint(1, 3)})
        scns.append({"id": nid, "kind": "manifest", "mode": "random", "wf": True, "same": True, "cseed": i,
                     "oddws": rnd.random() < 0.4, "streams": streams})
    # seeded random verification cases with hint placements beyond the model (up to 4 hints each side)
    for i in range(6000 if ctx.thorough else 800):
        nid += 1
        pl, pv = rnd.choice(LOCPERTS), rnd.choice(VERPERTS)
        scns.append({"id": nid, "kind": "verify", "mode": "random", "ploc": pl, "pver": pv,
                     "erel": rnd.choice(["past", "near", "future", "future"]), "size": rnd.random() < 0.8,
                     "before": rnd.randint(0, 4), "after": rnd.randint(0, 4), "present": rnd.random() < 0.7,
                     "wf": pl not in MALFORMED, "same": pl == "none" and pv == "none",
                     "lenonly": pl in LENONLY, "cseed": i})
    by_id = {s["id"]: s for s in scns}
    # RUN 1: sdk/go/arvados
    ov = ctx.harness_overlay("sdk/go/arvados", "harness/C07_arvados")
    ev1, out = ctx.go_run_driver("sdk/go/arvados", ov, "TestVerifC07$", scns, timeout=1500)
    tr1 = vlib.split_traces(ev1)
    if len(tr1) != len(scns):
        raise vlib.InfraError("arvados driver recorded %d traces for %d scenarios" % (len(tr1), len(scns)))
    # RUN 2: services/keepstore on the same concrete cases
    ks = []
    for t in tr1:
        h = t[0]
        if h.get("kind") != "verify":
            continue
        s = by_id[h["scn"]]
        ks.append({"id": h["scn"], "loc": h["loc"], "vtoken": h["vtoken"], "vkey_hex": h["vkey_hex"],
                   "vttl": h["vttl"], "eprime": h["eprime"], "phash": h["phash"], "pdata_hex": h["pdata_hex"],
                   "present": s["present"], "wf": s["wf"], "same": s["same"], "lenonly": s["lenonly"]})
    ov2 = ctx.harness_overlay("services/keepstore", "harness/C07_keepstore")
    ev2, out2 = ctx.go_run_driver("services/keepstore", ov2, "TestVerifC07KS$", ks, timeout=1500)
    tr2 = vlib.split_traces(ev2)
    if len([t for t in tr2 if t[0].get("kind") == "ks"]) != len(ks):
        raise vlib.InfraError("keepstore driver recorded %d traces for %d scenarios" % (len(tr2), len(ks)))
    ctx.extra["keepstore_put_signed_traces"] = len([t for t in tr2 if t[0].get("kind") == "ksput"])
    ctx.evaluations = len(tr1) + len(tr2)
    # drift: the model's exact verdict / status / output shape vs the code (never a verdict)
    ndrift = 0

    def drift(msg):
        nonlocal ndrift
        ndrift += 1
        if ndrift <= 4:
            ctx.drift.append(msg)
    for t in tr1 + tr2:
        s = by_id[t[0]["scn"]]
        if t[0].get("kind") == "ksput":     # locator signed by keepstore's PUT: an unperturbed case
            s = {"wf": True, "same": True, "present": True, "ploc": "none(put-signed)", "pver": "none"}
        for e in t[1:]:
            if e["ev"] in ("verify", "verifyks"):
                want = predicted(s["wf"], s["same"], e["rel"])
                if e["via"] == "keepstore":
                    want = {w if w in ("ok", "expired") else "denied" for w in want}
                if e["res"] not in want:
                    drift("BlobSig.tla predicts %s for %s/%s rel=%s via %s, code gave %s (loc %s)"
                          % (sorted(want), s["ploc"], s["pver"], e["rel"], e["via"], e["res"], t[0].get("loc")))
            elif e["ev"] == "signloc" and not e.get("prefixok", True):
                drift("SignLocator did not append the signature directly after the given locator: %s" % e.get("out"))
            elif e["ev"] == "putloc" and not (e.get("prefixok") and e.get("expok")):
                drift("keepstore PUT returned %s (model: hash+size+A<sig>@<request time + TTL>)" % t[0].get("loc"))
            elif e["ev"] == "skip" and "signed" in e:
                drift("keepstore PUT returned an unsigned locator %s" % t[0].get("loc"))
            elif e["ev"] == "ksget":
                want = set()
                for w in predicted(s["wf"], s["same"], e["rel"]):
                    want.add(401 if w == "expired" else (200 if s["present"] else 404) if w == "ok" else 403)
                if e["status"] not in want:
                    drift("BlobSig.tla predicts status %s for %s/%s rel=%s present=%s, keepstore gave %s (loc %s)"
                          % (sorted(want), s["ploc"], s["pver"], e["rel"], s["present"], e["status"], t[0].get("loc")))
            elif e["ev"] == "signtok":
                want = [x for x in e["hin"] if x != "A"] + ["A"]
                if e["hout"] != want:
                    drift("BlobSig.tla predicts hints %s, SignManifest gave %s" % (want, e["hout"]))
    if ndrift > 4:
        ctx.drift.append("... %d observations in total differ from the model's prediction" % ndrift)
    ctx.extra["drift_observations"] = ndrift
    counts = {}
    for t in tr1 + tr2:
        for e in t[1:]:
            if e["ev"] in ("verify", "verifyks"):
                k = "verify:%s:%s:%s" % (e["via"], e["rel"], e["res"])
            elif e["ev"] == "ksget":
                k = "ksget:%s:%s" % (e["rel"], e["status"])
            else:
                continue
            counts[k] = counts.get(k, 0) + 1
    ctx.extra["observation_counts"] = dict(sorted(counts.items()))
    # JUDGE
    ctx.judge(sd, "BlobSigTrace", "Judge_BlobSig.cfg", ev1, scenario_of=by_id, timeout=900, max_rejects=8)
    ctx.judge(sd, "BlobSigTrace", "Judge_BlobSig.cfg", ev2, scenario_of=by_id, timeout=900, max_rejects=8)
    nontrivial = set()
    for t in tr1:
        s = by_id[t[0]["scn"]]
        if s["kind"] == "verify" and not s["same"]:
            rel = [e["rel"] for e in t if e["ev"] == "verify"]
            nontrivial.add((s["ploc"], s["pver"], s["size"], s["before"], s["after"], rel[0] if rel else ""))
        elif s["kind"] == "manifest":
            sh = tuple(tuple(e["hin"][i][0] if e["hin"][i] != "A" else "A" for i in range(len(e["hin"])))
                       for e in t if e["ev"] == "signtok")
            if any("A" in x for x in sh):
                nontrivial.add(("manifest", sh))
    ctx.extra["distinct_nontrivial"] = len(nontrivial)
    ctx.extra["concretisations"] = conc
    ctx.exhaustive = True
    ctx.rule = ("cases = every (locator perturbation x verification-parameter perturbation x signed-expiry relation "
                "x size hint x 0-2 other hints before/after the signature x block present) enumerated by BlobSig.tla, "
                "each under %d seeded concretisation(s) (hashes, tokens incl. '@' and '+', keys, TTLs, times, "
                "perturbed position), run against sdk/go/arvados and against keepstore with BlobSigning on; every "
                "manifest locator hint shape (<= 3 hints) plus seeded random manifests and random cases with up to "
                "4 hints a side; non-trivial = a perturbed verification case, or a manifest containing a locator "
                "that already carries a signature; distinct by (perturbations, placement, observed clock relation) "
                "or manifest shape" % conc)
    ctx.samples = [{"scenario": by_id.get(t[0].get("scn")), "trace": t} for t in tr1[:2] + tr2[:1] + tr1[-1:]]
    ctx.trusted_base = ["independent HMAC-SHA1 (RFC 2104 over crypto/sha1) of [hash,token,expiry.to_s(16),ttl.to_s(16)]"
                        ".join('@'), written from services/api/app/models/blob.rb (Ruby cannot run here)",
                        "concretiser: perturbations as string edits; classification wf/same by construction",
                        "clock relation from time.Now() read before and after each call",
                        "manifest tokenizer (whitespace runs / tokens / '+'-separated hints)"]
    ctx.assumptions = ["equality with the Rails implementation is checked against the reference written from blob.rb, "
                       "not by executing Ruby",
                       "a perturbed locator that is also expired may be reported with any failing class; keepstore's "
                       "wrapper and the locator returned by PUT are judged on accept/refuse and on the signature only",
                       "within the expiry second both 'ok' and 'expired' are accepted (statement says 'before'; "
                       "Go and Rails differ there)",
                       "the statement does not say which failures are 'missing' and which 'invalid': both accepted",
                       "expiry times are between 1978 and 2106 (8 hex digits)",
                       "exhaustive = the abstract case space of the model under seeded concretisation"]


if __name__ == "__main__":
    vlib.main("C07", run)
