#!/usr/bin/env python3
"""C10 - all manifest codecs agree with the published manifest format.

GEN   specs/collfs/ManifestCodecs.tla  MC_C10_*.cfg  (models of the three range mappers and escapers refine the
                                                     format semantics of Manifest.tla, outside two named KF classes)
                                       Gen_C10_*.cfg (every manifest of the bounded space = one scenario)
      + seeded random manifests beyond the bounds and single-token mutations (this file)
RUN   harness/C10_manifest (sdk/go/manifest), harness/C10_arvados (sdk/go/arvados), harness/C10_python (child process)
JUDGE specs/collfs/ManifestTrace.tla   (ManifestContract over Manifest.tla)
"""
import bisect
import concurrent.futures
import json
import os
import random
import re
import subprocess
import sys
import time

sys.path.insert(0, os.path.join(os.path.dirname(os.path.abspath(__file__)), "..", "lib"))
import vlib  # noqa

SD = "specs/collfs"
BS, SL, DOT = 92, 47, 46

# ---------------------------------------------------------------------------------------------------------
# Small reference helpers.  They choose which questions are asked (Extract sources) and label scenarios
# with the known-finding classes; they never produce a verdict (that is ManifestContract's job).
# ---------------------------------------------------------------------------------------------------------


def is_escape(t, i):
    return (t[i] == BS and i + 3 < len(t) and all(48 <= c <= 55 for c in t[i + 1:i + 4])
            and (t[i + 1] - 48) * 64 + (t[i + 2] - 48) * 8 + (t[i + 3] - 48) <= 255)


def unescape(t):
    out, i = [], 0
    while i < len(t):
        if i + 3 < len(t) and is_escape(t, i):
            out.append((t[i + 1] - 48) * 64 + (t[i + 2] - 48) * 8 + (t[i + 3] - 48))
            i += 4
        else:
            out.append(t[i])
            i += 1
    return out


def bsoct(n):
    """KF_C10_2 class: an unescaped name containing backslash + three octal digits (<= 377)."""
    return any(i + 3 < len(n) and is_escape(n, i) for i in range(len(n)))


def zstart(stream, tok):
    """KF_C10_1 class (ManifestCodecs!ZStart)."""
    if tok["len"] <= 0:
        return False
    off = 0
    sizes = [b % 100 for b in stream["blocks"]]
    for i, sz in enumerate(sizes):
        if sz == 0 and off == tok["pos"] and any(s > 0 for s in sizes[i + 1:]):
            return True
        off += sz
    return False


def zspan(stream, tok):
    """ManifestCodecs!ZSpan: a token covering the offset of a zero-length block strictly inside its span."""
    off = 0
    for b in stream["blocks"]:
        if b % 100 == 0 and tok["pos"] < off < tok["pos"] + tok["len"]:
            return True
        off += b % 100
    return False


def zseg(stream, tok):
    """KF_C10_3 class (ManifestCodecs!ZSeg): an empty token positioned strictly inside a block."""
    if tok["len"] != 0:
        return False
    off = 0
    for b in stream["blocks"]:
        if off < tok["pos"] < off + b % 100:
            return True
        off += b % 100
    return False


def path_of(stream, tok):
    return tuple(unescape(stream["name"]) + [SL] + unescape(tok["name"]))


def paths_of(streams):
    seen = []
    for s in streams:
        for t in s["toks"]:
            p = path_of(s, t)
            if p not in seen:
                seen.append(p)
    return seen


def class_paths(streams, pred):
    return {path_of(s, t) for s in streams for t in s["toks"] if pred(s, t)}


def dirs_of(paths):
    ds = []
    for p in paths:
        for i, c in enumerate(p):
            if c == SL and p[:i] not in ds:
                ds.append(p[:i])
    return ds


RELOCS = [([DOT], False), ([DOT, SL, 114], False), ([DOT, SL, 114], True), ([DOT, SL, 114, SL, 115], False)]


def extract_pairs(streams):
    ps = paths_of(streams)
    srcs = dirs_of(ps) + ps
    return [{"src": list(s), "rel": r, "slash": sl} for s in srcs for (r, sl) in RELOCS]


def no_conflicts(streams):
    ps = paths_of(streams)
    return not any(len(q) > len(p) and q[:len(p) + 1] == p + (SL,) for p in ps for q in ps)


# ---------------------------------------------------------------------------------------------------------
# Random manifests beyond the model's bounds (statement: 1-4 streams, 1-5 blocks of size 0-20, tokens at every
# block-boundary alignment, names with space, colon, backslash, backslash-digits, non-ASCII bytes)
# ---------------------------------------------------------------------------------------------------------
NAME_ATOMS = [[97], [98], [65], [48], [49], [52], [46], [58], [BS, 48, 52, 48], [BS, 49, 51, 52], [195, 169],
              [BS, 51, 48, 51, BS, 50, 53, 49], [BS, 48, 55, 50], [BS], [126],
              [BS, 51, 53, 49], [BS, 51, 55, 55]]     # \351, \377: bytes that are not UTF-8, written as escapes (valid text)
RAW_NON_UTF8 = [233]      # a raw Latin-1 byte: the TEXT is then not UTF-8, i.e. outside the grammar (load result: any)


def rand_component(rnd, atoms=NAME_ATOMS):
    while True:
        n = []
        for _ in range(rnd.randint(1, 4)):
            n += rnd.choice(atoms)
        # no "\\\\" in the text, and never end on a lone backslash that could pair with what follows
        if any(n[i] == BS and n[i + 1] == BS for i in range(len(n) - 1)) or n[-1] == BS:
            continue
        u = unescape(n)
        if u in ([DOT], [DOT, DOT]) or SL in u:
            continue
        return n


def rand_manifest(rnd):
    pool = [0] + [100 * k + rnd.randint(1, 20) for k in range(1, rnd.randint(2, 7) + 1)]
    # about 4% of the manifests get raw non-UTF-8 bytes in their names (whole execution then judged only for
    # "no panic / no hang"); all others are valid text and judged in full
    atoms = NAME_ATOMS + [RAW_NON_UTF8] if rnd.random() < 0.04 else NAME_ATOMS
    comps = [rand_component(rnd, atoms) for _ in range(4)]
    files = [rand_component(rnd, atoms) for _ in range(5)]
    while True:
        streams = []
        for _ in range(rnd.randint(1, 4)):
            name = [DOT]
            for _ in range(rnd.choice([0, 0, 1, 1, 2])):
                name = name + [SL] + rnd.choice(comps[:3])
            blocks = [rnd.choice(pool) if rnd.random() < 0.8 else 0 for _ in range(rnd.randint(1, 5))]
            bounds, off = [0], 0
            for b in blocks:
                off += b % 100
                bounds.append(off)
            total = off
            toks = []
            for _ in range(rnd.randint(1, 6)):
                def pick():
                    x = rnd.choice(bounds) + rnd.choice([0, 0, 0, -1, 1])
                    return min(max(x, 0), total)
                a, b = pick(), pick()
                if rnd.random() < 0.15:
                    b = a
                fn = rnd.choice(files)
                if rnd.random() < 0.2:
                    fn = rnd.choice(comps[2:]) + [SL] + fn
                toks.append({"pos": min(a, b), "len": abs(a - b), "name": fn})
            streams.append({"name": name, "blocks": blocks, "toks": toks})
        if no_conflicts(streams):
            return streams


def bake_hints(streams, mode):
    """Block ids become locators 10000*h+c (Manifest.tla): mode 0 no hints, 1 every block signed (+A),
    2 the k-th block of the manifest gets hint class k % 4 (none, +A, +R, +Z+A+K), 3 every block +R (no +A
    anywhere in the text), 4 alternately none and +R."""
    k = 0
    for s in streams:
        for j, b in enumerate(s["blocks"]):
            h = [0, 1, k % 4, 2, (k % 2) * 2][mode]
            s["blocks"][j] = 10000 * h + b % 10000
            k += 1


def prefix_sibling_extracts(streams):
    """(src, relocate) pairs where src is a directory whose path is a proper string prefix of another directory's
    path without being its ancestor (./d and ./d1, './d' and './d e'): always asked."""
    ds = dirs_of(paths_of(streams))
    out = []
    for d in ds:
        if any(len(e) > len(d) and e[:len(d)] == d and e[len(d)] != SL for e in ds):
            out += [{"src": list(d), "rel": r, "slash": sl} for (r, sl) in RELOCS[:2]]
    return out


def ref_bytes(streams, path):
    """Reference reading of one path (Manifest!Bytes), used ONLY to decide whether a rejected event has the exact
    shape of known finding KF-C10-3; never to produce a verdict."""
    out = []
    for s in streams:
        for t in s["toks"]:
            if path_of(s, t) != path:
                continue
            off = 0
            for b in s["blocks"]:
                lo, hi = max(t["pos"], off), min(t["pos"] + t["len"], off + b % 100)
                out += [(b % 10000, j - off) for j in range(lo, hi)]
                off += b % 100
    return out


def zseg_offsets(streams, path):
    """File offsets at which loadManifest leaves a zero-length segment (ManifestCodecs!ZSeg tokens of this path)."""
    offs, n = set(), 0
    for s in streams:
        for t in s["toks"]:
            if path_of(s, t) == path:
                if zseg(s, t):
                    offs.add(n)
                n += t["len"]
    return offs


def flatten(segs):
    return [(x[0] % 10000, x[1] + j) for x in segs for j in range(x[2])]


def zseg_exact(streams, ev):
    """KF-C10-3, exactly: every observation of the file is right except positioned reads ('chunk'), and each wrong
    chunk is the expected data cut short at a file offset where a zero-length segment sits."""
    path = tuple(ev["path"])
    want = ref_bytes(streams, path)
    zo = zseg_offsets(streams, path)
    wrong = 0
    for o in ev.get("obs", []):
        got = flatten(o["segs"])
        exp = want if o["n"] == -1 else want[o["start"]:o["start"] + o["n"]]
        if o["n"] != -1 and o["start"] + o["n"] > len(want):
            return False
        if got == exp:
            continue
        wrong += 1
        if o.get("via") != "chunk" or got != exp[:len(got)] or (o["start"] + len(got)) not in zo:
            return False
    return wrong > 0 and ev.get("kind") == "ok"


HUGE = [18446744073709551615, 18446744073709551614, 9223372036854775808, 9223372036854775807,
        9223372036854775806, 18446744073709551616, 4294967296, 2147483648]      # = vC10Huge of the Go concretiser
MUTATIONS = ["past_end", "no_newline", "no_locators", "no_files", "bad_pos", "bad_size", "two_fields", "no_stream_name",
             "huge_pos", "huge_len", "huge_blocksize"]


def common_overlay(ctx, pkg, pkgname):
    """The shared concretiser template, instantiated for one package."""
    src = open(os.path.join(vlib.VERIF, "harness/C10_manifest/vc10_common_test.go.tmpl")).read()
    dst = os.path.join(ctx.scratch, "vc10_common_%s_test.go" % pkgname)
    with open(dst, "w") as f:
        f.write(src.replace("PKGNAME", pkgname))
    return {os.path.join(pkg, "zz_verif_vc10_common_test.go"): dst}


def run_python_codec(ctx, scns):
    sp = os.path.join(ctx.scratch, "py_scn.ndjson")
    tp = os.path.join(ctx.scratch, "py_trace.ndjson")
    vlib.write_ndjson(sp, scns)
    cmd = [sys.executable, os.path.join(vlib.VERIF, "harness/C10_python/vc10_py_driver.py"),
           os.path.join(vlib.REPO, "sdk/python/arvados"), sp, tp]
    try:
        p = subprocess.run(cmd, stdout=subprocess.PIPE, stderr=subprocess.STDOUT, text=True, timeout=1500)
    except subprocess.TimeoutExpired:
        raise vlib.InfraError("python codec driver timed out")
    if p.returncode != 0 or "VERIF-DRIVER-DONE" not in p.stdout:
        raise vlib.InfraError("python codec driver failed (rc=%d):\n%s" % (p.returncode, p.stdout[-3000:]))
    return vlib.read_ndjson(tp)


def annotate(events, by_id):
    """Label events with the known-finding classes of their scenario/path (used only by known_findings matching)."""
    cur = None
    for ev in events:
        if ev["ev"] == "reset":
            cur = by_id[ev["scn"]]
            if "_zp" not in cur:
                cur["_zp"] = class_paths(cur["streams"], zstart)
                cur["_zs"] = class_paths(cur["streams"], zspan)
                cur["_zg"] = class_paths(cur["streams"], zseg)
                cur["_bs"] = [p for p in paths_of(cur["streams"]) if bsoct(list(p))]
        elif ev["ev"] == "load":
            ev["kf_zstart"] = bool(cur["_zp"])
            # numeric-extreme mutations: does position+size wrap around in uint64 (sdk/go/manifest) / int64 (arvados fs)?
            if cur.get("mut") in ("huge_pos", "huge_len"):
                n = HUGE[cur["mutarg"] % len(HUGE)]
                a, b = (n, 2) if cur["mut"] == "huge_pos" else (1, n)
                ev["kf_u64_overflow"] = a < 2 ** 64 and b < 2 ** 64 and a + b >= 2 ** 64
                ev["kf_i64_overflow"] = a < 2 ** 63 and b < 2 ** 63 and a + b >= 2 ** 63
        elif ev["ev"] == "file":
            ev["kf_zstart"] = tuple(ev["path"]) in cur["_zp"]
            ev["kf_zspan"] = tuple(ev["path"]) in cur["_zs"]
            ev["kf_zseg"] = tuple(ev["path"]) in cur["_zg"]
            ev["kf_zseg_exact"] = ev["kf_zseg"] and cur.get("mut", "") == "" and zseg_exact(cur["streams"], ev)
        elif ev["ev"] == "out":
            src = tuple(ev["src"])
            ev["kf_bsoct"] = any(p == src or p[:len(src) + 1] == src + (SL,) for p in cur["_bs"])


def judge_all(ctx, traces, by_id, per_batch=12000, module="ManifestTrace", cfg="Judge_C10.cfg", max_violations=25):
    """JUDGE with the tolerant trace spec (ManifestTrace prints every line the contract does not allow and goes on
    with the next execution), several TLC processes side by side.  vlib.Ctx.judge re-runs TLC once per rejected
    trace, which is quadratic when hundreds of executions hit a known finding.  Classification (known finding or
    VIOLATION) is vlib's: ctx.classify()."""
    batches, cur, n = [], [], 0
    for t in traces:
        cur.append(t)
        n += len(t)
        if n >= per_batch:
            batches.append(cur)
            cur, n = [], 0
    if cur:
        batches.append(cur)
    jobs = []
    for b in batches:
        d = ctx._stage([SD])
        tp = os.path.join(d, "trace.ndjson")
        vlib.write_ndjson(tp, [ev for t in b for ev in t])
        jobs.append((d, tp, b))

    def one(job):
        d, tp, b = job
        cmd = ["java", "-XX:+UseParallelGC", "-XX:ParallelGCThreads=2", "-Xmx6g", "-Xss64m", "-Dtlc2.tool.queue.IStateQueue=StateDeque",
               "-cp", vlib.TLA_CP, "tlc2.TLC", "-workers", "1", "-metadir", os.path.join(d, "meta"),
               "-config", cfg, module]
        e = dict(os.environ)
        e["VERIF_TRACE"] = tp
        try:
            p = subprocess.run(cmd, cwd=d, env=e, stdout=subprocess.PIPE, stderr=subprocess.STDOUT, timeout=1700,
                               text=True, errors="replace")
        except subprocess.TimeoutExpired:
            return None, "timeout"
        return p.returncode, p.stdout

    par = max(1, min(8, int(os.environ.get("VERIF_TLC_WORKERS", "6"))))
    with concurrent.futures.ThreadPoolExecutor(par) as ex:
        results = list(ex.map(one, jobs))
    nrej = 0
    ndrift = [0]
    for (d, tp, b), (rc, out) in zip(jobs, results):
        if rc != 0 or "Model checking completed. No error has been found" not in out:
            raise vlib.InfraError("judge %s failed (rc=%s):\n%s" % (module, rc, "\n".join(str(out).splitlines()[-40:])))
        flat = [ev for t in b for ev in t]
        for ev in flat:
            if ev.get("segtype_unknown") and not any("internal segment type" in d for d in ctx.drift):
                ctx.drift.append("gofs driver: filenode.segments holds an internal segment type the driver does not know; "
                                 "segment-level observation dropped, byte-level reads decide")
        for ln in sorted({int(x) for x in re.findall(r'"DRIFT_LINE", (\d+)', out)}):
            # an event the contract allows but which fails a drift-only clause (beyond the statement): never a verdict
            ndrift[0] += 1
            if len(ctx.drift) < 20:
                ev = flat[ln - 1]
                ctx.drift.append("%s: drift-only clause failed for event %s" % (module, json.dumps(ev)[:240]))
        lines = sorted({int(x) for x in re.findall(r'"REJECTED_LINE", (\d+)', out)})
        starts, pos = [], 1
        for t in b:
            starts.append(pos)
            pos += len(t)
        rejected = {}
        for ln in lines:
            i = bisect.bisect_right(starts, ln) - 1
            rejected.setdefault(i, ln - starts[i] + 1)
        for i, off in sorted(rejected.items()):
            nrej += 1
            if len(ctx.violations) < max_violations:      # (vlib.judge stops examining after 25 rejections, too)
                ctx.classify({"trace": b[i], "offset": off, "why": "event not allowed by the contract"},
                             lambda head: strip(by_id.get(head.get("scn"))))
        ctx.traces_validated += len(b) - len(rejected)
    ctx.extra["drift_only_clause_failures"] = ctx.extra.get("drift_only_clause_failures", 0) + ndrift[0]
    return nrej


class Bg:
    """A TLC model-checking run or a driver run started in the background (vlib's calls are synchronous and
    share a counter; staging is done in the caller's thread, only the child process runs concurrently)."""

    def __init__(self, cmd, cwd, env, timeout):
        self.t0 = time.time()
        self.timeout = timeout
        self.p = subprocess.Popen(cmd, cwd=cwd, env=env, stdout=subprocess.PIPE, stderr=subprocess.STDOUT,
                                  text=True, errors="replace")

    def wait(self):
        try:
            out, _ = self.p.communicate(timeout=max(1, self.timeout - (time.time() - self.t0)))
        except subprocess.TimeoutExpired:
            self.p.kill()
            raise vlib.InfraError("background run timed out: %s" % " ".join(self.p.args[:12]))
        return self.p.returncode, out, time.time() - self.t0


def tlc_bg(ctx, cfg, workers, timeout=1700):
    d = ctx._stage([SD])
    cmd = ["java", "-XX:+UseParallelGC", "-XX:ParallelGCThreads=2", "-Xmx8g", "-Xss64m", "-cp", vlib.TLA_CP, "tlc2.TLC", "-workers", str(workers),
           "-metadir", os.path.join(d, "meta"), "-config", cfg, "ManifestCodecs"]
    return Bg(cmd, d, dict(os.environ), timeout)


def tlc_bg_result(ctx, bg, cfg, label):
    rc, out, wall = bg.wait()
    r = vlib.TlcResult(rc, out, wall)
    ctx.states += r.distinct
    ctx.transitions += r.generated
    ctx.mc_runs.append({"module": "ManifestCodecs", "cfg": cfg, "distinct": r.distinct, "generated": r.generated,
                        "wall_s": round(wall, 1), "label": label})
    if not r.ok:
        raise vlib.InfraError("TLC ManifestCodecs/%s did not pass (rc=%d, violated=%s):\n%s" % (cfg, rc, r.violated, r.tail()))
    return r


def go_driver_bg(ctx, pkg, pkgname, harness_dir, run, scn_path, timeout=1700):
    """Same command as vlib.Ctx.go_test, started in the background."""
    ov = ctx.overlay(ctx.harness_overlay(pkg, harness_dir, extra=common_overlay(ctx, pkg, pkgname)))
    tp = os.path.join(ctx.scratch, "trace_%s.ndjson" % pkgname)
    cmd = ["go", "test", "-tags", "verif", "-overlay", ov, "-vet=off", "-count=1", "-v", "-run", run,
           "-timeout", "%ds" % timeout, "./" + pkg]
    e = dict(os.environ)
    e.update(vlib.GOENV)
    e.update({"VERIF_SEED": str(ctx.seed), "VERIF_TIER": ctx.tier, "VERIF_SCRATCH": ctx.scratch,
              "VERIF_SCENARIOS": scn_path, "VERIF_TRACES": tp})
    return Bg(cmd, vlib.REPO, e, timeout + 120), tp


def go_driver_result(ctx, bg, tp, what):
    rc, out, wall = bg.wait()
    ctx.log("go test %s: rc=%d in %.1fs" % (what, rc, wall))
    if "VERIF-DRIVER-DONE" not in out or not os.path.exists(tp):
        raise vlib.InfraError("driver %s did not complete (rc=%d):\n%s" % (what, rc, "\n".join(out.splitlines()[-60:])))
    return vlib.read_ndjson(tp)


def run(ctx):
    rnd = random.Random(ctx.seed)
    W = int(os.environ.get("VERIF_TLC_WORKERS", "6"))
    big = ctx.thorough
    # ---- GEN: design-level check of the codec models against the format semantics (in the background)
    mc_cfgs = [("MC_C10_align_big.cfg" if big else "MC_C10_align.cfg",
                "exhaustive: models of loadManifest(+seek/Read) / firstBlock+sendFileSegmentIterByName / first_block+"
                "locators_and_ranges(+readfrom) compute Manifest!Segments outside the KF classes; escapers round-trip"),
               ("MC_C10_names.cfg", "exhaustive: name pool x stream names, generator validity, unescapers agree")]
    mcs = [(tlc_bg(ctx, cfg, max(1, W // 2)), cfg, label) for cfg, label in mc_cfgs]
    # ---- GEN: scenarios
    align, _ = ctx.gen(SD, "ManifestCodecs", "Gen_C10_align_big.cfg" if big else "Gen_C10_align.cfg",
                       timeout=1700, label="scenario emission: every (pos,len) alignment")
    names, _ = ctx.gen(SD, "ManifestCodecs", "Gen_C10_names.cfg", timeout=900,
                       label="scenario emission: names x streams")
    ctx.extra["scenarios_emitted"] = len(align) + len(names)
    # every one-token manifest, a seeded sample of the two-token ones (all of them are covered at model level by MC);
    # quick tier: every one-stream name manifest and a seeded sample of the two-stream ones
    one = [s for s in align if len(s["streams"][0]["toks"]) == 1]
    two = [s for s in align if len(s["streams"][0]["toks"]) > 1]
    rnd.shuffle(two)
    align = one + two[:12000 if big else 1200]
    if not big:
        n1 = [s for s in names if len(s["streams"]) == 1]
        n2 = [s for s in names if len(s["streams"]) > 1]
        rnd.shuffle(n2)
        names = n1 + n2[:500]
    scns = []
    for s in align:
        s["kind"] = "align"
        scns.append(s)
    for s in names:
        s["kind"] = "names"
        scns.append(s)
    nrand = 5000 if big else 500
    for i in range(nrand):
        scns.append({"kind": "random", "streams": rand_manifest(rnd)})
    for i, s in enumerate(scns):
        s["id"] = i + 1
        s["hints"] = i % 5
        bake_hints(s["streams"], s["hints"])
        s["rseed"] = ctx.seed * 1000003 + i
        s["mut"] = ""
        s["mutarg"] = 0
        pairs = extract_pairs(s["streams"])
        if s["kind"] == "names" and (big or i % 3 == 0):
            s["extracts"] = pairs          # all (srcpath, relocate) pairs
        else:
            # normalisation always; plus a seeded sample of (src, relocate) pairs
            s["extracts"] = [{"src": [DOT], "rel": [DOT], "slash": False}] + rnd.sample(pairs, min(len(pairs), 2))
            s["extracts"] += [x for x in prefix_sibling_extracts(s["streams"]) if x not in s["extracts"]]
    # single-token mutations of generated manifests
    nmut = 2400 if big else 320
    base = [s for s in scns if s["kind"] != "align"] + scns[:200]
    for i in range(nmut):
        b = rnd.choice(base)
        scns.append({"id": len(scns) + 1, "kind": "mutation", "streams": b["streams"], "hints": b["hints"],   # (ids already carry hints)
                     "rseed": 0, "mut": MUTATIONS[i % len(MUTATIONS)], "mutarg": rnd.randint(0, 10 ** 6), "extracts": []})
    by_id = {s["id"]: s for s in scns}
    ctx.log("scenarios: %d align, %d names, %d random, %d mutations" % (len(align), len(names), nrand, nmut))
    # ---- RUN: the three codecs side by side
    sp = os.path.join(ctx.scratch, "scenarios.ndjson")
    vlib.write_ndjson(sp, scns)
    b1, t1 = go_driver_bg(ctx, "sdk/go/manifest", "manifest", "harness/C10_manifest", "TestVerifC10GoManifest$", sp)
    b2, t2 = go_driver_bg(ctx, "sdk/go/arvados", "arvados", "harness/C10_arvados", "TestVerifC10GoFs$", sp)
    with concurrent.futures.ThreadPoolExecutor(1) as ex:
        fut = ex.submit(run_python_codec, ctx, scns)
        ev1 = go_driver_result(ctx, b1, t1, "sdk/go/manifest TestVerifC10GoManifest")
        ev2 = go_driver_result(ctx, b2, t2, "sdk/go/arvados TestVerifC10GoFs")
        ev3 = fut.result()
    events = ev1 + ev2 + ev3
    annotate(events, by_id)
    traces = vlib.split_traces(events)
    ctx.evaluations = len(traces)
    ctx.log("recorded %d executions, %d events" % (len(traces), len(events)))
    # ---- JUDGE
    nrej = judge_all(ctx, traces, by_id, per_batch=40000 if big else 12000)
    ctx.log("judge: %d executions rejected" % nrej)
    for bg, cfg, label in mcs:
        tlc_bg_result(ctx, bg, cfg, label)
    # ---- evidence
    nontrivial = set()
    for s in scns:
        if s["mut"]:
            continue
        for st in s["streams"]:
            for t in st["toks"]:
                if t["len"] > 0 and len(st["blocks"]) > 1:
                    nontrivial.add((tuple(b % 100 for b in st["blocks"]), t["pos"], t["len"]))
    ctx.extra["distinct_nontrivial"] = len(nontrivial)
    ctx.extra["events_judged"] = len(events)
    ctx.rule = ("scenarios = every manifest of ManifestCodecs.tla within the Gen bounds (all block-size vectors incl. "
                "zero-length blocks x all (pos,len) token alignments; name pool x stream names x 1-2 streams) plus seeded "
                "random manifests (1-4 streams, 1-5 blocks of 0-20 bytes, 1-6 tokens near block boundaries, generated "
                "names) plus single-token mutations; non-trivial = distinct (block size vector, pos, len) of a non-empty "
                "token on a multi-block stream")
    ex = [t for t in traces if t[0].get("codec") == "gomanifest"][:1] + [t for t in traces if t[0].get("codec") == "py"][-1:]
    ctx.samples = [{"scenario": strip(by_id.get(t[0].get("scn"))), "trace": t[:6]} for t in ex]
    ctx.trusted_base = ["concretiser: block id -> distinguishable content bytes, md5 locators, text rendering",
                        "abstraction: locator -> block id by hash, content byte -> (block, offset), tokenising of "
                        "produced manifest text", "fake Keep (ReadAt from memory)",
                        "glue in the Python driver mirroring collection.py/_import_manifest and arvfile.py (not anchored code)",
                        "crypto/md5 for the PDH reference"]
    ctx.assumptions = ["manifest text never contains two consecutive backslashes (format silent, codecs differ)",
                       "no path is both file and directory; no '.'/'..' components; no '0:0:.' placeholders",
                       "sizes < 32 bytes per block, at most 7 distinct non-empty blocks per manifest; four hint shapes (none, +A, +R, +Z+A+K)",
                       "'no panic on arbitrary byte strings' is covered only for single-token mutations of generated manifests"]
    ctx.exhaustive = False


def strip(s):
    if s is None:
        return None
    return {k: v for k, v in s.items() if not k.startswith("_")}


if __name__ == "__main__":
    vlib.main("C10", run)
