#!/usr/bin/env python3
"""C20 - Federated list-by-UUID returns each requested object once from its home cluster.

GEN   specs/federation/FedList.tla   MC_FedList*.cfg (refinement of FedListContract, call bound, no duplicate
                                     merge, termination; reduced and full interleaving)
                                     Gen_FedList_*.cfg (every path: filter sets x existing objects x paging
                                     behaviour x fault position x answer order)
RUN   harness/C20_federation/list_driver_test.go  (real Conn.CollectionList/ContainerList -> splitListRequest,
                                     gated recording stub backends)
JUDGE specs/federation/FedListTrace.tla           (FedListContract)
"""
import os
import random
import sys

sys.path.insert(0, os.path.join(os.path.dirname(os.path.abspath(__file__)), "..", "lib"))
import vlib  # noqa
import C20_route  # noqa
import fedlib  # noqa  (extra part: per-object routing, FedRoute.tla)

PAM = {"lib/controller/localdb/login_pam.go": "harness/stubs/login_pam_stub.go"}


def random_scenario(rnd, sid, seed, thorough):
    ncl = rnd.randint(2, 4)                       # clusters 0..ncl-1 known, ncl = unknown prefix
    local = 0
    known = list(range(ncl))
    universe = [c * 10 + j for c in range(ncl) for j in range(rnd.randint(1, 3))]
    pool = list(universe)
    if rnd.random() < 0.2:
        pool.append(ncl * 10)                     # a UUID of a cluster nobody knows
    if rnd.random() < 0.35:
        pool += [90 + rnd.randint(0, 8) for _ in range(rnd.randint(1, 2))]
    nf = rnd.choice([1, 1, 1, 2, 2, 3])
    core = rnd.sample(pool, rnd.randint(1, len(pool)))
    filters = []
    for _ in range(nf):
        if nf == 1 or rnd.random() < 0.8:         # filters that share a core, so the intersection matters
            f = set(core) | set(rnd.sample(pool, rnd.randint(0, len(pool) // 2)))
        else:
            f = set(rnd.sample(pool, rnd.randint(1, len(pool))))
        filters.append(sorted(f))
    if rnd.random() < 0.03:
        filters = []
    exists = sorted(u for u in universe if rnd.random() < 0.7)
    total = sum(len(f) for f in filters)
    nraw = total + (rnd.randint(1, 2) if filters and filters[0] and rnd.random() < 0.2 else 0)
    flags = {k: False for k in ("other", "count", "limit", "offset", "order")}
    if rnd.random() < 0.15:
        flags[rnd.choice(list(flags))] = True
    mx = rnd.choice([1, 2, 3, 5, 50, 50, 50])
    faults = []
    if rnd.random() < 0.45:
        kinds = ["err", "noprog"] + (["extra", "repeat", "lie"] if thorough else [])
        for _ in range(rnd.randint(1, 2)):
            faults.append([rnd.randint(0, ncl - 1), rnd.randint(1, 3), rnd.choice(kinds)])
    return dict(id=sid, mode="random", rseed=seed * 1000003 + sid, local=local, known=known, filters=filters,
                exists=exists, nraw=nraw, max=mx, steps=[], psize=rnd.choice([-1, 0, 1, 1, 2]), faults=faults,
                kind=rnd.choice(["collection", "container"]), sel=rnd.choice([0, 0, 1, 2]),
                style=rnd.randint(0, 9), **flags)


def run(ctx):
    sd = "specs/federation"
    pkg = "lib/controller/federation"
    rnd = random.Random(ctx.seed)
    # GEN: design-level checks
    mc = (lambda *a, **k: None) if os.environ.get("VERIF_DEV_SKIP_MC") else ctx.tlc   # development aid only
    mc(sd, "FedList", "MC_FedList_full.cfg", timeout=1500,
            label="full interleaving, small instance: refinement, call bound, no duplicate merge, termination")
    # (the Gen configurations below also check the invariants and Refines on every path they emit)
    if ctx.thorough:
        mc(sd, "FedList", "MC_FedList.cfg", timeout=1500,
           label="reduced interleaving (internal steps eager): refinement, invariants")
        mc(sd, "FedList", "MC_FedList_fullmid.cfg", timeout=2400,
                label="full interleaving, 3 clusters + unknown prefix")
        mc(sd, "FedList", "MC_FedList_big.cfg", timeout=2400, extra=["-coverage", "1"],
                label="reduced interleaving, two filters, all rejection rules, 4 fault kinds x 2")
    # GEN: scenarios
    scns = []
    for cfg in (["Gen_FedList_big.cfg", "Gen_FedList_static.cfg"] if ctx.thorough
                else ["Gen_FedList_dyn.cfg", "Gen_FedList_static.cfg"]):
        got, r = ctx.gen(sd, "FedList", cfg, timeout=2400, label="scenario emission + invariants/refinement on every emitted path: " + cfg)
        for s in got:
            s["id"] = len(scns) + 1
            s["mode"] = "model"
            scns.append(s)
    ctx.extra["scenarios_emitted"] = len(scns)
    cap = 40000 if ctx.thorough else 4000
    if len(scns) > cap:
        # every short scenario, a seeded sample of the long ones
        head = [s for s in scns if len(s["steps"]) <= 1]
        rest = [s for s in scns if len(s["steps"]) > 1]
        rnd.shuffle(rest)
        scns = head[:cap // 3] + rest[:max(0, cap - min(len(head), cap // 3))]
    for s in scns:
        s["kind"] = "container" if s["id"] % 3 == 0 else "collection"
        s["sel"] = (s["id"] // 3) % 3
        s["style"] = s["id"] % 10
        s["rseed"] = ctx.seed
    nrand = 6000 if ctx.thorough else 800
    base = 10 ** 6
    for i in range(nrand):
        scns.append(random_scenario(rnd, base + i, ctx.seed, ctx.thorough))
    by_id = {s["id"]: s for s in scns}
    # RUN
    ov = ctx.harness_overlay(pkg, "harness/C20_federation", extra=PAM)
    events, out = ctx.go_run_driver(pkg, ov, "TestVerifC20$", scns, timeout=1500)
    events = fedlib.drop_infra_traces(ctx, events, "list")
    traces = vlib.split_traces(events)
    ctx.evaluations = len(traces)
    # what a remote backend is ASKED for is not part of the statement (only where objects are obtained from)
    nb = sum(1 for t in traces for e in t if e["ev"] == "call" and e["c"] != t[0]["local"]
             and any(u >= 90 or u // 10 != e["c"] for u in e["batch"]))
    if nb:
        ctx.drift.append("%d calls asked a remote backend for UUIDs of another cluster / malformed strings" % nb)
    unused = [t[0] for t in traces if t[0].get("unused_steps")]
    if unused:
        ctx.drift.append("%d scenarios ended before all model steps were used (first scn=%s)"
                         % (len(unused), unused[0].get("scn")))
    if len(unused) > len(traces) // 2:
        raise vlib.InfraError("more than half of the scenarios could not be applied")
    # impl-model prediction vs. real outcome (drift, never a verdict)
    nd = 0
    for t in traces:
        s = by_id.get(t[0].get("scn"))
        d = [e for e in t if e["ev"] == "done"]
        if s and s.get("mode") == "model" and d and not t[0].get("unused_steps"):
            if ("ok" if d[0]["ok"] else "err") != s["expect"] or \
                    (d[0]["ok"] and sorted(d[0]["items"]) != sorted(s["expect_items"])):
                nd += 1
                if nd <= 3:
                    ctx.drift.append("FedList.tla predicted %s %s, code returned ok=%s %s (scn %s)"
                                     % (s["expect"], s["expect_items"], d[0]["ok"], d[0]["items"], s["id"]))
    # JUDGE
    ctx.judge(sd, "FedListTrace", "Judge_FedList.cfg", events, scenario_of=by_id, timeout=2400,
              max_rejects=25 if ctx.thorough else 6)
    nontrivial = set()
    for t in traces:
        resps = tuple((e["c"], e["err"], tuple(sorted(e["items"]))) for e in t if e["ev"] == "resp")
        if len(resps) >= 2:
            h = t[0]
            nontrivial.add((str(h["filters"]), str(h["exists"]), h["max"], resps))
    ctx.extra["distinct_nontrivial"] = len(nontrivial)
    ctx.extra["hang_traces"] = sum(1 for t in traces if any(e["ev"] == "hang" for e in t))
    ctx.rule = ("scenarios = all paths of FedList.tla within the Gen bounds (filter sets over <=6 abstract UUIDs of "
                "local/2 remote/unknown clusters and a malformed string, existing subsets, every well-behaved page "
                "choice, an error / no-progress / extra-item answer at each call, every order of answers across "
                "clusters), plus seeded random requests over 2-4 clusters, 1-3 filters, page sizes, faults; "
                "non-trivial = at least two backend answers; distinct by (filters, exists, max, answer sequence)")
    ctx.samples = [{"scenario": by_id.get(t[0].get("scn")), "trace": t} for t in traces[:1] + traces[len(traces) // 2:len(traces) // 2 + 1] + traces[-2:]]
    ctx.trusted_base = ["recording stub backends (arvados.API) with gated answers",
                        "abstract<->concrete UUID table of the driver",
                        "stub's reading of the uuid filters it receives (intersection of uuid =/in operands)",
                        "pure-Go stub replacing localdb/login_pam.go (build only)"]
    ctx.rule += ("; extra part: the per-object routing table FedRoute.tla (method x prefix class x configured "
                 "remotes x login cluster), every row run against the real Conn")
    ctx.assumptions = ["backends ignore context cancellation (a cancelled call is just another error answer)",
                       "malformed UUID = string whose length is not 27 (as the code defines it)",
                       "answers outside the statement's classes (repeated/unrequested items next to progress, empty "
                       "answer although objects exist) make the contract accept any outcome"]


def run_all(ctx):
    run(ctx)
    n = C20_route.run_part(ctx)
    ctx.evaluations += n


if __name__ == "__main__":
    vlib.main("C20", run_all)
